//! C06 correspondence harness: descriptors are closed exactly once, never in use, never leaked.
//!
//! Layers (first line of a case selects one):
//!   `sfd unsync|sync`   the take/drop protocol on the REAL `SharedFd` (`compio_driver::SharedFd`, and
//!                       `/repo/compio-driver/src/fd.rs` compiled a second time with the `sync` branch of its
//!                       `cfg_select!`), single-threaded enumerated interleavings, hand polling, counting wakers;
//!   `loom <prog>`       fd.rs compiled a third time over loom's Arc/AtomicBool/AtomicWaker: exhaustive
//!                       cross-thread schedules of closer + droppers (lost-wake search);
//!   `stress <prog>`     the `sync` flavour on OS threads (evidence only, output is schedule independent);
//!   `rt <drv> <kind>`   programs on real `File` / `TcpStream` with a real runtime on both drivers;
//!   `prod <drv> <kind>` cancel timing of descriptor-producing operations (accept, open, socket, pipe, multishot).
//! The model side is lean/Drivers/C06.lean.
#![allow(dead_code)]

use std::{
    cell::RefCell,
    future::Future,
    os::fd::{FromRawFd, OwnedFd},
    pin::Pin,
    sync::{
        Arc, Mutex,
        atomic::{AtomicBool, AtomicUsize, Ordering},
    },
    task::{Context, Poll, RawWaker, RawWakerVTable, Waker},
};

use hx_common::*;

// fd.rs refers to these through `crate::`
pub use std::os::fd::{AsFd, AsRawFd, BorrowedFd, RawFd};

/// `/repo/compio-driver/src/fd.rs`, unmodified, with the `feature = "sync"` arm of its `cfg_select!`.
mod fd_sync {
    macro_rules! cfg_select {
        ( feature = "sync" => { $($a:tt)* } _ => { $($b:tt)* } ) => { $($a)* };
    }
    include!("/repo/compio-driver/src/fd.rs");
}

/// loom stand-ins for the three synchrony types fd.rs uses.
mod loom_shim {
    pub mod atomic {
        pub use loom::sync::atomic::AtomicBool;
    }
    pub mod shared {
        pub use loom::sync::Arc as Shared;
    }
    pub mod waker_slot {
        pub struct WakerSlot(loom::future::AtomicWaker);
        impl std::fmt::Debug for WakerSlot {
            fn fmt(&self, f: &mut std::fmt::Formatter<'_>) -> std::fmt::Result {
                f.write_str("WakerSlot")
            }
        }
        impl WakerSlot {
            pub fn new() -> Self {
                Self(loom::future::AtomicWaker::new())
            }

            pub fn register(&self, w: &std::task::Waker) {
                self.0.register_by_ref(w)
            }

            pub fn wake(&self) {
                self.0.wake()
            }
        }
    }
}

/// fd.rs, unmodified, over the loom types.
mod fd_loom {
    macro_rules! cfg_select {
        ( feature = "sync" => { $($a:tt)* } _ => { $($b:tt)* } ) => { use crate::loom_shim as sync; };
    }
    include!("/repo/compio-driver/src/fd.rs");
}

// ---------------------------------------------------------------------------------------------
// observation helpers
// ---------------------------------------------------------------------------------------------

fn fd_is_open(fd: RawFd) -> bool {
    unsafe { libc::fcntl(fd, libc::F_GETFD) != -1 }
}

/// sorted list of the open descriptors of this process (the directory stream's own fd removed)
fn open_fds() -> Vec<RawFd> {
    let mut v = vec![];
    let rd = std::fs::read_dir("/proc/self/fd").expect("/proc/self/fd");
    for e in rd {
        let e = e.unwrap();
        if let Ok(n) = e.file_name().to_string_lossy().parse::<RawFd>() {
            v.push(n);
        }
    }
    // the read_dir handle is closed now; drop the entry that was its own fd
    v.retain(|&fd| fd_is_open(fd));
    v.sort();
    v
}

fn devnull() -> OwnedFd {
    let fd = unsafe { libc::open(c"/dev/null".as_ptr(), libc::O_RDONLY | libc::O_CLOEXEC) };
    assert!(fd >= 0);
    unsafe { OwnedFd::from_raw_fd(fd) }
}

#[derive(Default)]
struct TrackLog {
    drops: AtomicUsize,
    last_raw: AtomicUsize,
}

/// An owned descriptor whose drop (= close) is observable.
struct Tracked {
    fd: Option<OwnedFd>,
    log: Arc<TrackLog>,
}

impl Tracked {
    fn new(log: &Arc<TrackLog>) -> Self {
        Tracked { fd: Some(devnull()), log: log.clone() }
    }

    fn raw(&self) -> RawFd {
        self.fd.as_ref().unwrap().as_raw_fd()
    }
}

impl AsFd for Tracked {
    fn as_fd(&self) -> BorrowedFd<'_> {
        self.fd.as_ref().unwrap().as_fd()
    }
}

impl Drop for Tracked {
    fn drop(&mut self) {
        let fd = self.fd.take().unwrap();
        self.log.last_raw.store(fd.as_raw_fd() as usize, Ordering::SeqCst);
        drop(fd);
        self.log.drops.fetch_add(1, Ordering::SeqCst);
    }
}

// counting wakers -------------------------------------------------------------------------------

struct WakeRec {
    id: usize,
    log: Arc<Mutex<Vec<usize>>>,
}

static VT: RawWakerVTable = RawWakerVTable::new(w_clone, w_wake, w_wake_by_ref, w_drop);

unsafe fn w_clone(p: *const ()) -> RawWaker {
    unsafe { Arc::increment_strong_count(p as *const WakeRec) };
    RawWaker::new(p, &VT)
}
unsafe fn w_wake(p: *const ()) {
    let a = unsafe { Arc::from_raw(p as *const WakeRec) };
    a.log.lock().unwrap().push(a.id);
}
unsafe fn w_wake_by_ref(p: *const ()) {
    let a = unsafe { &*(p as *const WakeRec) };
    a.log.lock().unwrap().push(a.id);
}
unsafe fn w_drop(p: *const ()) {
    drop(unsafe { Arc::from_raw(p as *const WakeRec) });
}

/// wake-log ids: closer `c` polled with waker `w` (< 16) is `c * 16 + w`
const WK: usize = 16;

fn show_wake_log(log: &Arc<Mutex<Vec<usize>>>) -> String {
    let l = log.lock().unwrap();
    if l.is_empty() {
        "-".into()
    } else {
        l.iter().map(|x| format!("{}.{}", x / WK, x % WK)).collect::<Vec<_>>().join(",")
    }
}

/// the persistent waker `w` of closer `c` (same `Waker` object on every use: `will_wake` is exact)
fn waker_of(wakers: &mut Vec<Option<Waker>>, c: usize, w: usize, log: &Arc<Mutex<Vec<usize>>>) -> Waker {
    if wakers.len() < WK {
        wakers.resize(WK, None);
    }
    wakers[w].get_or_insert_with(|| mk_waker(c * WK + w, log)).clone()
}

fn mk_waker(id: usize, log: &Arc<Mutex<Vec<usize>>>) -> Waker {
    let a = Arc::new(WakeRec { id, log: log.clone() });
    let p = Arc::into_raw(a) as *const ();
    unsafe { Waker::from_raw(RawWaker::new(p, &VT)) }
}

// ---------------------------------------------------------------------------------------------
// layer `sfd`: the protocol on the real SharedFd
// ---------------------------------------------------------------------------------------------

type TakeFut = Pin<Box<dyn Future<Output = Option<Tracked>>>>;

trait Sfd: Sized + 'static {
    fn new(t: Tracked) -> Self;
    fn dup(&self) -> Self;
    fn op_clone(&self) -> Self;
    fn unwrap_(self) -> Result<Tracked, Self>;
    fn take_(self) -> TakeFut;
    fn raw(&self) -> RawFd;
    /// address of the strong count of the `Rc`/`Arc` allocation (both are `repr(C)`, strong first)
    fn count_ptr(&self) -> *const usize {
        assert_eq!(std::mem::size_of::<Self>(), std::mem::size_of::<usize>());
        unsafe { *(self as *const Self as *const *const usize) }
    }
}

macro_rules! impl_sfd {
    ($ty:ty, $tr:path) => {
        impl Sfd for $ty {
            fn new(t: Tracked) -> Self {
                <$ty>::new(t)
            }

            fn dup(&self) -> Self {
                self.clone()
            }

            fn op_clone(&self) -> Self {
                <Self as $tr>::to_shared_fd(self)
            }

            fn unwrap_(self) -> Result<Tracked, Self> {
                self.try_unwrap()
            }

            fn take_(self) -> TakeFut {
                Box::pin(self.take())
            }

            fn raw(&self) -> RawFd {
                self.as_fd().as_raw_fd()
            }
        }
    };
}

impl_sfd!(compio_driver::SharedFd<Tracked>, compio_driver::ToSharedFd<Tracked>);
impl_sfd!(fd_sync::SharedFd<Tracked>, fd_sync::ToSharedFd<Tracked>);

/// the strong-count peek is validated by behaviour before it is trusted
fn selfcheck_count<S: Sfd>() {
    let log = Arc::new(TrackLog::default());
    let a = S::new(Tracked::new(&log));
    let p = a.count_ptr();
    let rd = || unsafe { std::ptr::read_volatile(p) };
    assert_eq!(rd(), 1, "strong count peek");
    let b = a.dup();
    assert_eq!(rd(), 2, "strong count peek");
    let c = b.op_clone();
    assert_eq!(rd(), 3, "strong count peek");
    drop(b);
    assert_eq!(rd(), 2, "strong count peek");
    drop(c);
    assert_eq!(rd(), 1, "strong count peek");
    drop(a);
    assert_eq!(log.drops.load(Ordering::SeqCst), 1);
}

enum Actor<S: Sfd> {
    Handle(S),
    Op(S),
    /// `fut` is `Some` while the future exists; `parked` = last poll returned `Pending`
    /// `last_w` = waker of the latest poll; `wakes_seen` / `seen_latest` = wakes of any / of that waker at that poll
    Closer {
        fut: Option<TakeFut>,
        polled: bool,
        parked: bool,
        wakes_seen: usize,
        seen_latest: usize,
        last_w: usize,
        wakers: Vec<Option<Waker>>,
    },
    Gone,
}

struct SfdWorld<S: Sfd> {
    actors: Vec<Actor<S>>,
    log: Arc<TrackLog>,
    wake_log: Arc<Mutex<Vec<usize>>>,
    delivered: Vec<Tracked>,
    raw: RawFd,
    count_ptr: *const usize,
    sentinel: Option<RawFd>,
    sync: bool,
}

impl<S: Sfd> SfdWorld<S> {
    fn new(sync: bool) -> Self {
        let log = Arc::new(TrackLog::default());
        let t = Tracked::new(&log);
        let raw = t.raw();
        let s = S::new(t);
        let count_ptr = s.count_ptr();
        SfdWorld {
            actors: vec![Actor::Handle(s)],
            log,
            wake_log: Arc::new(Mutex::new(vec![])),
            delivered: vec![],
            raw,
            count_ptr,
            sentinel: None,
            sync,
        }
    }

    fn released(&self) -> usize {
        self.log.drops.load(Ordering::SeqCst) + self.delivered.len()
    }

    fn count(&self) -> usize {
        if self.released() == 0 { unsafe { std::ptr::read_volatile(self.count_ptr) } } else { 0 }
    }

    fn wakes(&self) -> usize {
        self.wake_log.lock().unwrap().len()
    }

    fn wakes_of(&self, c: usize) -> usize {
        self.wake_log.lock().unwrap().iter().filter(|&&x| x / WK == c).count()
    }

    fn wakes_of_w(&self, c: usize, w: usize) -> usize {
        self.wake_log.lock().unwrap().iter().filter(|&&x| x == c * WK + w).count()
    }

    /// number of values alive that own a reference, by the harness' own book-keeping
    fn holders(&self) -> usize {
        self.actors
            .iter()
            .filter(|a| match a {
                Actor::Handle(_) | Actor::Op(_) => true,
                Actor::Closer { fut, .. } => fut.is_some(),
                Actor::Gone => false,
            })
            .count()
    }

    fn line(&self, r: &str) -> String {
        format!(
            "ok c={} rel={} del={} wk={} wl={} r={}",
            self.count(),
            self.released(),
            self.delivered.len(),
            self.wakes(),
            show_wake_log(&self.wake_log),
            r
        )
    }

    /// run one event; `None` = the event does not apply (the value does not exist / was moved)
    fn event(&mut self, w: &[&str], ex: &mut Exec) -> Option<String> {
        let id: usize = w.get(1)?.parse().ok()?;
        if id >= self.actors.len() {
            return None;
        }
        let rel_before = self.released();
        let holders_before = self.holders();
        let mut r = "-".to_string();
        let mut rawish = false; // the event releases a reference through a path without `Drop for SharedFd`
        match w[0] {
            "clone" | "op" => {
                let Actor::Handle(h) = &self.actors[id] else { return None };
                let n = if w[0] == "clone" { Actor::Handle(h.dup()) } else { Actor::Op(h.op_clone()) };
                self.actors.push(n);
            }
            "drop" => {
                match std::mem::replace(&mut self.actors[id], Actor::Gone) {
                    Actor::Handle(h) | Actor::Op(h) => drop(h),
                    other => {
                        self.actors[id] = other;
                        return None;
                    }
                };
            }
            "unwrap" => match std::mem::replace(&mut self.actors[id], Actor::Gone) {
                Actor::Handle(h) => match h.unwrap_() {
                    Ok(t) => {
                        self.delivered.push(t);
                        r = "ok".into();
                        if holders_before != 1 {
                            ex.fail("C06:unwrap-not-unique", format!("try_unwrap succeeded with {holders_before} holders"));
                        }
                    }
                    Err(h) => {
                        self.actors[id] = Actor::Handle(h);
                        r = "err".into();
                        if holders_before == 1 {
                            ex.fail("C06:unwrap-unique-failed", "try_unwrap failed for the only holder");
                        }
                    }
                },
                other => {
                    self.actors[id] = other;
                    return None;
                }
            },
            "take" => match std::mem::replace(&mut self.actors[id], Actor::Gone) {
                Actor::Handle(h) => {
                    self.actors[id] = Actor::Closer {
                        fut: Some(h.take_()),
                        polled: false,
                        parked: false,
                        wakes_seen: 0,
                        seen_latest: 0,
                        last_w: 0,
                        wakers: vec![],
                    };
                }
                other => {
                    self.actors[id] = other;
                    return None;
                }
            },
            "poll" => {
                let wk: usize = match w.get(2) {
                    Some(x) => x.parse().ok().filter(|x| *x < WK)?,
                    None => 0,
                };
                let seen = self.wakes_of(id);
                let seen_w = self.wakes_of_w(id, wk);
                let log = self.wake_log.clone();
                let Actor::Closer { fut, polled, parked, wakes_seen, seen_latest, last_w, wakers } = &mut self.actors[id]
                else {
                    return None;
                };
                let Some(f) = fut.as_mut() else { return None };
                *wakes_seen = seen;
                *seen_latest = seen_w;
                *last_w = wk;
                *polled = true;
                let waker = waker_of(wakers, id, wk, &log);
                let mut cx = Context::from_waker(&waker);
                match f.as_mut().poll(&mut cx) {
                    Poll::Pending => {
                        *parked = true;
                        r = "pending".into();
                        if holders_before == 1 {
                            ex.fail("C06:close-not-completed", "take() pending although the closer is the only holder");
                        }
                    }
                    Poll::Ready(Some(t)) => {
                        *parked = false;
                        *fut = None;
                        self.delivered.push(t);
                        r = "some".into();
                        if holders_before != 1 {
                            ex.fail(
                                "C06:close-before-release",
                                format!("take() completed while {} other holders exist", holders_before - 1),
                            );
                        }
                    }
                    Poll::Ready(None) => {
                        *parked = false;
                        *fut = None;
                        r = "none".into();
                        rawish = true;
                    }
                }
            }
            "dropfut" => {
                let Actor::Closer { fut, parked, .. } = &mut self.actors[id] else { return None };
                if fut.is_none() {
                    return None;
                }
                *fut = None;
                *parked = false;
                rawish = true;
            }
            _ => return None,
        }
        // ---- monitors (implementation only) ----
        let rel = self.released();
        if rel > 1 {
            ex.fail("C06:double-release", format!("inner descriptor released {rel} times"));
        }
        if rel > rel_before {
            // released by this event: nobody else may hold a reference
            let left = self.holders();
            if left != 0 {
                ex.fail("C06:closed-in-use", format!("descriptor released while {left} holders remain"));
            }
            if self.log.drops.load(Ordering::SeqCst) == 1 && self.sentinel.is_none() {
                // dropped in place: the number must be closed now; park a sentinel on it so that a
                // second close of the same number becomes visible
                if fd_is_open(self.raw) {
                    ex.fail("C06:not-closed", "inner value dropped but the descriptor is still open");
                } else {
                    let s = devnull();
                    if s.as_raw_fd() == self.raw {
                        // lowest free number: the sentinel landed on it directly
                        self.sentinel = Some(std::os::fd::IntoRawFd::into_raw_fd(s));
                    } else if unsafe { libc::dup2(s.as_raw_fd(), self.raw) } == self.raw {
                        self.sentinel = Some(self.raw);
                    }
                }
            }
        } else if rel == 0 && !fd_is_open(self.raw) {
            ex.fail("C06:closed-early", "descriptor closed while references exist");
        }
        // a closer that is parked, alone, and has not been woken since its last poll waits forever
        let holders = self.holders();
        for (i, a) in self.actors.iter().enumerate() {
            if let Actor::Closer { fut: Some(_), parked: true, wakes_seen, seen_latest, last_w, .. } = a {
                if holders == 1 && self.wakes_of_w(i, *last_w) == *seen_latest && self.wakes_of(i) > *wakes_seen {
                    ex.fail(
                        "C06:stale-waker",
                        format!("closer {i} parked under waker {last_w}, sole owner after `{}`: a waker of an earlier poll was woken ({}), the latest one was not", w.join(" "), show_wake_log(&self.wake_log)),
                    );
                } else if holders == 1 && self.wakes_of(i) == *wakes_seen {
                    if rawish {
                        ex.fail(
                            "F8b:sharedfd-raw-drop-lost-wake",
                            format!("closer {i} parked, sole owner, never woken: last reference released by `{}` (raw Shared drop, no wake test)", w.join(" ")),
                        );
                    } else {
                        ex.fail("C06:lost-wake", format!("closer {i} parked, sole owner, not woken after `{}`", w.join(" ")));
                    }
                }
            }
        }
        Some(self.line(&r))
    }

    fn finish(mut self, ex: &mut Exec) {
        self.actors.clear();
        self.delivered.clear();
        let drops = self.log.drops.load(Ordering::SeqCst);
        if drops != 1 {
            ex.fail("C06:fd-leak", format!("inner value dropped {drops} times after every value was dropped"));
        }
        if let Some(s) = self.sentinel {
            if !fd_is_open(s) {
                ex.fail("C06:double-close", "descriptor number closed a second time");
            } else {
                unsafe { libc::close(s) };
            }
        }
    }
}

fn exec_sfd<S: Sfd>(case: &Case, sync: bool, ex: &mut Exec) {
    let before = open_fds();
    let mut w = SfdWorld::<S>::new(sync);
    ex.out.push(w.line("-"));
    let mut kinds = std::collections::BTreeSet::new();
    for l in &case.lines[1..] {
        let ws: Vec<&str> = l.split_whitespace().collect();
        match w.event(&ws, ex) {
            Some(o) => {
                kinds.insert(ws[0].to_string());
                ex.out.push(o)
            }
            None => ex.out.push("rej".into()),
        }
    }
    let had_closer = w.actors.iter().any(|a| matches!(a, Actor::Closer { .. }));
    w.finish(ex);
    let after = open_fds();
    if before != after {
        ex.fail("C06:fd-balance", format!("open descriptors before {before:?} after {after:?}"));
    }
    ex.tag(format!("sfd-{}", if sync { "sync" } else { "unsync" }));
    for k in &kinds {
        ex.tag(format!("ev-{k}"));
    }
    ex.nontrivial = had_closer && kinds.len() >= 3;
}

// ---------------------------------------------------------------------------------------------
// layer `loom`: cross-thread schedules of the real fd.rs text over loom primitives
// ---------------------------------------------------------------------------------------------

struct Plain(i32);
impl AsFd for Plain {
    fn as_fd(&self) -> BorrowedFd<'_> {
        unsafe { BorrowedFd::borrow_raw(self.0) }
    }
}

/// `droppers` clones are dropped on other threads (`par`: one thread each; `seq`: one thread drops them
/// all, one after the other; `joined`: as `par`, but the threads are joined before `take()` is awaited)
/// while this thread awaits `take()`. A lost wake leaves the closer parked for ever: loom reports a deadlock.
fn loom_prog(droppers: usize, mode: &'static str) -> Result<usize, String> {
    let iters = Arc::new(AtomicUsize::new(0));
    let it = iters.clone();
    let r = catch(move || {
        let mut b = loom::model::Builder::new();
        b.preemption_bound = Some(3);
        b.check(move || {
            it.fetch_add(1, Ordering::Relaxed);
            let a = fd_loom::SharedFd::new(Plain(0));
            let clones: Vec<_> = (0..droppers).map(|_| a.clone()).collect();
            let mut ths = vec![];
            spawn_droppers(clones, mode == "seq", &mut ths);
            if mode == "joined" {
                for t in ths.drain(..) {
                    t.join().unwrap();
                }
            }
            loom::future::block_on(async move {
                let r = a.take().await;
                assert!(r.is_some());
            });
            for t in ths {
                t.join().unwrap();
            }
        });
    });
    match r {
        Ok(()) => Ok(iters.load(Ordering::Relaxed)),
        Err(m) => Err(m),
    }
}

fn spawn_droppers(
    clones: Vec<fd_loom::SharedFd<Plain>>,
    seq: bool,
    ths: &mut Vec<loom::thread::JoinHandle<()>>,
) {
    if seq {
        ths.push(loom::thread::spawn(move || {
            for c in clones {
                drop(c);
            }
        }));
    } else {
        for c in clones {
            ths.push(loom::thread::spawn(move || drop(c)));
        }
    }
}

fn exec_loom(case: &Case, ex: &mut Exec) {
    let ws: Vec<&str> = case.lines[0].split_whitespace().collect();
    let n: usize = ws.get(2).and_then(|s| s.parse().ok()).unwrap_or(1);
    let mode: &'static str = match ws.get(1).copied() {
        Some("par") => "par",
        Some("seq") => "seq",
        Some("joined") => "joined",
        _ => {
            ex.out.push("bad-op".into());
            return;
        }
    };
    if n > 3 {
        ex.out.push("bad-op".into());
        return;
    }
    match loom_prog(n, mode) {
        Ok(iters) => {
            ex.out.push("lost=no".into());
            ex.tag(format!("loom-clean-iters-{}", if iters > 100 { ">100" } else { "<=100" }));
        }
        Err(m) => {
            let dead = m.contains("deadlock");
            ex.out.push(if dead { "lost=yes".into() } else { format!("panic {m}") });
            if dead {
                ex.fail(
                    "F8:sharedfd-sync-lost-wake",
                    format!("loom: `take().await` never completes ({} concurrent droppers, {}): {}", n, ws[1], m.lines().next().unwrap_or("")),
                );
            } else {
                ex.fail("C06:loom-panic", m);
            }
        }
    }
    ex.tag("loom");
    ex.nontrivial = true;
}

// ---------------------------------------------------------------------------------------------
// layer `stress`: the `sync` flavour of fd.rs on OS threads (evidence; the output line is schedule independent)
// ---------------------------------------------------------------------------------------------

struct FlagWake(AtomicBool);
impl std::task::Wake for FlagWake {
    fn wake(self: Arc<Self>) {
        self.0.store(true, Ordering::SeqCst);
    }
}

/// closer polled once (parked, 3 references), then two threads drop one clone each at the same moment.
/// After both have finished: either the closer's waker was woken, or it never will be.
fn stress_twodrop(max_iters: usize, budget: std::time::Duration) -> (usize, usize) {
    let t0 = std::time::Instant::now();
    let mut lost = 0;
    let mut iters = 0;
    while iters < max_iters && t0.elapsed() < budget {
        iters += 1;
        let a = fd_sync::SharedFd::new(Plain(0));
        let b = a.clone();
        let c = a.clone();
        let flag = Arc::new(FlagWake(AtomicBool::new(false)));
        let waker = Waker::from(flag.clone());
        let mut cx = Context::from_waker(&waker);
        let mut fut = Box::pin(a.take());
        assert!(fut.as_mut().poll(&mut cx).is_pending());
        let go = AtomicUsize::new(0);
        std::thread::scope(|sc| {
            for x in [b, c] {
                let go = &go;
                sc.spawn(move || {
                    go.fetch_add(1, Ordering::SeqCst);
                    while go.load(Ordering::SeqCst) < 2 {
                        std::hint::spin_loop();
                    }
                    drop(x);
                });
            }
        });
        if !flag.0.load(Ordering::SeqCst) {
            lost += 1;
            // the closer is the only owner now: a poll would succeed, but nothing will ever cause one
            assert!(matches!(fut.as_mut().poll(&mut cx), Poll::Ready(Some(_))));
        }
    }
    (iters, lost)
}

fn exec_stress(case: &Case, ex: &mut Exec) {
    let ws: Vec<&str> = case.lines[0].split_whitespace().collect();
    let n: usize = ws.get(2).and_then(|s| s.parse().ok()).unwrap_or(2000);
    match ws.get(1).copied() {
        Some("twodrop") => {
            let (iters, lost) = stress_twodrop(n, std::time::Duration::from_millis(if n <= 3000 { 800 } else { 2500 }));
            ex.out.push("done".into());
            ex.tag(if lost > 0 { "stress-lost-wake-seen" } else { "stress-lost-wake-not-seen" });
            if lost > 0 {
                ex.fail(
                    "F8:sharedfd-sync-lost-wake",
                    format!("stress (OS threads, synchrony::sync): closer parked with 3 references, two threads drop one clone each: waker never woken in {lost} of {iters} runs"),
                );
            }
        }
        _ => ex.out.push("bad-op".into()),
    }
    ex.nontrivial = true;
}

// ---------------------------------------------------------------------------------------------
// runtimes (one per driver, reused by every case)
// ---------------------------------------------------------------------------------------------

use std::{io, time::Duration};

use compio_driver::{DriverType, ProactorBuilder, ToSharedFd};
use compio_runtime::Runtime;

thread_local! {
    static RTS: RefCell<[Option<Runtime>; 3]> = const { RefCell::new([None, None, None]) };
}

fn with_rt<T>(iour: bool, f: impl FnOnce(&Runtime) -> T) -> Result<T, String> {
    with_rt_idx(iour as usize, f)
}

/// 0 = polling, 1 = io_uring, 2 = io_uring with a 2-entry ring (4-entry completion queue: a burst of
/// connections overflows it and the multishot accept ends with a terminal successful completion)
fn with_rt_idx<T>(idx: usize, f: impl FnOnce(&Runtime) -> T) -> Result<T, String> {
    let iour = idx >= 1;
    let rt = RTS.with(|r| -> Result<Runtime, String> {
        let mut r = r.borrow_mut();
        if r[idx].is_none() {
            let mut pb = ProactorBuilder::new();
            // one pool thread: a second blocking job is accepted only after the first has finished, which
            // makes `pool_barrier` a real barrier
            pb.driver_type(if iour { DriverType::IoUring } else { DriverType::Poll })
                .capacity(if idx == 2 { 2 } else { 64 })
                .thread_pool_limit(1);
            let rt = compio_runtime::RuntimeBuilder::new()
                .with_proactor(pb)
                .build()
                .map_err(|e| format!("runtime build: {e}"))?;
            if rt.driver_type().is_iouring() != iour {
                return Err("driver type not available".into());
            }
            // warm up: blocking pool thread, notifier, ...
            rt.block_on(async {
                let f = compio_fs::File::open("/dev/null").await.unwrap();
                f.close().await.unwrap();
                let s = compio_net::TcpSocket::new_v4().await.unwrap();
                drop(s);
            });
            r[idx] = Some(rt);
        }
        Ok(r[idx].clone().unwrap())
    })?;
    Ok(rt.enter(|| f(&rt)))
}

fn drive(rt: &Runtime) {
    rt.poll_with(Some(Duration::ZERO));
    rt.run();
}

/// drive until `done()` or the patience is used up
fn settle(rt: &Runtime, patience: Duration, mut done: impl FnMut() -> bool) -> bool {
    let t0 = std::time::Instant::now();
    loop {
        drive(rt);
        drive(rt);
        if done() {
            return true;
        }
        if t0.elapsed() >= patience {
            return false;
        }
        std::thread::sleep(Duration::from_micros(50));
    }
}

/// wait until every blocking job handed to the (single-threaded) pool before this call has finished
/// and its completion has been reaped by the driver
fn pool_barrier(rt: &Runtime) {
    let mut h = Box::pin(rt.spawn_blocking(|| ()));
    let waker = Waker::noop();
    let mut cx = Context::from_waker(waker);
    settle(rt, Duration::from_secs(2), || h.as_mut().poll(&mut cx).is_ready());
    drive(rt);
}

// ---------------------------------------------------------------------------------------------
// layer `rt`: clone / drop / in-flight operation / close() on real File, UnixStream, TcpStream
// ---------------------------------------------------------------------------------------------

type IoFut = Pin<Box<dyn Future<Output = io::Result<usize>>>>;
type CloseFut = Pin<Box<dyn Future<Output = io::Result<()>>>>;

#[derive(Clone)]
enum Obj {
    File(compio_fs::File),
    Unix(compio_net::UnixStream),
    Tcp(compio_net::TcpStream),
    /// `compio_runtime::fd::AsyncFd<OwnedFd>` (Attacher + SharedFd); "close" = `into_inner().take()` (no ManuallyDrop wrapper)
    Afd(compio_runtime::fd::AsyncFd<std::os::fd::OwnedFd>),
}

impl Obj {
    fn raw(&self) -> RawFd {
        match self {
            Obj::File(f) => f.as_raw_fd(),
            Obj::Unix(f) => f.as_raw_fd(),
            Obj::Tcp(f) => f.as_raw_fd(),
            Obj::Afd(f) => f.as_raw_fd(),
        }
    }

    /// address of the strong count; only called while no closer waits (the temporary clone's drop must not wake)
    fn count_ptr(&self) -> *const usize {
        fn p<T>(s: compio_driver::SharedFd<T>) -> *const usize {
            assert_eq!(std::mem::size_of_val(&s), std::mem::size_of::<usize>());
            unsafe { *(&s as *const _ as *const *const usize) }
        }
        match self {
            Obj::File(f) => p(f.to_shared_fd()),
            Obj::Unix(f) => p(f.to_shared_fd()),
            Obj::Tcp(f) => p(f.to_shared_fd()),
            Obj::Afd(f) => p(f.to_shared_fd()),
        }
    }

    fn close(self) -> CloseFut {
        match self {
            Obj::File(f) => Box::pin(f.close()),
            Obj::Unix(f) => Box::pin(f.close()),
            Obj::Tcp(f) => Box::pin(f.close()),
            Obj::Afd(f) => {
                // `take()` is called NOW (the future captures the raw `Shared`, model event `take`); the descriptor is
                // closed by dropping the `OwnedFd` the future hands out
                let t = compio_buf::IntoInner::into_inner(f).take();
                Box::pin(async move {
                    drop(t.await);
                    Ok(())
                })
            }
        }
    }

    /// an operation that stays in flight: the future owns a helper clone of the handle, the op its own clone
    fn start_op(&self) -> IoFut {
        use compio_io::{AsyncRead, AsyncReadAt};
        match self.clone() {
            Obj::File(f) => Box::pin(async move { f.read_at(Vec::with_capacity(1), 0).await.0 }),
            Obj::Unix(f) => Box::pin(async move { (&f).read(Vec::with_capacity(1)).await.0 }),
            Obj::Tcp(f) => Box::pin(async move { (&f).read(Vec::with_capacity(1)).await.0 }),
            Obj::Afd(f) => Box::pin(async move { (&f).read(Vec::with_capacity(1)).await.0 }),
        }
    }
}

enum Peer {
    None,
    Unix(std::os::unix::net::UnixStream),
    Tcp(std::net::TcpStream),
}

enum RActor {
    Handle(Obj),
    Helper,
    Op { fut: IoFut, waker: Waker, fed: bool },
    Closer {
        fut: Option<CloseFut>,
        polled: bool,
        parked: bool,
        wakes_seen: usize,
        seen_latest: usize,
        last_w: usize,
        wakers: Vec<Option<Waker>>,
    },
    Gone,
}

struct RtWorld<'a> {
    rt: &'a Runtime,
    actors: Vec<RActor>,
    peer: Peer,
    wake_log: Arc<Mutex<Vec<usize>>>,
    raw: RawFd,
    count_ptr: *const usize,
    closed: bool,
    sentinel: Option<RawFd>,
    kind: String,
    dropped_unpolled_close: bool,
    /// references forgotten by dropping a never-polled close() future (finding F8c): they keep counting
    leaked_refs: usize,
    /// the first close() future that was polled (it is the one entitled to wait; later ones get `None`)
    first_polled: Option<usize>,
}

fn tcp_pair() -> (std::net::TcpStream, std::net::TcpStream) {
    let l = std::net::TcpListener::bind("127.0.0.1:0").unwrap();
    let a = std::net::TcpStream::connect(l.local_addr().unwrap()).unwrap();
    let (b, _) = l.accept().unwrap();
    (a, b)
}

impl<'a> RtWorld<'a> {
    fn new(rt: &'a Runtime, kind: &str) -> Option<Self> {
        let (obj, peer) = match kind {
            "file" => {
                let f = std::fs::File::open("/proc/self/exe").unwrap();
                let raw = std::os::fd::IntoRawFd::into_raw_fd(f);
                (Obj::File(unsafe { compio_fs::File::from_raw_fd(raw) }), Peer::None)
            }
            "unix" => {
                let (a, b) = std::os::unix::net::UnixStream::pair().unwrap();
                (Obj::Unix(compio_net::UnixStream::from_std(a).unwrap()), Peer::Unix(b))
            }
            "afd" => {
                let (a, b) = std::os::unix::net::UnixStream::pair().unwrap();
                a.set_nonblocking(true).unwrap();
                let fd = std::os::fd::OwnedFd::from(a);
                (Obj::Afd(compio_runtime::fd::AsyncFd::new(fd).unwrap()), Peer::Unix(b))
            }
            "tcp" => {
                let (a, b) = tcp_pair();
                (Obj::Tcp(compio_net::TcpStream::from_std(a).unwrap()), Peer::Tcp(b))
            }
            _ => return None,
        };
        let raw = obj.raw();
        let count_ptr = obj.count_ptr();
        Some(RtWorld {
            rt,
            actors: vec![RActor::Handle(obj)],
            peer,
            wake_log: Arc::new(Mutex::new(vec![])),
            raw,
            count_ptr,
            closed: false,
            sentinel: None,
            kind: kind.to_string(),
            dropped_unpolled_close: false,
            leaked_refs: 0,
            first_polled: None,
        })
    }

    fn wakes_of(&self, c: usize) -> usize {
        self.wake_log.lock().unwrap().iter().filter(|&&x| x / WK == c).count()
    }

    fn wakes_of_w(&self, c: usize, w: usize) -> usize {
        self.wake_log.lock().unwrap().iter().filter(|&&x| x == c * WK + w).count()
    }

    fn holders(&self) -> usize {
        self.actors
            .iter()
            .filter(|a| match a {
                RActor::Handle(_) | RActor::Helper | RActor::Op { .. } => true,
                RActor::Closer { fut, .. } => fut.is_some(),
                RActor::Gone => false,
            })
            .count()
            + self.leaked_refs
    }

    /// observe whether the descriptor number has been closed; once seen, a sentinel keeps the number busy
    fn observe_closed(&mut self) -> bool {
        if !self.closed && !fd_is_open(self.raw) {
            self.closed = true;
            let s = devnull();
            if s.as_raw_fd() == self.raw {
                self.sentinel = Some(std::os::fd::IntoRawFd::into_raw_fd(s));
            } else if unsafe { libc::dup2(s.as_raw_fd(), self.raw) } == self.raw {
                self.sentinel = Some(self.raw);
            }
        }
        self.closed
    }

    fn line(&mut self, r: &str) -> String {
        let closed = self.observe_closed();
        let count = if closed { 0 } else { unsafe { std::ptr::read_volatile(self.count_ptr) } };
        // closers that are parked and whose latest waker has been woken since their last poll
        let mut pw = vec![];
        for (i, a) in self.actors.iter().enumerate() {
            if let RActor::Closer { fut: Some(_), parked: true, seen_latest, last_w, .. } = a {
                if self.wakes_of_w(i, *last_w) > *seen_latest {
                    pw.push(i.to_string());
                }
            }
        }
        let pw = if pw.is_empty() { "-".to_string() } else { pw.join(",") };
        format!("ok c={} open={} pw={} r={}", count, !closed as u8, pw, r)
    }

    fn event(&mut self, w: &[&str], ex: &mut Exec) -> Option<String> {
        let id: usize = w.get(1)?.parse().ok()?;
        if id >= self.actors.len() {
            return None;
        }
        let holders_before = self.holders();
        let mut r = "-".to_string();
        let mut rawish = false;
        let short = Duration::from_micros(300);
        match w[0] {
            "clone" => {
                let RActor::Handle(h) = &self.actors[id] else { return None };
                let n = RActor::Handle(h.clone());
                self.actors.push(n);
            }
            "drop" => match std::mem::replace(&mut self.actors[id], RActor::Gone) {
                RActor::Handle(h) => drop(h),
                other => {
                    self.actors[id] = other;
                    return None;
                }
            },
            "op" => {
                let RActor::Handle(h) = &self.actors[id] else { return None };
                let mut fut = h.start_op();
                let n = self.actors.len() + 1;
                let waker = mk_waker(n * WK, &self.wake_log);
                let mut cx = Context::from_waker(&waker);
                match fut.as_mut().poll(&mut cx) {
                    Poll::Pending => {
                        self.actors.push(RActor::Helper);
                        self.actors.push(RActor::Op { fut, waker, fed: false });
                    }
                    Poll::Ready(res) => {
                        // completed synchronously: both clones are gone again
                        self.actors.push(RActor::Gone);
                        self.actors.push(RActor::Gone);
                        r = format!("imm-{}", if res.is_ok() { "ok" } else { "err" });
                    }
                }
            }
            "fin" => {
                if !matches!(self.actors[id], RActor::Op { .. }) {
                    return None;
                }
                // one byte for every operation in flight that has not been fed yet (each reads at most one)
                let mut unfed = 0;
                for a in self.actors.iter_mut() {
                    if let RActor::Op { fed, .. } = a {
                        if !*fed {
                            *fed = true;
                            unfed += 1;
                        }
                    }
                }
                let bytes = vec![b'x'; unfed];
                match &mut self.peer {
                    Peer::Unix(p) => {
                        use std::io::Write;
                        p.write_all(&bytes).unwrap();
                    }
                    Peer::Tcp(p) => {
                        use std::io::Write;
                        p.write_all(&bytes).unwrap();
                    }
                    Peer::None => {}
                }
                let RActor::Op { mut fut, waker, .. } = std::mem::replace(&mut self.actors[id], RActor::Gone) else {
                    unreachable!()
                };
                self.actors[id - 1] = RActor::Gone;
                let mut res = None;
                let rt = self.rt;
                settle(rt, Duration::from_secs(2), || {
                    let mut cx = Context::from_waker(&waker);
                    match fut.as_mut().poll(&mut cx) {
                        Poll::Ready(x) => {
                            res = Some(x);
                            true
                        }
                        Poll::Pending => false,
                    }
                });
                drop(fut);
                match res {
                    Some(Ok(_)) => r = "ok".into(),
                    Some(Err(e)) => {
                        r = "err".into();
                        let bad = e.raw_os_error() == Some(libc::EBADF);
                        ex.fail(
                            if bad { "C06:ebadf" } else { "C06:op-error" },
                            format!("operation holding a clone failed: {e}"),
                        );
                    }
                    None => {
                        r = "stuck".into();
                        ex.fail("C06:op-stuck", "operation did not complete");
                    }
                }
            }
            "cancel" => {
                if !matches!(self.actors[id], RActor::Op { .. }) {
                    return None;
                }
                let before = if self.closed { 0 } else { unsafe { std::ptr::read_volatile(self.count_ptr) } };
                self.actors[id] = RActor::Gone; // future dropped: cancel issued, helper clone dropped
                self.actors[id - 1] = RActor::Gone;
                let ptr = self.count_ptr;
                let raw = self.raw;
                // the driver releases the operation (and its clone) once the cancellation has completed
                settle(self.rt, Duration::from_secs(2), || {
                    !fd_is_open(raw) || unsafe { std::ptr::read_volatile(ptr) } + 2 <= before
                });
            }
            "close" => match std::mem::replace(&mut self.actors[id], RActor::Gone) {
                RActor::Handle(h) => {
                    self.actors[id] = RActor::Closer {
                        fut: Some(h.close()),
                        polled: false,
                        parked: false,
                        wakes_seen: 0,
                        seen_latest: 0,
                        last_w: 0,
                        wakers: vec![],
                    };
                }
                other => {
                    self.actors[id] = other;
                    return None;
                }
            },
            "poll" => {
                let wk: usize = match w.get(2) {
                    Some(x) => x.parse().ok().filter(|x| *x < WK)?,
                    None => 0,
                };
                let seen = self.wakes_of(id);
                let seen_w = self.wakes_of_w(id, wk);
                let log = self.wake_log.clone();
                let rt = self.rt;
                let RActor::Closer { fut, polled, parked, wakes_seen, seen_latest, last_w, wakers } = &mut self.actors[id]
                else {
                    return None;
                };
                let Some(f) = fut.as_mut() else { return None };
                *polled = true;
                *wakes_seen = seen;
                *seen_latest = seen_w;
                *last_w = wk;
                let waker = waker_of(wakers, id, wk, &log);
                if self.first_polled.is_none() {
                    self.first_polled = Some(id);
                }
                // run the closer to quiescence: poll, and while the close operation is in flight drive the
                // runtime and poll again. If other holders exist nothing is in flight: one poll.
                let mut out: Option<io::Result<()>> = None;
                let patience = if holders_before == 1 { Duration::from_secs(2) } else { short };
                let mut polls = 0;
                settle(rt, patience, || {
                    polls += 1;
                    if polls > 1 && holders_before != 1 {
                        return true;
                    }
                    let mut cx = Context::from_waker(&waker);
                    match f.as_mut().poll(&mut cx) {
                        Poll::Ready(x) => {
                            out = Some(x);
                            true
                        }
                        Poll::Pending => false,
                    }
                });
                match out {
                    Some(res) => {
                        *fut = None;
                        *parked = false;
                        r = if res.is_ok() { "ready".into() } else { "ready-err".into() };
                        if let Err(e) = res {
                            ex.fail("C06:close-error", format!("close() returned {e}"));
                        }
                        rawish = true; // decided below: `Ready` with the descriptor still open = the `None` path
                    }
                    None => {
                        *parked = true;
                        r = "pending".into();
                        if holders_before == 1 {
                            ex.fail("C06:close-not-completed", "close() pending although the closer is the only holder");
                        }
                    }
                }
            }
            "dropfut" => {
                let RActor::Closer { fut, parked, polled, .. } = &mut self.actors[id] else { return None };
                if fut.is_none() {
                    return None;
                }
                let unpolled = !*polled;
                *fut = None;
                *parked = false;
                rawish = true;
                if unpolled && self.kind != "afd" {
                    // File/Socket::close: the handle sits in ManuallyDrop (F8c). A bare `take()` future (afd) owns
                    // the raw `Shared` and releases it when dropped.
                    self.dropped_unpolled_close = true;
                    self.leaked_refs += 1;
                }
            }
            _ => return None,
        }
        // ---- monitors ----
        let closed = self.observe_closed();
        let holders = self.holders();
        if closed && holders > 0 {
            ex.fail("C06:closed-in-use", format!("descriptor closed while {holders} holders remain (after `{}`)", w.join(" ")));
        }
        if w[0] == "poll" && r == "ready" && !closed && holders_before == 1 {
            ex.fail("C06:close-did-not-close", "close() completed as sole owner but the descriptor is still open");
        }
        if w[0] == "poll" && r == "ready" && !closed && holders_before != 1 && self.first_polled == Some(id) {
            ex.fail(
                "C06:close-returned-early",
                format!("close() completed while {} other holders exist, without closing, although no other close() was waiting", holders_before - 1),
            );
        }
        if w[0] == "poll" && r == "ready" && closed && holders_before != 1 {
            ex.fail("C06:close-before-release", format!("close() closed the descriptor while {} other holders existed", holders_before - 1));
        }
        for (i, a) in self.actors.iter().enumerate() {
            if let RActor::Closer { fut: Some(_), parked: true, wakes_seen, seen_latest, last_w, .. } = a {
                if holders == 1 && self.wakes_of_w(i, *last_w) == *seen_latest && self.wakes_of(i) > *wakes_seen {
                    ex.fail(
                        "C06:stale-waker",
                        format!("{}: close() future {i} parked under waker {last_w}, sole owner after `{}`: a waker of an earlier poll was woken ({}), the latest one was not", self.kind, w.join(" "), show_wake_log(&self.wake_log)),
                    );
                } else if holders == 1 && self.wakes_of(i) == *wakes_seen {
                    if rawish {
                        ex.fail(
                            "F8b:sharedfd-raw-drop-lost-wake",
                            format!("{}: close() future {i} parked, sole owner, never woken: last reference released by `{}`", self.kind, w.join(" ")),
                        );
                    } else {
                        ex.fail("C06:lost-wake", format!("close() future {i} parked, sole owner, not woken after `{}`", w.join(" ")));
                    }
                }
            }
        }
        Some(self.line(&r))
    }

    fn finish(mut self, ex: &mut Exec) {
        if self.kind != "afd" && self.actors.iter().any(|a| matches!(a, RActor::Closer { fut: Some(_), polled: false, .. })) {
            self.dropped_unpolled_close = true;
        }
        self.actors.clear();
        let rt = self.rt;
        let raw = self.raw;
        drive(rt);
        drive(rt);
        if fd_is_open(raw) {
            // anything still queued on the blocking pool (a close, a cancelled read) must have run before
            // the descriptor is judged leaked
            pool_barrier(rt);
            settle(rt, Duration::from_micros(200), || !fd_is_open(raw));
        }
        if !self.observe_closed() {
            if self.dropped_unpolled_close {
                ex.fail(
                    "F8c:close-future-dropped-unpolled-leak",
                    format!("{}: every handle, operation and close() future is gone but descriptor {} is still open: a close() future was dropped before its first poll (handle forgotten in ManuallyDrop)", self.kind, self.raw),
                );
            } else {
                ex.fail("C06:fd-leak", format!("descriptor {} still open after every value was dropped", self.raw));
            }
            unsafe { libc::close(self.raw) };
        }
        if let Some(s) = self.sentinel {
            if !fd_is_open(s) {
                ex.fail("C06:double-close", "descriptor number closed a second time");
            } else {
                unsafe { libc::close(s) };
            }
        }
    }
}

fn exec_rt(case: &Case, iour: bool, kind: &str, ex: &mut Exec) {
    let tt = std::time::Instant::now();
    let r = with_rt(iour, |rt| {
        let before = open_fds();
        if std::env::var_os("C06_TIME").is_some() {
            eprintln!("T pre-open_fds {:?}", tt.elapsed());
        }
        let Some(mut w) = RtWorld::new(rt, kind) else {
            for _ in &case.lines {
                ex.out.push("bad-op".into());
            }
            return;
        };
        let l0 = w.line("-");
        ex.out.push(l0);
        let mut kinds = std::collections::BTreeSet::new();
        for l in &case.lines[1..] {
            let ws: Vec<&str> = l.split_whitespace().collect();
            let t0 = std::time::Instant::now();
            match w.event(&ws, ex) {
                Some(o) => {
                    kinds.insert(ws[0].to_string());
                    ex.out.push(o)
                }
                None => ex.out.push("rej".into()),
            }
            if std::env::var_os("C06_TIME").is_some() {
                eprintln!("T {} {:?}", ws[0], t0.elapsed());
            }
        }
        let t0 = std::time::Instant::now();
        w.finish(ex);
        if std::env::var_os("C06_TIME").is_some() {
            eprintln!("T finish {:?}", t0.elapsed());
        }
        drive(rt);
        let after = open_fds();
        if before != after {
            ex.fail("C06:fd-balance", format!("open descriptors before {before:?} after {after:?}"));
        }
        ex.tag(format!("rt-{}-{}", if iour { "iour" } else { "poll" }, kind));
        for k in &kinds {
            ex.tag(format!("rtev-{k}"));
        }
        ex.nontrivial = kinds.len() >= 3;
    });
    if let Err(e) = r {
        ex.out.clear();
        for _ in &case.lines {
            ex.out.push(format!("no-runtime {e}"));
        }
    }
    if std::env::var_os("C06_TIME").is_some() {
        eprintln!("T whole-case {:?}", tt.elapsed());
    }
}

// ---------------------------------------------------------------------------------------------
// layer `prod`: descriptors produced by operations, cancel timing, both drivers
// ---------------------------------------------------------------------------------------------

/// Descriptor 0 is kept occupied by a placeholder (a dup of the original stdin) except while the real code
/// runs a step that may produce a descriptor: then 0 is free and the kernel hands it out. Restores stdin on drop.
struct Fd0Guard {
    saved: RawFd,
    placeholder: bool,
}

impl Fd0Guard {
    fn new() -> Self {
        let mut saved = unsafe { libc::fcntl(0, libc::F_DUPFD_CLOEXEC, 3) };
        if saved < 0 {
            saved = std::os::fd::IntoRawFd::into_raw_fd(devnull());
            if saved == 0 {
                saved = unsafe { libc::fcntl(0, libc::F_DUPFD_CLOEXEC, 3) };
            }
        }
        unsafe { libc::dup2(saved, 0) };
        Fd0Guard { saved, placeholder: true }
    }

    fn free0(&mut self) {
        if self.placeholder {
            unsafe { libc::close(0) };
            self.placeholder = false;
        }
    }

    fn restore0(&mut self) {
        if !self.placeholder && !fd_is_open(0) {
            unsafe { libc::dup2(self.saved, 0) };
            self.placeholder = true;
        }
    }
}

impl Drop for Fd0Guard {
    fn drop(&mut self) {
        unsafe {
            libc::dup2(self.saved, 0);
            libc::close(self.saved);
        }
    }
}

/// what a finished producing operation hands to the caller (kept alive = "taken")
enum Got {
    Tcp(compio_net::TcpStream),
    File(compio_fs::File),
    Sock(compio_net::TcpSocket),
    Pipe(compio_fs::pipe::Receiver, compio_fs::pipe::Sender),
}

type GotFut = Pin<Box<dyn Future<Output = io::Result<Got>>>>;
type GotStream = Pin<Box<dyn futures_util::Stream<Item = io::Result<compio_net::TcpStream>>>>;

enum Pending_ {
    None,
    Fut(GotFut),
    Stream(GotStream),
}

struct ProdWorld<'a> {
    rt: &'a Runtime,
    kind: String,
    baseline: Vec<RawFd>,
    listener: Option<Box<compio_net::TcpListener>>,
    addr: Option<std::net::SocketAddr>,
    peers: Vec<std::net::TcpStream>,
    pending: Pending_,
    submitted: bool,
    taken: Vec<Got>,
    wake_log: Arc<Mutex<Vec<usize>>>,
    waker: Waker,
    /// io_uring with the 2-entry ring: only submit / connect / drain / drop / end
    small: bool,
    /// a descriptor-level monitor fired: tear down without dropping owners of aliased numbers
    poisoned: bool,
    /// `fd0` variant: descriptor 0 is free whenever the real code may produce a descriptor (last field:
    /// stdin is restored after everything else is gone, also on unwinding)
    fd0: Option<Fd0Guard>,
}

impl<'a> ProdWorld<'a> {
    fn new(rt: &'a Runtime, kind: &str, small: bool, fd0: bool) -> Option<Self> {
        let fd0 = fd0.then(Fd0Guard::new);
        let mut baseline = open_fds();
        if fd0.is_some() {
            baseline.retain(|fd| *fd != 0);
        }
        let (listener, addr) = if kind == "accept" || kind == "multi" {
            let l = std::net::TcpListener::bind("127.0.0.1:0").unwrap();
            let addr = l.local_addr().unwrap();
            (Some(Box::new(compio_net::TcpListener::from_std(l).unwrap())), Some(addr))
        } else if matches!(kind, "open" | "socket" | "pipe") {
            (None, None)
        } else {
            return None;
        };
        let wake_log = Arc::new(Mutex::new(vec![]));
        let waker = mk_waker(0, &wake_log);
        Some(ProdWorld {
            rt,
            kind: kind.into(),
            baseline,
            listener,
            addr,
            peers: vec![],
            pending: Pending_::None,
            submitted: false,
            taken: vec![],
            wake_log,
            waker,
            small,
            poisoned: false,
            fd0,
        })
    }

    /// descriptors that are open for a reason the harness knows
    fn base_now(&self) -> Vec<RawFd> {
        let mut b = self.baseline.clone();
        if self.fd0.as_ref().is_some_and(|g| g.placeholder) {
            b.insert(0, 0);
        }
        b
    }

    /// descriptor numbers owned by live values of the harness: (who, fd)
    fn owned_fds(&self) -> Vec<(String, RawFd)> {
        let mut v = vec![];
        if let Some(l) = &self.listener {
            v.push(("listener".to_string(), l.as_raw_fd()));
        }
        for (i, p) in self.peers.iter().enumerate() {
            v.push((format!("peer{i}"), p.as_raw_fd()));
        }
        for (i, g) in self.taken.iter().enumerate() {
            match g {
                Got::Tcp(s) => v.push((format!("taken{i}"), s.as_raw_fd())),
                Got::File(f) => v.push((format!("taken{i}"), f.as_raw_fd())),
                Got::Sock(s) => v.push((format!("taken{i}"), s.as_raw_fd())),
                Got::Pipe(r, s) => {
                    v.push((format!("taken{i}r"), r.as_raw_fd()));
                    v.push((format!("taken{i}w"), s.as_raw_fd()));
                }
            }
        }
        v
    }

    /// every live handle owns an open descriptor, and no two live handles own the same number
    fn check_owners(&mut self, after: &str, ex: &mut Exec) {
        let v = self.owned_fds();
        if self.fd0.is_some() {
            if v.iter().any(|(who, fd)| *fd == 0 && who.starts_with("taken")) {
                ex.tag("fd0-delivered-to-caller");
            } else if self.fd0.as_ref().is_some_and(|g| !g.placeholder) && fd_is_open(0) {
                ex.tag("fd0-owned-by-op");
            }
        }
        for (who, fd) in &v {
            if !fd_is_open(*fd) {
                self.poisoned = true;
                ex.fail("C06:closed-under-owner", format!("{}: after `{after}` descriptor {fd} of live {who} is closed", self.kind));
            }
        }
        for i in 0..v.len() {
            for j in i + 1..v.len() {
                if v[i].1 == v[j].1 {
                    self.poisoned = true;
                    ex.fail(
                        "C06:aliased-descriptor",
                        format!("{}: after `{after}` live {} and {} both own descriptor {}", self.kind, v[i].0, v[j].0, v[i].1),
                    );
                }
            }
        }
    }

    /// accepted stream `i` is the peer's `i`-th connection: a tag written by the peer must come out of it
    fn roundtrip(&mut self, ex: &mut Exec) {
        use std::io::Write;
        if self.listener.is_none() {
            return;
        }
        let n = self.taken.len().min(self.peers.len());
        for i in 0..n {
            let tag = [b'A' + i as u8, b'a' + i as u8, b'0' + (i % 10) as u8];
            if self.peers[i].write_all(&tag).is_err() {
                continue;
            }
        }
        std::thread::sleep(Duration::from_micros(300));
        for i in 0..n {
            let Got::Tcp(s) = &self.taken[i] else { continue };
            let tag = [b'A' + i as u8, b'a' + i as u8, b'0' + (i % 10) as u8];
            let mut buf = [0u8; 8];
            let fd = s.as_raw_fd();
            let mut got = -1isize;
            for _ in 0..200 {
                got = unsafe { libc::recv(fd, buf.as_mut_ptr().cast(), buf.len(), libc::MSG_DONTWAIT) };
                if got >= 0 || std::io::Error::last_os_error().kind() != io::ErrorKind::WouldBlock {
                    break;
                }
                std::thread::sleep(Duration::from_micros(100));
            }
            if got != 3 || buf[..3] != tag {
                self.poisoned = true;
                let err = if got < 0 { format!(" ({})", std::io::Error::last_os_error()) } else { String::new() };
                ex.fail(
                    "C06:accepted-stream-roundtrip",
                    format!("{}: accepted stream {i} (fd {fd}) did not deliver its peer's tag {:?}: recv = {got}{err}, data {:?}", self.kind, tag, &buf[..got.max(0) as usize]),
                );
            }
        }
    }

    fn make(&mut self) {
        match self.kind.as_str() {
            "accept" => {
                let l = (**self.listener.as_ref().unwrap()).clone();
                self.pending = Pending_::Fut(Box::pin(async move { l.accept().await.map(|(s, _)| Got::Tcp(s)) }));
            }
            "multi" => {
                // the stream borrows the listener; the box outlives the stream (dropped first in `end`)
                let l: &'static compio_net::TcpListener =
                    unsafe { &*(&**self.listener.as_ref().unwrap() as *const compio_net::TcpListener) };
                self.pending = Pending_::Stream(Box::pin(l.incoming()));
            }
            "open" => {
                self.pending =
                    Pending_::Fut(Box::pin(async move { compio_fs::File::open("/proc/self/exe").await.map(Got::File) }));
            }
            "socket" => {
                self.pending = Pending_::Fut(Box::pin(async move { compio_net::TcpSocket::new_v4().await.map(Got::Sock) }));
            }
            "pipe" => {
                self.pending =
                    Pending_::Fut(Box::pin(async move { compio_fs::pipe::anonymous().await.map(|(r, s)| Got::Pipe(r, s)) }));
            }
            _ => unreachable!(),
        }
    }

    /// descriptors that are open, not in the baseline and not owned by the harness
    fn unexplained(&self) -> usize {
        let mut mine: Vec<RawFd> = self.base_now();
        if let Some(l) = &self.listener {
            mine.push(l.as_raw_fd());
        }
        for p in &self.peers {
            mine.push(p.as_raw_fd());
        }
        for g in &self.taken {
            match g {
                Got::Tcp(s) => mine.push(s.as_raw_fd()),
                Got::File(f) => mine.push(f.as_raw_fd()),
                Got::Sock(s) => mine.push(s.as_raw_fd()),
                Got::Pipe(r, s) => {
                    mine.push(r.as_raw_fd());
                    mine.push(s.as_raw_fd());
                }
            }
        }
        open_fds().into_iter().filter(|fd| !mine.contains(fd)).count()
    }

    fn poll_once(&mut self, ex: &mut Exec) -> String {
        let mut cx = Context::from_waker(&self.waker);
        match &mut self.pending {
            Pending_::None => "none".into(),
            Pending_::Fut(f) => match f.as_mut().poll(&mut cx) {
                Poll::Pending => "pending".into(),
                Poll::Ready(Ok(g)) => {
                    self.taken.push(g);
                    self.pending = Pending_::None;
                    "ready-ok".into()
                }
                Poll::Ready(Err(e)) => {
                    self.pending = Pending_::None;
                    if e.raw_os_error() == Some(libc::EBADF) {
                        ex.fail("C06:ebadf", format!("producing operation failed with {e}"));
                    }
                    "ready-err".into()
                }
            },
            Pending_::Stream(st) => match st.as_mut().poll_next(&mut cx) {
                Poll::Pending => "pending".into(),
                Poll::Ready(Some(Ok(s))) => {
                    self.taken.push(Got::Tcp(s));
                    "ready-ok".into()
                }
                Poll::Ready(Some(Err(_))) => "ready-err".into(),
                Poll::Ready(None) => "ready-end".into(),
            },
        }
    }

    fn wakes(&self) -> usize {
        self.wake_log.lock().unwrap().len()
    }

    fn event(&mut self, w: &[&str], ex: &mut Exec) -> Option<String> {
        let producing = matches!(w.first().copied(), Some("submit" | "settle" | "poll" | "drain"));
        if producing {
            if let Some(g) = self.fd0.as_mut() {
                g.free0();
            }
        }
        let r = self.event_inner(w, ex);
        if let Some(g) = self.fd0.as_mut() {
            g.restore0();
        }
        r
    }

    fn event_inner(&mut self, w: &[&str], ex: &mut Exec) -> Option<String> {
        let mut r = "-".to_string();
        let mut x = "-".to_string();
        match w[0] {
            "submit" => {
                if self.submitted {
                    return None;
                }
                self.submitted = true;
                self.make();
                r = self.poll_once(ex);
            }
            "connect" => {
                let addr = self.addr?;
                if self.peers.len() >= if self.small { 16 } else { 4 } {
                    return None;
                }
                self.peers.push(std::net::TcpStream::connect(addr).unwrap());
            }
            "settle" | "poll" if self.small => return None,
            "drain" => {
                // accept everything that has connected: drive + poll_next until all are in, then once more (Pending)
                if !self.small || !self.submitted || !matches!(self.pending, Pending_::Stream(_)) {
                    return None;
                }
                let want = self.peers.len();
                let t0 = std::time::Instant::now();
                while self.taken.len() < want && t0.elapsed() < Duration::from_secs(2) {
                    drive(self.rt);
                    while self.poll_once(ex) == "ready-ok" {}
                }
                drive(self.rt);
                while self.poll_once(ex) == "ready-ok" {}
                settle(self.rt, Duration::from_micros(300), || false);
                x = self.unexplained().to_string();
            }
            "settle" => {
                // drive until the future's task has been woken (completion delivered) or nothing is expected
                let blocking_in_flight =
                    matches!(self.kind.as_str(), "open" | "socket" | "pipe") && self.submitted;
                let w0 = self.wakes();
                let alive = !matches!(self.pending, Pending_::None);
                let log = self.wake_log.clone();
                if alive && blocking_in_flight {
                    settle(self.rt, Duration::from_secs(2), || log.lock().unwrap().len() > w0);
                } else if blocking_in_flight {
                    // cancelled while the pool thread may still run it: wait for the pool, then reap
                    pool_barrier(self.rt);
                } else {
                    settle(self.rt, Duration::from_micros(400), || false);
                }
                x = self.unexplained().to_string();
            }
            "poll" => {
                if matches!(self.pending, Pending_::None) {
                    return None;
                }
                r = self.poll_once(ex);
            }
            "drop" => {
                if matches!(self.pending, Pending_::None) {
                    return None;
                }
                self.pending = Pending_::None;
            }
            _ => return None,
        }
        self.check_owners(&w.join(" "), ex);
        Some(format!("ok r={} taken={} x={}", r, self.taken.len(), x))
    }

    fn end(mut self, ex: &mut Exec) -> String {
        let cancelled_blocking = matches!(self.kind.as_str(), "open" | "socket" | "pipe") && self.submitted;
        if let Some(g) = self.fd0.as_mut() {
            g.restore0();
        }
        self.check_owners("end", ex);
        if !self.poisoned {
            self.roundtrip(ex);
        }
        if !self.poisoned {
            // the stream / future goes first: whatever its op still owns is closed now, and that must not
            // be a descriptor of a handle that is still alive
            self.pending = Pending_::None;
            settle(self.rt, Duration::from_micros(100), || false);
            self.check_owners("end: future/stream dropped", ex);
        }
        if self.poisoned {
            // two owners of one number (or an owner of a closed one): dropping them would close a number
            // twice (std aborts the process on that). Forget the owners, close each number once by hand.
            let mut fds: Vec<RawFd> = self.owned_fds().into_iter().map(|(_, fd)| fd).collect();
            fds.sort();
            fds.dedup();
            std::mem::forget(std::mem::replace(&mut self.pending, Pending_::None));
            std::mem::forget(std::mem::take(&mut self.taken));
            std::mem::forget(std::mem::take(&mut self.peers));
            std::mem::forget(self.listener.take());
            for fd in fds {
                unsafe { libc::close(fd) };
            }
            settle(self.rt, Duration::from_millis(2), || false);
            // whatever the forgotten values still pinned (queued descriptors, ...) is closed by number
            for fd in open_fds() {
                if !self.baseline.contains(&fd) && fd != 0 {
                    unsafe { libc::close(fd) };
                }
            }
            return "leak=poisoned".into();
        }
        self.pending = Pending_::None;
        self.taken.clear();
        self.peers.clear();
        self.listener = None;
        if cancelled_blocking {
            pool_barrier(self.rt);
        }
        let base = self.base_now();
        let ok = settle(self.rt, Duration::from_millis(300), || open_fds() == base);
        let after = open_fds();
        let extra: Vec<_> = after.iter().filter(|fd| !base.contains(fd)).collect();
        let missing: Vec<_> = base.iter().filter(|fd| !after.contains(fd)).collect();
        if !ok {
            if !extra.is_empty() {
                ex.fail("C06:fd-leak", format!("{}: descriptors {extra:?} still open after the program", self.kind));
            }
            if !missing.is_empty() {
                ex.fail("C06:foreign-close", format!("{}: descriptors {missing:?} of the baseline were closed", self.kind));
            }
        }
        format!("leak={}", extra.len())
    }
}

fn exec_prod(case: &Case, drv: &str, kind: &str, fd0: bool, ex: &mut Exec) {
    let idx = match drv {
        "poll" => 0,
        "iour" => 1,
        _ => 2,
    };
    let r = with_rt_idx(idx, |rt| {
        // let stragglers of earlier cases finish
        settle(rt, Duration::from_micros(200), || false);
        let Some(w) = (if idx == 2 && kind != "multi" { None } else { ProdWorld::new(rt, kind, idx == 2, fd0) }) else {
            for _ in &case.lines {
                ex.out.push("bad-op".into());
            }
            return;
        };
        ex.out.push("ok".into());
        let mut kinds = vec![];
        let mut world = Some(w);
        for l in case.lines[1..].iter() {
            let ws: Vec<&str> = l.split_whitespace().collect();
            let Some(w) = world.as_mut() else {
                ex.out.push("bad-op".into());
                continue;
            };
            if ws == ["end"] {
                let e = world.take().unwrap().end(ex);
                ex.out.push(e);
                continue;
            }
            match w.event(&ws, ex) {
                Some(o) => {
                    kinds.push(ws[0].to_string());
                    ex.out.push(o)
                }
                None => ex.out.push("rej".into()),
            }
        }
        if let Some(w) = world.take() {
            w.end(ex);
        }
        ex.tag(format!("prod-{}-{}{}", drv, kind, if fd0 { "-fd0" } else { "" }));
        ex.tag(format!("prodseq-{}", kinds.join(">")));
        ex.nontrivial = true;
    });
    if let Err(e) = r {
        ex.out.clear();
        for _ in &case.lines {
            ex.out.push(format!("no-runtime {e}"));
        }
    }
}

// ---------------------------------------------------------------------------------------------
// layer `splice`: the one operation that holds clones of TWO shared descriptors (pipe -> pipe)
// ---------------------------------------------------------------------------------------------

type SpliceFut = Pin<Box<dyn Future<Output = io::Result<usize>>>>;

fn pipe_nb() -> (RawFd, RawFd) {
    let mut fds = [0 as RawFd; 2];
    let r = unsafe { libc::pipe2(fds.as_mut_ptr(), libc::O_NONBLOCK | libc::O_CLOEXEC) };
    assert_eq!(r, 0);
    (fds[0], fds[1])
}

struct End {
    handle: Option<compio_fs::File>,
    closer: Option<CloseFut>,
    closer_parked: bool,
    raw: RawFd,
    count_ptr: *const usize,
    closed: bool,
}

impl End {
    fn new(raw: RawFd) -> Self {
        let f = unsafe { compio_fs::File::from_raw_fd(raw) };
        let count_ptr = Obj::File(f.clone()).count_ptr();
        End { handle: Some(f), closer: None, closer_parked: false, raw, count_ptr, closed: false }
    }

    fn observe(&mut self) -> bool {
        if !self.closed && !fd_is_open(self.raw) {
            self.closed = true;
        }
        self.closed
    }

    fn count(&mut self) -> usize {
        if self.observe() { 0 } else { unsafe { std::ptr::read_volatile(self.count_ptr) } }
    }
}

struct SpliceWorld<'a> {
    rt: &'a Runtime,
    src: End,
    dst: End,
    /// harness-owned other ends: write end of the source pipe, read end of the destination pipe
    src_w: OwnedFd,
    dst_r: OwnedFd,
    fut: Option<SpliceFut>,
    started: bool,
    in_flight: bool,
    waker: Waker,
    wake_log: Arc<Mutex<Vec<usize>>>,
}

impl<'a> SpliceWorld<'a> {
    fn new(rt: &'a Runtime, fed: bool, iour: bool) -> Self {
        let (ra, wa) = pipe_nb();
        let (rb, wb) = pipe_nb();
        // destination full: the splice cannot make progress until `fin` drains it
        let chunk = [0u8; 4096];
        loop {
            let n = unsafe { libc::write(wb, chunk.as_ptr().cast(), chunk.len()) };
            if n <= 0 {
                break;
            }
        }
        if fed {
            let n = unsafe { libc::write(wa, b"12345678".as_ptr().cast(), 8) };
            assert_eq!(n, 8);
        }
        if iour {
            // io_uring does not poll for a splice: on non-blocking pipes it would fail with EAGAIN at once.
            // Blocking ends keep the operation in flight (io-wq) until it can proceed or is cancelled.
            for fd in [ra, wb] {
                unsafe {
                    let fl = libc::fcntl(fd, libc::F_GETFL);
                    libc::fcntl(fd, libc::F_SETFL, fl & !libc::O_NONBLOCK);
                }
            }
        }
        let wake_log = Arc::new(Mutex::new(vec![]));
        let waker = mk_waker(0, &wake_log);
        SpliceWorld {
            rt,
            src: End::new(ra),
            dst: End::new(wb),
            src_w: unsafe { OwnedFd::from_raw_fd(wa) },
            dst_r: unsafe { OwnedFd::from_raw_fd(rb) },
            fut: None,
            started: false,
            in_flight: false,
            waker,
            wake_log,
        }
    }

    fn line(&mut self, r: &str) -> String {
        let (ci, co) = (self.src.count(), self.dst.count());
        format!("ok ci={} co={} oi={} oo={} r={}", ci, co, !self.src.closed as u8, !self.dst.closed as u8, r)
    }

    fn poll_closer(rt: &Runtime, end: &mut End, expect_done: bool, waker: &Waker) -> Option<&'static str> {
        let f = end.closer.as_mut()?;
        let mut out = None;
        let mut polls = 0;
        settle(rt, if expect_done { Duration::from_millis(700) } else { Duration::from_micros(300) }, || {
            polls += 1;
            if polls > 1 && !expect_done {
                return true;
            }
            let mut cx = Context::from_waker(waker);
            match f.as_mut().poll(&mut cx) {
                Poll::Ready(x) => {
                    out = Some(x);
                    true
                }
                Poll::Pending => false,
            }
        });
        match out {
            Some(_) => {
                end.closer = None;
                end.closer_parked = false;
                Some("ready")
            }
            None => {
                end.closer_parked = true;
                Some("pending")
            }
        }
    }

    fn event(&mut self, w: &[&str], ex: &mut Exec) -> Option<String> {
        let mut r = "-";
        match w {
            ["start"] => {
                if self.started || self.src.handle.is_none() || self.dst.handle.is_none() {
                    return None;
                }
                self.started = true;
                let fut = compio_fs::pipe::splice(self.src.handle.as_ref().unwrap(), self.dst.handle.as_ref().unwrap(), 8);
                let mut fut: SpliceFut = Box::pin(std::future::IntoFuture::into_future(fut));
                let mut cx = Context::from_waker(&self.waker);
                match fut.as_mut().poll(&mut cx) {
                    Poll::Pending => {
                        self.fut = Some(fut);
                        self.in_flight = true;
                        r = "pending";
                    }
                    Poll::Ready(_) => r = "ready",
                }
                // let the driver take the operation (submission, registration)
                drive(self.rt);
            }
            ["cancel"] => {
                self.fut.take()?;
                // the driver lets go of the cancelled operation and with it of BOTH clones
                let (pi, po) = (self.src.count_ptr, self.dst.count_ptr);
                let (ri, ro) = (self.src.raw, self.dst.raw);
                let (bi, bo) = (self.src.count(), self.dst.count());
                let done = settle(self.rt, Duration::from_millis(300), || {
                    let ci = if fd_is_open(ri) { unsafe { std::ptr::read_volatile(pi) } } else { 0 };
                    let co = if fd_is_open(ro) { unsafe { std::ptr::read_volatile(po) } } else { 0 };
                    ci < bi.max(1) && co < bo.max(1)
                });
                self.in_flight = false;
                if !done {
                    ex.fail(
                        "C06:cancel-keeps-clone",
                        format!("splice cancelled, driver driven for 300 ms: strong counts in {} -> {}, out {} -> {} (the operation still holds a clone)", bi, self.src.count(), bo, self.dst.count()),
                    );
                }
            }
            ["fin"] => {
                let mut fut = self.fut.take()?;
                // make both ends ready: data in the source, room in the destination
                let _ = unsafe { libc::write(self.src_w.as_raw_fd(), b"abcdefgh".as_ptr().cast(), 8) };
                let mut buf = [0u8; 8192];
                loop {
                    let n = unsafe { libc::read(self.dst_r.as_raw_fd(), buf.as_mut_ptr().cast(), buf.len()) };
                    if n <= 0 {
                        break;
                    }
                }
                let mut res = None;
                let waker = self.waker.clone();
                settle(self.rt, Duration::from_secs(2), || {
                    let mut cx = Context::from_waker(&waker);
                    match fut.as_mut().poll(&mut cx) {
                        Poll::Ready(x) => {
                            res = Some(x);
                            true
                        }
                        Poll::Pending => false,
                    }
                });
                drop(fut);
                self.in_flight = false;
                r = match res {
                    Some(Ok(_)) => "ok",
                    Some(Err(e)) => {
                        ex.fail(
                            if e.raw_os_error() == Some(libc::EBADF) { "C06:ebadf" } else { "C06:op-error" },
                            format!("splice holding both clones failed: {e}"),
                        );
                        "err"
                    }
                    None => {
                        ex.fail("C06:op-stuck", "splice did not complete after both ends became ready");
                        "stuck"
                    }
                };
            }
            [k @ ("closein" | "closeout")] => {
                let end = if *k == "closein" { &mut self.src } else { &mut self.dst };
                let h = end.handle.take()?;
                end.closer = Some(Box::pin(h.close()));
                let expect = !self.in_flight;
                r = Self::poll_closer(self.rt, end, expect, &self.waker)?;
                if r == "pending" && expect {
                    ex.fail("C06:close-hangs", format!("{k}: close() does not complete although no operation is in flight and no other handle exists"));
                }
            }
            [k @ ("pollin" | "pollout")] => {
                let end = if *k == "pollin" { &mut self.src } else { &mut self.dst };
                let expect = !self.in_flight;
                r = Self::poll_closer(self.rt, end, expect, &self.waker)?;
                if r == "pending" && expect {
                    ex.fail("C06:close-hangs", format!("{k}: close() does not complete although no operation is in flight and no other handle exists"));
                }
            }
            [k @ ("dropin" | "dropout")] => {
                let end = if *k == "dropin" { &mut self.src } else { &mut self.dst };
                drop(end.handle.take()?);
            }
            _ => return None,
        }
        // descriptor-level monitors
        for (name, end) in [("in", &mut self.src), ("out", &mut self.dst)] {
            let closed = end.observe();
            let owners = end.handle.is_some() || end.closer.is_some() || self.in_flight;
            if closed && owners {
                ex.fail("C06:closed-in-use", format!("splice end `{name}` closed while a handle / operation / close() owns it (after `{}`)", w.join(" ")));
            }
        }
        Some(self.line(r))
    }

    fn finish(mut self, ex: &mut Exec) {
        self.fut = None;
        self.src.closer = None;
        self.dst.closer = None;
        self.src.handle = None;
        self.dst.handle = None;
        let (ri, ro) = (self.src.raw, self.dst.raw);
        settle(self.rt, Duration::from_millis(if self.in_flight { 300 } else { 5 }), || !fd_is_open(ri) && !fd_is_open(ro));
        for (name, raw) in [("in", ri), ("out", ro)] {
            if fd_is_open(raw) {
                // not closed by hand: whoever still owns it (an operation the driver never released) would
                // close the number a second time later
                ex.fail("C06:fd-leak", format!("splice end `{name}` (descriptor {raw}) still open after every handle, future and close() was dropped"));
            }
        }
    }
}

fn exec_splice(case: &Case, drv: &str, fed: bool, ex: &mut Exec) {
    let r = with_rt(drv == "iour", |rt| {
        settle(rt, Duration::from_micros(100), || false);
        let before = open_fds();
        let mut w = SpliceWorld::new(rt, fed, drv == "iour");
        let l0 = w.line("-");
        ex.out.push(l0);
        for l in &case.lines[1..] {
            let ws: Vec<&str> = l.split_whitespace().collect();
            match w.event(&ws, ex) {
                Some(o) => ex.out.push(o),
                None => ex.out.push("rej".into()),
            }
        }
        let leaked_close = w.src.closer.is_some() || w.dst.closer.is_some();
        let _ = leaked_close;
        w.finish(ex);
        drive(rt);
        let after = open_fds();
        if before != after && ex.failures.is_empty() {
            ex.fail("C06:fd-balance", format!("splice: open descriptors before {before:?} after {after:?}"));
        }
        ex.tag(format!("splice-{drv}"));
        ex.nontrivial = true;
    });
    if let Err(e) = r {
        ex.out.clear();
        for _ in &case.lines {
            ex.out.push(format!("no-runtime {e}"));
        }
    }
}

// ---------------------------------------------------------------------------------------------
// layer `fallback`: the io_uring driver's blocking fallback for a descriptor-producing operation
// ---------------------------------------------------------------------------------------------

/// What `iour::Driver::push_blocking` + `Entry::notify` do with an operation whose opcode the kernel does
/// not support: `call_blocking()` on a pool thread, then `set_result(&res)` on the driver thread. The two
/// trait methods are called here directly on the real op structs (this kernel supports all three opcodes,
/// so the driver itself never takes the path). Returns (descriptor handed to the caller is open and was
/// created by this op, detail).
fn fallback_prog(kind: &str) -> Option<(bool, String)> {
    use compio_buf::IntoInner;
    use compio_driver::{IourOpCode, op};
    let mut pb = ProactorBuilder::new();
    pb.driver_type(DriverType::IoUring);
    let proactor = pb.build().ok()?;
    let extra = proactor.default_extra();
    match kind {
        "socket" => {
            let mut o = op::CreateSocket::new(libc::AF_INET, libc::SOCK_STREAM, 0);
            let res = IourOpCode::call_blocking(&mut o, &mut ());
            let created = *res.as_ref().ok()? as RawFd;
            unsafe { IourOpCode::set_result(&mut o, &mut (), &res, &extra) };
            let sock = o.into_inner();
            let fd = sock.as_raw_fd();
            let open = fd_is_open(fd);
            if !open {
                // do not let the wrapper close a number that is not ours any more
                std::mem::forget(sock);
            }
            Some((open && fd == created, format!("CreateSocket: call_blocking created fd {created}; after set_result the op hands out fd {fd}, open={open}")))
        }
        "accept" => {
            let l = std::net::TcpListener::bind("127.0.0.1:0").unwrap();
            let _peer = std::net::TcpStream::connect(l.local_addr().unwrap()).unwrap();
            let mut o = op::Accept::new(l);
            let res = IourOpCode::call_blocking(&mut o, &mut ());
            let created = *res.as_ref().ok()? as RawFd;
            unsafe { IourOpCode::set_result(&mut o, &mut (), &res, &extra) };
            let (sock, _) = o.into_inner();
            let fd = sock.as_raw_fd();
            let open = fd_is_open(fd);
            if !open {
                std::mem::forget(sock);
            }
            Some((open && fd == created, format!("Accept: call_blocking accepted fd {created}; after set_result the op hands out fd {fd}, open={open}")))
        }
        "open" => {
            let before = open_fds();
            let mut o = op::OpenFile::new(
                compio_driver::op::CurrentDir,
                std::ffi::CString::new("/proc/self/exe").unwrap(),
                rustix_oflags_rdonly(),
                rustix_mode_empty(),
            );
            let res = IourOpCode::call_blocking(&mut o, &mut ());
            let during: Vec<RawFd> = open_fds().into_iter().filter(|fd| !before.contains(fd)).collect();
            unsafe { IourOpCode::set_result(&mut o, &mut (), &res, &extra) };
            let owned = o.into_inner();
            let fd = owned.as_raw_fd();
            let created_still_open = during.iter().all(|fd| fd_is_open(*fd));
            let ok = during.contains(&fd) && created_still_open;
            if !ok {
                // the wrapper owns a descriptor the op never created (0 = stdin): keep it open
                std::mem::forget(owned);
            }
            Some((ok, format!("OpenFile: call_blocking opened {during:?} and returned {res:?}; after set_result the op hands out fd {fd}; opened descriptor still open={created_still_open}")))
        }
        _ => None,
    }
}

fn rustix_oflags_rdonly() -> rustix::fs::OFlags {
    rustix::fs::OFlags::RDONLY
}
fn rustix_mode_empty() -> rustix::fs::Mode {
    rustix::fs::Mode::empty()
}

fn exec_fallback(case: &Case, ex: &mut Exec) {
    let ws: Vec<&str> = case.lines[0].split_whitespace().collect();
    let before = open_fds();
    match ws.get(1).and_then(|k| fallback_prog(k)) {
        Some((own, detail)) => {
            ex.out.push(format!("own={}", own as u8));
            if !own {
                ex.fail("F8d:iour-blocking-fallback-double-adopt", detail);
            }
        }
        None => ex.out.push("bad-op".into()),
    }
    let after = open_fds();
    if before != after {
        ex.fail("C06:fd-balance", format!("fallback: open descriptors before {before:?} after {after:?}"));
    }
    ex.tag("fallback");
    ex.nontrivial = true;
}

// ---------------------------------------------------------------------------------------------

fn generate(tier: &str, rng: &mut Rng) -> Vec<Case> {
    let mut cases = vec![];
    let quick = tier == "quick";
    // exhaustive: every sequence of applicable events up to a depth, both flavours
    let depth = if quick { 5 } else { 7 };
    for flavour in ["unsync", "sync"] {
        let mut seqs: Vec<Vec<String>> = vec![];
        enumerate(&ShadowW::new(), depth, &mut vec![], &mut seqs);
        for (i, s) in seqs.into_iter().enumerate() {
            let mut lines = vec![format!("sfd {flavour}")];
            lines.extend(s);
            cases.push(Case { name: format!("enum-{flavour}-{i}"), lines });
        }
    }
    // random longer walks with some inapplicable events
    let n = if quick { 600 } else { 20000 };
    for i in 0..n {
        let flavour = if rng.chance(1, 2) { "unsync" } else { "sync" };
        let mut sh = ShadowW::new();
        let mut lines = vec![format!("sfd {flavour}")];
        let len = rng.range(4, 16);
        for _ in 0..len {
            let evs = sh.applicable();
            let e = if evs.is_empty() || rng.chance(1, 12) {
                let k = *rng.pick(&["clone", "op", "drop", "unwrap", "take", "poll", "dropfut"]);
                format!("{k} {}", rng.below(sh.roles.len() as u64 + 1))
            } else {
                let e = rng.pick(&evs).clone();
                if e.starts_with("poll") && rng.chance(1, 2) {
                    format!("poll {} {}", e.split_whitespace().nth(1).unwrap(), rng.below(3))
                } else {
                    e
                }
            };
            sh.apply(&e);
            lines.push(e);
        }
        cases.push(Case { name: format!("walk-{i}"), lines });
    }
    for (k, n) in [("par", 0), ("joined", 1), ("joined", 2), ("seq", 1), ("par", 1), ("par", 2), ("seq", 2)] {
        cases.push(Case { name: format!("loom-{k}-{n}"), lines: vec![format!("loom {k} {n}")] });
    }
    // ---- rt programs: random walks over clone/drop/op/fin/cancel/close/poll/dropfut, both drivers ----
    let n_rt = if quick { 700 } else { 12000 };
    for i in 0..n_rt {
        let drv = if i % 2 == 0 { "iour" } else { "poll" };
        let kind = *rng.pick(&["file", "unix", "tcp", "unix", "afd", "afd"]);
        let mut sh = ShadowRt::new();
        let mut lines = vec![format!("rt {drv} {kind}")];
        let len = rng.range(3, 12);
        for _ in 0..len {
            let evs = sh.applicable();
            let e = if evs.is_empty() || rng.chance(1, 16) {
                let k = *rng.pick(&["clone", "drop", "op", "fin", "cancel", "close", "poll", "dropfut"]);
                format!("{k} {}", rng.below(sh.roles.len() as u64 + 1))
            } else {
                // closes and polls are what the property is about: bias towards them once clones exist
                let pri: Vec<&String> =
                    evs.iter().filter(|e| e.starts_with("close") || e.starts_with("poll") || e.starts_with("fin") || e.starts_with("cancel")).collect();
                let e = if !pri.is_empty() && rng.chance(1, 2) { (*rng.pick(&pri)).clone() } else { rng.pick(&evs).clone() };
                if e.starts_with("poll") && rng.chance(1, 2) {
                    format!("{} {}", e, rng.below(3))
                } else {
                    e
                }
            };
            sh.apply(&e);
            lines.push(e);
        }
        cases.push(Case { name: format!("rt-{i}"), lines });
    }
    // hand-picked shapes (findings and their neighbours), every driver x kind
    for drv in ["iour", "poll"] {
        for kind in ["file", "unix", "tcp", "afd"] {
            for (j, prog) in [
                vec!["clone 0", "close 0", "poll 0", "close 1", "poll 1"],
                vec!["clone 0", "close 0", "poll 0", "close 1", "dropfut 1"],
                vec!["close 0", "dropfut 0"],
                vec!["clone 0", "close 0", "poll 0", "drop 1", "poll 0"],
                vec!["op 0", "close 0", "poll 0", "fin 2", "poll 0"],
                vec!["op 0", "close 0", "poll 0", "cancel 2", "poll 0"],
                vec!["clone 0", "op 1", "close 0", "poll 0", "drop 1", "poll 0", "fin 3", "poll 0"],
                vec!["close 0", "poll 0"],
                vec!["clone 0", "close 0", "poll 0", "dropfut 0", "close 1", "poll 1"],
                // the pending close changes hands between polls (timeout wrapper, then a spawned task)
                vec!["clone 0", "close 0", "poll 0 0", "poll 0 1", "drop 1", "poll 0 1"],
                vec!["clone 0", "op 0", "close 0", "poll 0 1", "drop 1", "poll 0 2", "fin 3", "poll 0 2"],
                vec!["clone 0", "close 0", "poll 0 2", "poll 0 2", "poll 0 0", "drop 1", "poll 0 0"],
            ]
            .iter()
            .enumerate()
            {
                let mut lines = vec![format!("rt {drv} {kind}")];
                lines.extend(prog.iter().map(|s| s.to_string()));
                cases.push(Case { name: format!("rt-shape-{drv}-{kind}-{j}"), lines });
            }
        }
    }
    // ---- prod programs: every sequence over the kind's alphabet up to a depth, then `end` ----
    for drv in ["iour", "poll"] {
        for kind in ["accept", "multi", "open", "socket", "pipe"] {
            let alpha: &[&str] = if kind == "accept" || kind == "multi" {
                &["submit", "connect", "settle", "poll", "drop"]
            } else {
                &["submit", "settle", "poll", "drop"]
            };
            let depth = match (quick, kind) {
                (true, "accept") | (true, "multi") => 4,
                (true, _) => 3,
                (false, "accept") | (false, "multi") => 6,
                (false, _) => 5,
            };
            let mut seqs: Vec<Vec<String>> = vec![];
            enum_prod(alpha, depth, &mut vec![], &mut seqs);
            for (i, sq) in seqs.into_iter().enumerate() {
                let mut lines = vec![format!("prod {drv} {kind}")];
                lines.extend(sq);
                lines.push("end".into());
                cases.push(Case { name: format!("prod-{drv}-{kind}-{i}"), lines });
            }
        }
    }
    // ---- incoming(): polling driver = every accept is a terminal success; io_uring with a 2-entry ring =
    //      a burst overflows the completion queue and the multishot accept ends with a terminal success
    for (j, prog) in [
        vec!["connect", "connect", "connect", "connect", "submit", "poll", "poll", "poll", "poll", "drop"],
        vec!["submit", "connect", "settle", "poll", "connect", "poll", "settle", "poll", "connect", "connect", "settle", "poll", "poll", "poll"],
        vec!["connect", "submit", "connect", "settle", "poll", "drop"],
    ]
    .iter()
    .enumerate()
    {
        let mut lines = vec!["prod poll multi".to_string()];
        lines.extend(prog.iter().map(|s| s.to_string()));
        lines.push("end".into());
        cases.push(Case { name: format!("incoming-poll-{j}"), lines });
    }
    let bursts: &[&[usize]] = if quick { &[&[12], &[6, 1], &[13, 3]] } else { &[&[12], &[6, 1], &[13, 3], &[1], &[3, 3, 3], &[16], &[8, 8], &[5], &[2, 10]] };
    for (j, b) in bursts.iter().enumerate() {
        for tail in ["drain", "drop"] {
            let mut lines = vec!["prod iour2 multi".to_string(), "submit".to_string()];
            for (i, n) in b.iter().enumerate() {
                for _ in 0..*n {
                    lines.push("connect".into());
                }
                if i + 1 < b.len() || tail == "drain" {
                    lines.push("drain".into());
                }
            }
            if tail == "drop" {
                lines.push("drop".into());
            }
            lines.push("end".into());
            cases.push(Case { name: format!("incoming-burst-{j}-{tail}"), lines });
        }
    }
    // ---- produced descriptor = 0 (stdin closed, as in a daemonised process)
    for drv in ["iour", "poll"] {
        for kind in ["open", "socket", "pipe", "accept", "multi"] {
            let progs: Vec<Vec<&str>> = if kind == "accept" || kind == "multi" {
                vec![
                    vec!["submit", "connect", "settle", "poll"],
                    vec!["submit", "connect", "settle", "drop", "settle"],
                    vec!["connect", "submit", "settle", "poll", "drop", "settle"],
                ]
            } else {
                vec![
                    vec!["submit", "settle", "poll"],
                    vec!["submit", "settle", "drop", "settle"],
                    vec!["submit", "drop", "settle"],
                ]
            };
            for (j, prog) in progs.iter().enumerate() {
                let mut lines = vec![format!("prod {drv} {kind} fd0")];
                lines.extend(prog.iter().map(|s| s.to_string()));
                lines.push("end".into());
                cases.push(Case { name: format!("fd0-{drv}-{kind}-{j}"), lines });
            }
        }
    }
    // ---- splice: the operation that holds clones of two descriptors; every order of start / cancel|fin /
    //      close / drop of the two ends up to a depth
    for drv in ["iour", "poll"] {
        for fed in ["", " fed"] {
            let mut seqs: Vec<Vec<String>> = vec![];
            enum_splice(if quick { 4 } else { 6 }, &mut vec![], &mut seqs);
            for (i, sq) in seqs.into_iter().enumerate() {
                let mut lines = vec![format!("splice {drv}{fed}")];
                lines.extend(sq);
                cases.push(Case { name: format!("splice-{drv}{}-{i}", fed.trim()), lines });
            }
        }
    }
    for k in ["socket", "accept", "open"] {
        cases.push(Case { name: format!("fallback-{k}"), lines: vec![format!("fallback {k}")] });
    }
    if let Ok(only) = std::env::var("C06_ONLY") {
        cases.retain(|c| c.name.starts_with(&only));
        return cases;
    }
    cases.push(Case { name: "stress-twodrop".into(), lines: vec![format!("stress twodrop {}", if quick { 3000 } else { 30000 })] });
    cases
}

/// sequences that contain `submit` exactly once, not after a `poll`/`drop` without submit (pruned: those
/// lines are `rej` and teach nothing), no leading `settle`
fn enum_prod(alpha: &[&str], depth: usize, cur: &mut Vec<String>, out: &mut Vec<Vec<String>>) {
    if cur.iter().any(|e| e == "submit") {
        out.push(cur.clone());
    }
    if depth == 0 {
        return;
    }
    let submitted = cur.iter().any(|e| e == "submit");
    for a in alpha {
        if *a == "submit" && submitted {
            continue;
        }
        if !submitted && (*a == "poll" || *a == "drop" || *a == "settle") {
            continue;
        }
        if *a == "connect" && cur.iter().filter(|e| *e == "connect").count() >= 2 {
            continue;
        }
        if *a == "settle" && cur.last().map(|e| e == "settle").unwrap_or(false) {
            continue;
        }
        cur.push(a.to_string());
        enum_prod(alpha, depth - 1, cur, out);
        cur.pop();
    }
}

/// splice programs: `start` first, then any applicable order of the other events
fn enum_splice(depth: usize, cur: &mut Vec<String>, out: &mut Vec<Vec<String>>) {
    if cur.len() >= 2 {
        out.push(cur.clone());
    }
    if depth == 0 {
        return;
    }
    let has = |cur: &Vec<String>, e: &str| cur.iter().any(|x| x == e);
    let started = has(cur, "start");
    let over = has(cur, "cancel") || has(cur, "fin");
    let mut next: Vec<&str> = vec![];
    if !started {
        next.push("start");
    } else {
        if !over {
            next.push("cancel");
            next.push("fin");
        }
        for (close, poll, drop) in [("closein", "pollin", "dropin"), ("closeout", "pollout", "dropout")] {
            if !has(cur, close) && !has(cur, drop) {
                next.push(close);
                next.push(drop);
            } else if has(cur, close) && cur.last().map(|l| l != poll && l != close).unwrap_or(false) {
                next.push(poll);
            }
        }
    }
    for e in next {
        cur.push(e.to_string());
        enum_splice(depth - 1, cur, out);
        cur.pop();
    }
}

/// generator-side shadow of the rt layer
#[derive(Clone)]
struct ShadowRt {
    roles: Vec<u8>, // 0 handle, 1 helper, 2 op, 3 closer with future, 4 gone
}

impl ShadowRt {
    fn new() -> Self {
        ShadowRt { roles: vec![0] }
    }

    fn applicable(&self) -> Vec<String> {
        let mut v = vec![];
        for (i, r) in self.roles.iter().enumerate() {
            match r {
                0 => {
                    if self.roles.len() < 8 {
                        v.push(format!("clone {i}"));
                        v.push(format!("op {i}"));
                    }
                    v.push(format!("drop {i}"));
                    v.push(format!("close {i}"));
                }
                2 => {
                    v.push(format!("fin {i}"));
                    v.push(format!("cancel {i}"));
                }
                3 => {
                    v.push(format!("poll {i}"));
                    v.push(format!("dropfut {i}"));
                }
                _ => {}
            }
        }
        v
    }

    fn apply(&mut self, e: &str) {
        let w: Vec<&str> = e.split_whitespace().collect();
        let Ok(id) = w[1].parse::<usize>() else { return };
        if id >= self.roles.len() {
            return;
        }
        match (w[0], self.roles[id]) {
            ("clone", 0) => self.roles.push(0),
            ("op", 0) => {
                self.roles.push(1);
                self.roles.push(2);
            }
            ("drop", 0) => self.roles[id] = 4,
            ("fin", 2) | ("cancel", 2) => {
                self.roles[id] = 4;
                self.roles[id - 1] = 4;
            }
            ("close", 0) => self.roles[id] = 3,
            ("dropfut", 3) => self.roles[id] = 4,
            _ => {}
        }
    }
}

/// generator-side shadow: which events apply (mirrors ownership in Rust: a moved value cannot be used)
#[derive(Clone)]
struct ShadowW {
    roles: Vec<u8>, // 0 handle, 1 op, 2 closer with future, 3 gone/finished
}

impl ShadowW {
    fn new() -> Self {
        ShadowW { roles: vec![0] }
    }

    fn applicable(&self) -> Vec<String> {
        let mut v = vec![];
        for (i, r) in self.roles.iter().enumerate() {
            match r {
                0 => {
                    if self.roles.len() < 6 {
                        v.push(format!("clone {i}"));
                        v.push(format!("op {i}"));
                    }
                    v.push(format!("drop {i}"));
                    v.push(format!("unwrap {i}"));
                    v.push(format!("take {i}"));
                }
                1 => v.push(format!("drop {i}")),
                2 => {
                    v.push(format!("poll {i}"));
                    v.push(format!("poll {i} 1"));
                    v.push(format!("dropfut {i}"));
                }
                _ => {}
            }
        }
        v
    }

    /// best-effort update (poll/unwrap outcomes are not known here: keep the value usable)
    fn apply(&mut self, e: &str) {
        let w: Vec<&str> = e.split_whitespace().collect();
        let Ok(id) = w[1].parse::<usize>() else { return };
        if id >= self.roles.len() {
            return;
        }
        match (w[0], self.roles[id]) {
            ("clone", 0) => self.roles.push(0),
            ("op", 0) => self.roles.push(1),
            ("drop", 0) | ("drop", 1) => self.roles[id] = 3,
            ("take", 0) => self.roles[id] = 2,
            ("dropfut", 2) => self.roles[id] = 3,
            _ => {}
        }
    }
}

fn enumerate(sh: &ShadowW, depth: usize, cur: &mut Vec<String>, out: &mut Vec<Vec<String>>) {
    if !cur.is_empty() {
        out.push(cur.clone());
    }
    if depth == 0 {
        return;
    }
    for e in sh.applicable() {
        // keep the enumeration small: at most 4 actors, `op` only from handle 0, no unwrap after depth 2
        let w: Vec<&str> = e.split_whitespace().collect();
        if (w[0] == "clone" || w[0] == "op") && sh.roles.len() >= 4 {
            continue;
        }
        if w[0] == "op" && w[1] != "0" {
            continue;
        }
        if w[0] == "unwrap" && cur.len() > 2 {
            continue;
        }
        let mut s2 = sh.clone();
        s2.apply(&e);
        cur.push(e);
        enumerate(&s2, depth - 1, cur, out);
        cur.pop();
    }
}

fn exec(case: &Case) -> Exec {
    let mut ex = Exec::new();
    if std::env::var_os("C06_TRACE").is_some() {
        eprintln!("#case {}\n{}", case.name, case.lines.join("\n"));
    }
    let head: Vec<&str> = case.lines.first().map(|l| l.split_whitespace().collect()).unwrap_or_default();
    let r = catch(|| exec_inner(case, &head, &mut ex));
    if let Err(m) = r {
        ex.fail("C06:panic", format!("panic while running the case: {m}"));
        ex.out.truncate(case.lines.len());
        while ex.out.len() < case.lines.len() {
            ex.out.push("panic".into());
        }
    }
    ex
}

fn exec_inner(case: &Case, head: &[&str], ex: &mut Exec) {
    let mut pad = |ex: &mut Exec| {
        for _ in 1..case.lines.len() {
            ex.out.push("bad-op".into());
        }
    };
    match head {
        ["sfd", "unsync"] => exec_sfd::<compio_driver::SharedFd<Tracked>>(case, false, ex),
        ["sfd", "sync"] => exec_sfd::<fd_sync::SharedFd<Tracked>>(case, true, ex),
        ["rt", d @ ("iour" | "poll"), kind] => exec_rt(case, *d == "iour", kind, ex),
        ["prod", d @ ("iour" | "poll" | "iour2"), kind] => exec_prod(case, d, kind, false, ex),
        ["prod", d @ ("iour" | "poll"), kind, "fd0"] => exec_prod(case, d, kind, true, ex),
        ["splice", d @ ("iour" | "poll")] => exec_splice(case, d, false, ex),
        ["splice", d @ ("iour" | "poll"), "fed"] => exec_splice(case, d, true, ex),
        ["fallback", ..] => {
            exec_fallback(case, ex);
            pad(ex);
        }
        ["stress", ..] => {
            exec_stress(case, ex);
            pad(ex);
        }
        ["loom", ..] => {
            exec_loom(case, ex);
            pad(ex);
        }
        _ => {
            for _ in &case.lines {
                ex.out.push("bad-op".into());
            }
        }
    }
}

fn main() {
    if std::env::var_os("C06_BENCH").is_some() {
        for iour in [true, false] {
            with_rt(iour, |rt| {
                let t0 = std::time::Instant::now();
                for _ in 0..200 {
                    drive(rt);
                }
                eprintln!("iour={iour} drive: {:?}", t0.elapsed() / 200);
                let t0 = std::time::Instant::now();
                for _ in 0..50 {
                    pool_barrier(rt);
                }
                eprintln!("iour={iour} pool_barrier: {:?}", t0.elapsed() / 50);
                let t0 = std::time::Instant::now();
                for _ in 0..50 {
                    let _ = open_fds();
                }
                eprintln!("open_fds: {:?}", t0.elapsed() / 50);
            })
            .unwrap();
        }
        return;
    }
    selfcheck_count::<compio_driver::SharedFd<Tracked>>();
    selfcheck_count::<fd_sync::SharedFd<Tracked>>();
    run_harness(
        generate,
        exec,
        "nontrivial = a closer exists and at least three different event kinds occur (sfd); every loom / rt / prod program",
    );
}
