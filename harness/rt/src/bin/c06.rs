//! C06 correspondence harness: descriptors are closed exactly once, never in use, never leaked.
//!
//! Layers (first line of a case selects one):
//!   `sfd unsync|sync`   the take/drop protocol on the REAL `SharedFd` (`compio_driver::SharedFd`, and
//!                       `/repo/compio-driver/src/fd.rs` compiled a second time with the `sync` branch of its
//!                       `cfg_select!`), single-threaded enumerated interleavings, hand polling, counting wakers;
//!   `loom <prog>`       fd.rs compiled a third time over loom's Arc/AtomicBool/AtomicWaker: exhaustive
//!                       cross-thread schedules of closer + droppers (lost-wake search);
//!   `stress <prog>`     the `sync` flavour on OS threads (evidence only, output is schedule independent);
//!   `rt <drv> <kind>`   programs on real `File` / `TcpStream` with a real runtime on both drivers;
//!   `prod <drv> <kind>` cancel timing of descriptor-producing operations (accept, open, socket, pipe, multishot).
//! The model side is lean/Drivers/C06.lean.
#![allow(dead_code)]

use std::{
    cell::RefCell,
    future::Future,
    os::fd::{FromRawFd, OwnedFd},
    pin::Pin,
    sync::{
        Arc, Mutex,
        atomic::{AtomicBool, AtomicUsize, Ordering},
    },
    task::{Context, Poll, RawWaker, RawWakerVTable, Waker},
};

use hx_common::*;

// fd.rs refers to these through `crate::`
pub use std::os::fd::{AsFd, AsRawFd, BorrowedFd, RawFd};

/// `/repo/compio-driver/src/fd.rs`, unmodified, with the `feature = "sync"` arm of its `cfg_select!`.
mod fd_sync {
    macro_rules! cfg_select {
        ( feature = "sync" => { $($a:tt)* } _ => { $($b:tt)* } ) => { $($a)* };
    }
    include!("/repo/compio-driver/src/fd.rs");
}

/// loom stand-ins for the three synchrony types fd.rs uses.
mod loom_shim {
    pub mod atomic {
        pub use loom::sync::atomic::AtomicBool;
    }
    pub mod shared {
        pub use loom::sync::Arc as Shared;
    }
    pub mod waker_slot {
        pub struct WakerSlot(loom::future::AtomicWaker);
        impl std::fmt::Debug for WakerSlot {
            fn fmt(&self, f: &mut std::fmt::Formatter<'_>) -> std::fmt::Result {
                f.write_str("WakerSlot")
            }
        }
        impl WakerSlot {
            pub fn new() -> Self {
                Self(loom::future::AtomicWaker::new())
            }

            pub fn register(&self, w: &std::task::Waker) {
                self.0.register_by_ref(w)
            }

            pub fn wake(&self) {
                self.0.wake()
            }
        }
    }
}

/// fd.rs, unmodified, over the loom types.
mod fd_loom {
    macro_rules! cfg_select {
        ( feature = "sync" => { $($a:tt)* } _ => { $($b:tt)* } ) => { use crate::loom_shim as sync; };
    }
    include!("/repo/compio-driver/src/fd.rs");
}

// ---------------------------------------------------------------------------------------------
// observation helpers
// ---------------------------------------------------------------------------------------------

fn fd_is_open(fd: RawFd) -> bool {
    unsafe { libc::fcntl(fd, libc::F_GETFD) != -1 }
}

/// sorted list of the open descriptors of this process (the directory stream's own fd removed)
fn open_fds() -> Vec<RawFd> {
    let mut v = vec![];
    let rd = std::fs::read_dir("/proc/self/fd").expect("/proc/self/fd");
    for e in rd {
        let e = e.unwrap();
        if let Ok(n) = e.file_name().to_string_lossy().parse::<RawFd>() {
            v.push(n);
        }
    }
    // the read_dir handle is closed now; drop the entry that was its own fd
    v.retain(|&fd| fd_is_open(fd));
    v.sort();
    v
}

fn devnull() -> OwnedFd {
    let fd = unsafe { libc::open(c"/dev/null".as_ptr(), libc::O_RDONLY | libc::O_CLOEXEC) };
    assert!(fd >= 0);
    unsafe { OwnedFd::from_raw_fd(fd) }
}

#[derive(Default)]
struct TrackLog {
    drops: AtomicUsize,
    last_raw: AtomicUsize,
}

/// An owned descriptor whose drop (= close) is observable.
struct Tracked {
    fd: Option<OwnedFd>,
    log: Arc<TrackLog>,
}

impl Tracked {
    fn new(log: &Arc<TrackLog>) -> Self {
        Tracked { fd: Some(devnull()), log: log.clone() }
    }

    fn raw(&self) -> RawFd {
        self.fd.as_ref().unwrap().as_raw_fd()
    }
}

impl AsFd for Tracked {
    fn as_fd(&self) -> BorrowedFd<'_> {
        self.fd.as_ref().unwrap().as_fd()
    }
}

impl Drop for Tracked {
    fn drop(&mut self) {
        let fd = self.fd.take().unwrap();
        self.log.last_raw.store(fd.as_raw_fd() as usize, Ordering::SeqCst);
        drop(fd);
        self.log.drops.fetch_add(1, Ordering::SeqCst);
    }
}

// counting wakers -------------------------------------------------------------------------------

struct WakeRec {
    id: usize,
    log: Arc<Mutex<Vec<usize>>>,
}

static VT: RawWakerVTable = RawWakerVTable::new(w_clone, w_wake, w_wake_by_ref, w_drop);

unsafe fn w_clone(p: *const ()) -> RawWaker {
    unsafe { Arc::increment_strong_count(p as *const WakeRec) };
    RawWaker::new(p, &VT)
}
unsafe fn w_wake(p: *const ()) {
    let a = unsafe { Arc::from_raw(p as *const WakeRec) };
    a.log.lock().unwrap().push(a.id);
}
unsafe fn w_wake_by_ref(p: *const ()) {
    let a = unsafe { &*(p as *const WakeRec) };
    a.log.lock().unwrap().push(a.id);
}
unsafe fn w_drop(p: *const ()) {
    drop(unsafe { Arc::from_raw(p as *const WakeRec) });
}

fn mk_waker(id: usize, log: &Arc<Mutex<Vec<usize>>>) -> Waker {
    let a = Arc::new(WakeRec { id, log: log.clone() });
    let p = Arc::into_raw(a) as *const ();
    unsafe { Waker::from_raw(RawWaker::new(p, &VT)) }
}

// ---------------------------------------------------------------------------------------------
// layer `sfd`: the protocol on the real SharedFd
// ---------------------------------------------------------------------------------------------

type TakeFut = Pin<Box<dyn Future<Output = Option<Tracked>>>>;

trait Sfd: Sized + 'static {
    fn new(t: Tracked) -> Self;
    fn dup(&self) -> Self;
    fn op_clone(&self) -> Self;
    fn unwrap_(self) -> Result<Tracked, Self>;
    fn take_(self) -> TakeFut;
    fn raw(&self) -> RawFd;
    /// address of the strong count of the `Rc`/`Arc` allocation (both are `repr(C)`, strong first)
    fn count_ptr(&self) -> *const usize {
        assert_eq!(std::mem::size_of::<Self>(), std::mem::size_of::<usize>());
        unsafe { *(self as *const Self as *const *const usize) }
    }
}

macro_rules! impl_sfd {
    ($ty:ty, $tr:path) => {
        impl Sfd for $ty {
            fn new(t: Tracked) -> Self {
                <$ty>::new(t)
            }

            fn dup(&self) -> Self {
                self.clone()
            }

            fn op_clone(&self) -> Self {
                <Self as $tr>::to_shared_fd(self)
            }

            fn unwrap_(self) -> Result<Tracked, Self> {
                self.try_unwrap()
            }

            fn take_(self) -> TakeFut {
                Box::pin(self.take())
            }

            fn raw(&self) -> RawFd {
                self.as_fd().as_raw_fd()
            }
        }
    };
}

impl_sfd!(compio_driver::SharedFd<Tracked>, compio_driver::ToSharedFd<Tracked>);
impl_sfd!(fd_sync::SharedFd<Tracked>, fd_sync::ToSharedFd<Tracked>);

/// the strong-count peek is validated by behaviour before it is trusted
fn selfcheck_count<S: Sfd>() {
    let log = Arc::new(TrackLog::default());
    let a = S::new(Tracked::new(&log));
    let p = a.count_ptr();
    let rd = || unsafe { std::ptr::read_volatile(p) };
    assert_eq!(rd(), 1, "strong count peek");
    let b = a.dup();
    assert_eq!(rd(), 2, "strong count peek");
    let c = b.op_clone();
    assert_eq!(rd(), 3, "strong count peek");
    drop(b);
    assert_eq!(rd(), 2, "strong count peek");
    drop(c);
    assert_eq!(rd(), 1, "strong count peek");
    drop(a);
    assert_eq!(log.drops.load(Ordering::SeqCst), 1);
}

enum Actor<S: Sfd> {
    Handle(S),
    Op(S),
    /// `fut` is `Some` while the future exists; `parked` = last poll returned `Pending`
    Closer { fut: Option<TakeFut>, polled: bool, parked: bool, wakes_seen: usize, waker: Waker },
    Gone,
}

struct SfdWorld<S: Sfd> {
    actors: Vec<Actor<S>>,
    log: Arc<TrackLog>,
    wake_log: Arc<Mutex<Vec<usize>>>,
    delivered: Vec<Tracked>,
    raw: RawFd,
    count_ptr: *const usize,
    sentinel: Option<RawFd>,
    sync: bool,
}

impl<S: Sfd> SfdWorld<S> {
    fn new(sync: bool) -> Self {
        let log = Arc::new(TrackLog::default());
        let t = Tracked::new(&log);
        let raw = t.raw();
        let s = S::new(t);
        let count_ptr = s.count_ptr();
        SfdWorld {
            actors: vec![Actor::Handle(s)],
            log,
            wake_log: Arc::new(Mutex::new(vec![])),
            delivered: vec![],
            raw,
            count_ptr,
            sentinel: None,
            sync,
        }
    }

    fn released(&self) -> usize {
        self.log.drops.load(Ordering::SeqCst) + self.delivered.len()
    }

    fn count(&self) -> usize {
        if self.released() == 0 { unsafe { std::ptr::read_volatile(self.count_ptr) } } else { 0 }
    }

    fn wakes(&self) -> usize {
        self.wake_log.lock().unwrap().len()
    }

    fn wakes_of(&self, c: usize) -> usize {
        self.wake_log.lock().unwrap().iter().filter(|&&x| x == c).count()
    }

    /// number of values alive that own a reference, by the harness' own book-keeping
    fn holders(&self) -> usize {
        self.actors
            .iter()
            .filter(|a| match a {
                Actor::Handle(_) | Actor::Op(_) => true,
                Actor::Closer { fut, .. } => fut.is_some(),
                Actor::Gone => false,
            })
            .count()
    }

    fn line(&self, r: &str) -> String {
        format!(
            "ok c={} rel={} del={} wk={} r={}",
            self.count(),
            self.released(),
            self.delivered.len(),
            self.wakes(),
            r
        )
    }

    /// run one event; `None` = the event does not apply (the value does not exist / was moved)
    fn event(&mut self, w: &[&str], ex: &mut Exec) -> Option<String> {
        let id: usize = w.get(1)?.parse().ok()?;
        if id >= self.actors.len() {
            return None;
        }
        let rel_before = self.released();
        let holders_before = self.holders();
        let mut r = "-".to_string();
        let mut rawish = false; // the event releases a reference through a path without `Drop for SharedFd`
        match w[0] {
            "clone" | "op" => {
                let Actor::Handle(h) = &self.actors[id] else { return None };
                let n = if w[0] == "clone" { Actor::Handle(h.dup()) } else { Actor::Op(h.op_clone()) };
                self.actors.push(n);
            }
            "drop" => {
                match std::mem::replace(&mut self.actors[id], Actor::Gone) {
                    Actor::Handle(h) | Actor::Op(h) => drop(h),
                    other => {
                        self.actors[id] = other;
                        return None;
                    }
                };
            }
            "unwrap" => match std::mem::replace(&mut self.actors[id], Actor::Gone) {
                Actor::Handle(h) => match h.unwrap_() {
                    Ok(t) => {
                        self.delivered.push(t);
                        r = "ok".into();
                        if holders_before != 1 {
                            ex.fail("C06:unwrap-not-unique", format!("try_unwrap succeeded with {holders_before} holders"));
                        }
                    }
                    Err(h) => {
                        self.actors[id] = Actor::Handle(h);
                        r = "err".into();
                        if holders_before == 1 {
                            ex.fail("C06:unwrap-unique-failed", "try_unwrap failed for the only holder");
                        }
                    }
                },
                other => {
                    self.actors[id] = other;
                    return None;
                }
            },
            "take" => match std::mem::replace(&mut self.actors[id], Actor::Gone) {
                Actor::Handle(h) => {
                    let waker = mk_waker(id, &self.wake_log);
                    self.actors[id] =
                        Actor::Closer { fut: Some(h.take_()), polled: false, parked: false, wakes_seen: 0, waker };
                }
                other => {
                    self.actors[id] = other;
                    return None;
                }
            },
            "poll" => {
                let seen = self.wakes_of(id);
                let Actor::Closer { fut, polled, parked, wakes_seen, waker } = &mut self.actors[id] else {
                    return None;
                };
                let Some(f) = fut.as_mut() else { return None };
                *wakes_seen = seen;
                *polled = true;
                let mut cx = Context::from_waker(waker);
                match f.as_mut().poll(&mut cx) {
                    Poll::Pending => {
                        *parked = true;
                        r = "pending".into();
                        if holders_before == 1 {
                            ex.fail("C06:close-not-completed", "take() pending although the closer is the only holder");
                        }
                    }
                    Poll::Ready(Some(t)) => {
                        *parked = false;
                        *fut = None;
                        self.delivered.push(t);
                        r = "some".into();
                        if holders_before != 1 {
                            ex.fail(
                                "C06:close-before-release",
                                format!("take() completed while {} other holders exist", holders_before - 1),
                            );
                        }
                    }
                    Poll::Ready(None) => {
                        *parked = false;
                        *fut = None;
                        r = "none".into();
                        rawish = true;
                    }
                }
            }
            "dropfut" => {
                let Actor::Closer { fut, parked, .. } = &mut self.actors[id] else { return None };
                if fut.is_none() {
                    return None;
                }
                *fut = None;
                *parked = false;
                rawish = true;
            }
            _ => return None,
        }
        // ---- monitors (implementation only) ----
        let rel = self.released();
        if rel > 1 {
            ex.fail("C06:double-release", format!("inner descriptor released {rel} times"));
        }
        if rel > rel_before {
            // released by this event: nobody else may hold a reference
            let left = self.holders();
            if left != 0 {
                ex.fail("C06:closed-in-use", format!("descriptor released while {left} holders remain"));
            }
            if self.log.drops.load(Ordering::SeqCst) == 1 && self.sentinel.is_none() {
                // dropped in place: the number must be closed now; park a sentinel on it so that a
                // second close of the same number becomes visible
                if fd_is_open(self.raw) {
                    ex.fail("C06:not-closed", "inner value dropped but the descriptor is still open");
                } else {
                    let s = devnull();
                    if s.as_raw_fd() == self.raw {
                        // lowest free number: the sentinel landed on it directly
                        self.sentinel = Some(std::os::fd::IntoRawFd::into_raw_fd(s));
                    } else if unsafe { libc::dup2(s.as_raw_fd(), self.raw) } == self.raw {
                        self.sentinel = Some(self.raw);
                    }
                }
            }
        } else if rel == 0 && !fd_is_open(self.raw) {
            ex.fail("C06:closed-early", "descriptor closed while references exist");
        }
        // a closer that is parked, alone, and has not been woken since its last poll waits forever
        let holders = self.holders();
        for (i, a) in self.actors.iter().enumerate() {
            if let Actor::Closer { fut: Some(_), parked: true, wakes_seen, .. } = a {
                if holders == 1 && self.wakes_of(i) == *wakes_seen {
                    if rawish {
                        ex.fail(
                            "F8b:sharedfd-raw-drop-lost-wake",
                            format!("closer {i} parked, sole owner, never woken: last reference released by `{}` (raw Shared drop, no wake test)", w.join(" ")),
                        );
                    } else {
                        ex.fail("C06:lost-wake", format!("closer {i} parked, sole owner, not woken after `{}`", w.join(" ")));
                    }
                }
            }
        }
        Some(self.line(&r))
    }

    fn finish(mut self, ex: &mut Exec) {
        self.actors.clear();
        self.delivered.clear();
        let drops = self.log.drops.load(Ordering::SeqCst);
        if drops != 1 {
            ex.fail("C06:fd-leak", format!("inner value dropped {drops} times after every value was dropped"));
        }
        if let Some(s) = self.sentinel {
            if !fd_is_open(s) {
                ex.fail("C06:double-close", "descriptor number closed a second time");
            } else {
                unsafe { libc::close(s) };
            }
        }
    }
}

fn exec_sfd<S: Sfd>(case: &Case, sync: bool, ex: &mut Exec) {
    let before = open_fds();
    let mut w = SfdWorld::<S>::new(sync);
    ex.out.push(w.line("-"));
    let mut kinds = std::collections::BTreeSet::new();
    for l in &case.lines[1..] {
        let ws: Vec<&str> = l.split_whitespace().collect();
        match w.event(&ws, ex) {
            Some(o) => {
                kinds.insert(ws[0].to_string());
                ex.out.push(o)
            }
            None => ex.out.push("rej".into()),
        }
    }
    let had_closer = w.actors.iter().any(|a| matches!(a, Actor::Closer { .. }));
    w.finish(ex);
    let after = open_fds();
    if before != after {
        ex.fail("C06:fd-balance", format!("open descriptors before {before:?} after {after:?}"));
    }
    ex.tag(format!("sfd-{}", if sync { "sync" } else { "unsync" }));
    for k in &kinds {
        ex.tag(format!("ev-{k}"));
    }
    ex.nontrivial = had_closer && kinds.len() >= 3;
}

// ---------------------------------------------------------------------------------------------
// layer `loom`: cross-thread schedules of the real fd.rs text over loom primitives
// ---------------------------------------------------------------------------------------------

struct Plain(i32);
impl AsFd for Plain {
    fn as_fd(&self) -> BorrowedFd<'_> {
        unsafe { BorrowedFd::borrow_raw(self.0) }
    }
}

/// `droppers` clones are dropped on other threads (`par`: one thread each; `seq`: one thread drops them
/// all, one after the other; `joined`: as `par`, but the threads are joined before `take()` is awaited)
/// while this thread awaits `take()`. A lost wake leaves the closer parked for ever: loom reports a deadlock.
fn loom_prog(droppers: usize, mode: &'static str) -> Result<usize, String> {
    let iters = Arc::new(AtomicUsize::new(0));
    let it = iters.clone();
    let r = catch(move || {
        let mut b = loom::model::Builder::new();
        b.preemption_bound = Some(3);
        b.check(move || {
            it.fetch_add(1, Ordering::Relaxed);
            let a = fd_loom::SharedFd::new(Plain(0));
            let clones: Vec<_> = (0..droppers).map(|_| a.clone()).collect();
            let mut ths = vec![];
            spawn_droppers(clones, mode == "seq", &mut ths);
            if mode == "joined" {
                for t in ths.drain(..) {
                    t.join().unwrap();
                }
            }
            loom::future::block_on(async move {
                let r = a.take().await;
                assert!(r.is_some());
            });
            for t in ths {
                t.join().unwrap();
            }
        });
    });
    match r {
        Ok(()) => Ok(iters.load(Ordering::Relaxed)),
        Err(m) => Err(m),
    }
}

fn spawn_droppers(
    clones: Vec<fd_loom::SharedFd<Plain>>,
    seq: bool,
    ths: &mut Vec<loom::thread::JoinHandle<()>>,
) {
    if seq {
        ths.push(loom::thread::spawn(move || {
            for c in clones {
                drop(c);
            }
        }));
    } else {
        for c in clones {
            ths.push(loom::thread::spawn(move || drop(c)));
        }
    }
}

fn exec_loom(case: &Case, ex: &mut Exec) {
    let ws: Vec<&str> = case.lines[0].split_whitespace().collect();
    let n: usize = ws.get(2).and_then(|s| s.parse().ok()).unwrap_or(1);
    let mode: &'static str = match ws.get(1).copied() {
        Some("par") => "par",
        Some("seq") => "seq",
        Some("joined") => "joined",
        _ => {
            ex.out.push("bad-op".into());
            return;
        }
    };
    if n > 3 {
        ex.out.push("bad-op".into());
        return;
    }
    match loom_prog(n, mode) {
        Ok(iters) => {
            ex.out.push("lost=no".into());
            ex.tag(format!("loom-clean-iters-{}", if iters > 100 { ">100" } else { "<=100" }));
        }
        Err(m) => {
            let dead = m.contains("deadlock");
            ex.out.push(if dead { "lost=yes".into() } else { format!("panic {m}") });
            if dead {
                ex.fail(
                    "F8:sharedfd-sync-lost-wake",
                    format!("loom: `take().await` never completes ({} concurrent droppers, {}): {}", n, ws[1], m.lines().next().unwrap_or("")),
                );
            } else {
                ex.fail("C06:loom-panic", m);
            }
        }
    }
    ex.tag("loom");
    ex.nontrivial = true;
}

// ---------------------------------------------------------------------------------------------

fn generate(tier: &str, rng: &mut Rng) -> Vec<Case> {
    let mut cases = vec![];
    let quick = tier == "quick";
    // exhaustive: every sequence of applicable events up to a depth, both flavours
    let depth = if quick { 5 } else { 7 };
    for flavour in ["unsync", "sync"] {
        let mut seqs: Vec<Vec<String>> = vec![];
        enumerate(&ShadowW::new(), depth, &mut vec![], &mut seqs);
        for (i, s) in seqs.into_iter().enumerate() {
            let mut lines = vec![format!("sfd {flavour}")];
            lines.extend(s);
            cases.push(Case { name: format!("enum-{flavour}-{i}"), lines });
        }
    }
    // random longer walks with some inapplicable events
    let n = if quick { 600 } else { 20000 };
    for i in 0..n {
        let flavour = if rng.chance(1, 2) { "unsync" } else { "sync" };
        let mut sh = ShadowW::new();
        let mut lines = vec![format!("sfd {flavour}")];
        let len = rng.range(4, 16);
        for _ in 0..len {
            let evs = sh.applicable();
            let e = if evs.is_empty() || rng.chance(1, 12) {
                let k = *rng.pick(&["clone", "op", "drop", "unwrap", "take", "poll", "dropfut"]);
                format!("{k} {}", rng.below(sh.roles.len() as u64 + 1))
            } else {
                rng.pick(&evs).clone()
            };
            sh.apply(&e);
            lines.push(e);
        }
        cases.push(Case { name: format!("walk-{i}"), lines });
    }
    for (k, n) in [("par", 0), ("joined", 1), ("joined", 2), ("seq", 1), ("par", 1), ("par", 2), ("seq", 2)] {
        cases.push(Case { name: format!("loom-{k}-{n}"), lines: vec![format!("loom {k} {n}")] });
    }
    cases
}

/// generator-side shadow: which events apply (mirrors ownership in Rust: a moved value cannot be used)
#[derive(Clone)]
struct ShadowW {
    roles: Vec<u8>, // 0 handle, 1 op, 2 closer with future, 3 gone/finished
}

impl ShadowW {
    fn new() -> Self {
        ShadowW { roles: vec![0] }
    }

    fn applicable(&self) -> Vec<String> {
        let mut v = vec![];
        for (i, r) in self.roles.iter().enumerate() {
            match r {
                0 => {
                    if self.roles.len() < 6 {
                        v.push(format!("clone {i}"));
                        v.push(format!("op {i}"));
                    }
                    v.push(format!("drop {i}"));
                    v.push(format!("unwrap {i}"));
                    v.push(format!("take {i}"));
                }
                1 => v.push(format!("drop {i}")),
                2 => {
                    v.push(format!("poll {i}"));
                    v.push(format!("dropfut {i}"));
                }
                _ => {}
            }
        }
        v
    }

    /// best-effort update (poll/unwrap outcomes are not known here: keep the value usable)
    fn apply(&mut self, e: &str) {
        let w: Vec<&str> = e.split_whitespace().collect();
        let Ok(id) = w[1].parse::<usize>() else { return };
        if id >= self.roles.len() {
            return;
        }
        match (w[0], self.roles[id]) {
            ("clone", 0) => self.roles.push(0),
            ("op", 0) => self.roles.push(1),
            ("drop", 0) | ("drop", 1) => self.roles[id] = 3,
            ("take", 0) => self.roles[id] = 2,
            ("dropfut", 2) => self.roles[id] = 3,
            _ => {}
        }
    }
}

fn enumerate(sh: &ShadowW, depth: usize, cur: &mut Vec<String>, out: &mut Vec<Vec<String>>) {
    if !cur.is_empty() {
        out.push(cur.clone());
    }
    if depth == 0 {
        return;
    }
    for e in sh.applicable() {
        // keep the enumeration small: at most 4 actors, `op` only from handle 0, no unwrap after depth 2
        let w: Vec<&str> = e.split_whitespace().collect();
        if (w[0] == "clone" || w[0] == "op") && sh.roles.len() >= 4 {
            continue;
        }
        if w[0] == "op" && w[1] != "0" {
            continue;
        }
        if w[0] == "unwrap" && cur.len() > 2 {
            continue;
        }
        let mut s2 = sh.clone();
        s2.apply(&e);
        cur.push(e);
        enumerate(&s2, depth - 1, cur, out);
        cur.pop();
    }
}

fn exec(case: &Case) -> Exec {
    let mut ex = Exec::new();
    let head: Vec<&str> = case.lines.first().map(|l| l.split_whitespace().collect()).unwrap_or_default();
    match head.as_slice() {
        ["sfd", "unsync"] => exec_sfd::<compio_driver::SharedFd<Tracked>>(case, false, &mut ex),
        ["sfd", "sync"] => exec_sfd::<fd_sync::SharedFd<Tracked>>(case, true, &mut ex),
        ["loom", ..] => {
            exec_loom(case, &mut ex);
            for _ in 1..case.lines.len() {
                ex.out.push("bad-op".into());
            }
        }
        _ => {
            for _ in &case.lines {
                ex.out.push("bad-op".into());
            }
        }
    }
    ex
}

fn main() {
    selfcheck_count::<compio_driver::SharedFd<Tracked>>();
    selfcheck_count::<fd_sync::SharedFd<Tracked>>();
    run_harness(
        generate,
        exec,
        "nontrivial = a closer exists and at least three different event kinds occur (sfd); every loom / rt / prod program",
    );
}
