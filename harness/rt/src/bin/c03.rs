//! C03 harness: "a wake-up from any thread is never lost" on the REAL compio-runtime + compio-driver
//! (fusion build, both drivers) + compio-executor. Model side: lean/Drivers/C03.lean.
//!
//! Two kinds of operation lines.
//!
//! (a) deterministic single-threaded programs through the public API (external-loop handshake):
//!
//!   new <iour|poll> q=<sync_queue_size> iv=<event_interval> tasks=<n>   -> ok
//!   wake        the driver waker (`Runtime::waker()`, the waker of the main future)   -> ok
//!   flush       `Runtime::flush()`                                       -> flush=notified|idle
//!   poll0       `Runtime::poll_with(Some(0))`                            -> ok
//!   fd          poll(2), timeout 0, on the descriptor an external loop waits on: like compio-compat,
//!               for io_uring an eventfd REGISTERED WITH THE RING, for polling the poller fd
//!                                                                        -> fd=readable|not
//!   ring        poll(2), timeout 0, on `Runtime::as_raw_fd()`            -> ring=readable|not
//!   clear       read the registered eventfd (compio-compat `clear`)      -> ok
//!   twake <t>   `wake_by_ref` of task t's waker on ANOTHER thread (a long-lived helper thread; the call is
//!               awaited; the generator never lets the queue fill up — should the call not return within
//!               10 s because the cross-thread queue is full: `blocked`)                 -> ok|blocked
//!   lwake <t>   the same on the runtime's own thread                     -> ok
//!   run         `Runtime::run()` (= `Executor::tick`)                    -> polled <ids|-> hot=<0|1>
//!
//! (b) cross-thread stress rounds on a runtime that lives on its own thread, blocking in its own
//!     loop (`block_on`) or driven by an emulation of the compio-compat loop
//!     (flush + poll(2) on the fd + clear + poll_with(0)):
//!
//!   stress <iour|poll> <own|ext> q=<q> iv=<iv> tasks=<T> threads=<K> wakes=<W> rounds=<R> seed=<S>  -> round ok
//!
//!   Every task (and the main future) publishes a request number before its waker is invoked; a poll
//!   records the newest request number it saw. After ALL wake() calls of a round returned, every woken
//!   future must have been polled after its last request within a watchdog. The output line is always
//!   `round ok`; the judgement is carried by the monitors
//!     C03:lost-wake                  (own loop)      a woken future is not polled again, even after the
//!     C03:external-loop-lost-wake    (external loop) driver is woken once more by hand
//!     C03:waker-thread-stuck                         a wake() call does not return (spins on the full queue) even
//!                                                    after the driver is woken by hand
//!     F030:wake-stranded-in-sync-queue               not polled within the watchdog, but polled as soon as
//!                                                    the driver is woken by hand: the id sat in the sync
//!                                                    queue and nobody told the runtime (repaired by e1c512a).
//!   `C03:external-loop-lost-wake` is also raised by the deterministic programs (see `det_op`, "fd").
//!
//! `cancelprobe <iour|poll>` (replay files only) runs the experiment of notes/C03.md, observation F031.
#![allow(dead_code)]

use std::{
    future::Future,
    os::fd::{AsRawFd, FromRawFd, OwnedFd, RawFd},
    pin::Pin,
    sync::{
        Arc, Mutex,
        atomic::{AtomicBool, AtomicU64, AtomicUsize, Ordering::SeqCst},
        mpsc,
    },
    task::{Context, Poll, Waker},
    time::{Duration, Instant},
};

use compio_driver::{DriverType, ProactorBuilder};
use compio_runtime::Runtime;
use hx_common::*;

// ---------------------------------------------------------------------------------------------
// shared instrumentation
// ---------------------------------------------------------------------------------------------

struct Slot {
    req: AtomicU64,
    seen: AtomicU64,
    polls: AtomicU64,
    waker: Mutex<Option<Waker>>,
}

struct World {
    slots: Vec<Slot>, // index tasks..: the main future is the last one
    stop: AtomicBool,
    log: Mutex<Vec<usize>>,
}

impl World {
    fn new(n: usize) -> Arc<World> {
        Arc::new(World {
            slots: (0..n)
                .map(|_| Slot { req: AtomicU64::new(0), seen: AtomicU64::new(0), polls: AtomicU64::new(0), waker: Mutex::new(None) })
                .collect(),
            stop: AtomicBool::new(false),
            log: Mutex::new(vec![]),
        })
    }
}

/// a future that never completes by itself: every poll records what it saw and parks
struct Parked {
    idx: usize,
    w: Arc<World>,
    /// operations submitted at every poll (stress variant with a small submission queue)
    push: usize,
    reads: std::collections::VecDeque<IdleRead>,
}

impl Parked {
    fn new(idx: usize, w: Arc<World>) -> Parked {
        Parked { idx, w, push: 0, reads: Default::default() }
    }
}

impl Future for Parked {
    type Output = ();

    fn poll(mut self: Pin<&mut Self>, cx: &mut Context<'_>) -> Poll<()> {
        for _ in 0..self.push {
            // at most 8 reads outstanding: the oldest is dropped (= cancelled: one more SQE)
            if self.reads.len() >= 8 {
                self.reads.pop_front();
            }
            let mut r = Runtime::with_current(|rt| idle_read(rt));
            let _ = r.fut.as_mut().poll(cx);
            self.reads.push_back(r);
        }
        let s = &self.w.slots[self.idx];
        // register first, then look at the request number (the usual "register, then re-check" order)
        {
            let mut g = s.waker.lock().unwrap();
            match &*g {
                Some(old) if old.will_wake(cx.waker()) => {}
                _ => *g = Some(cx.waker().clone()),
            }
        }
        let r = s.req.load(SeqCst);
        s.seen.fetch_max(r, SeqCst);
        s.polls.fetch_add(1, SeqCst);
        self.w.log.lock().unwrap().push(self.idx);
        if self.w.stop.load(SeqCst) { Poll::Ready(()) } else { Poll::Pending }
    }
}

/// a read on a pipe nobody writes to: stays in flight; submitting it is one `Driver::push` (an SQE on io_uring)
struct IdleRead {
    fut: Pin<Box<dyn Future<Output = ()>>>,
    _wr: OwnedFd,
}

fn idle_read(rt: &Runtime) -> IdleRead {
    let mut fds = [0i32; 2];
    let r = unsafe { libc::pipe2(fds.as_mut_ptr(), libc::O_CLOEXEC) };
    assert_eq!(r, 0, "pipe2");
    let (rd, wr) = unsafe { (OwnedFd::from_raw_fd(fds[0]), OwnedFd::from_raw_fd(fds[1])) };
    let fd = compio_driver::SharedFd::new(rd);
    let sub = rt.submit(compio_driver::op::Read::new(fd, Vec::<u8>::with_capacity(8)));
    IdleRead {
        fut: Box::pin(async move {
            let _ = sub.await;
        }),
        _wr: wr,
    }
}

/// a read of /dev/zero: completes inline at submission, its completion stays in the CQ until somebody reaps it
fn zero_read(rt: &Runtime) -> IdleRead {
    let file = std::fs::File::open("/dev/zero").expect("/dev/zero");
    let wr = OwnedFd::from(std::fs::File::open("/dev/null").expect("/dev/null"));
    let fd = compio_driver::SharedFd::new(file);
    let sub = rt.submit(compio_driver::op::ReadAt::new(fd, 0, Vec::<u8>::with_capacity(8)));
    IdleRead {
        fut: Box::pin(async move {
            let _ = sub.await;
        }),
        _wr: wr,
    }
}

/// public `Runtime` methods that talk to the driver without being a poll: none of them may consume a pending
/// notification (seed C03-4b made `unregister_*` call `driver.flush()` and drop the result). Results are ignored
/// (the polling driver answers Unsupported), the output line is always `ok`.
const APIS: &[&str] = &["regpers", "regfiles", "bufpool", "timeout", "inline"];
/// for the deterministic programs: without `inline`, whose completion is an event of its own (it ends a wait, makes the
/// descriptors readable, and on the polling driver comes from the thread pool through the driver waker)
const APIS_DET: &[&str] = &["regpers", "regfiles", "bufpool", "timeout"];

struct ApiState {
    personalities: Vec<u16>,
    files_registered: bool,
    keep: Vec<IdleRead>,
    devnull: Option<std::fs::File>,
}

impl ApiState {
    fn new() -> ApiState {
        ApiState { personalities: vec![], files_registered: false, keep: vec![], devnull: None }
    }
}

/// must be called inside `rt.enter`
fn call_api(rt: &Runtime, name: &str, st: &mut ApiState) -> bool {
    match name {
        // register + unregister a personality (io_uring_register, no SQE)
        "regpers" => {
            if let Ok(p) = rt.register_personality() {
                st.personalities.push(p);
            }
            if let Some(p) = st.personalities.pop() {
                let _ = rt.unregister_personality(p);
            }
        }
        // register + unregister a fixed-file table
        "regfiles" => {
            let f = st.devnull.get_or_insert_with(|| std::fs::File::open("/dev/null").expect("/dev/null"));
            if rt.register_files(&[f.as_raw_fd()]).is_ok() {
                st.files_registered = true;
            }
            let _ = rt.unregister_files();
            st.files_registered = false;
        }
        // create (first time) / fetch the buffer pool
        "bufpool" => {
            let _ = rt.buffer_pool();
        }
        "timeout" => {
            let _ = rt.current_timeout();
        }
        // an operation that completes at submission
        "inline" => {
            let w = Waker::noop();
            let mut cx = Context::from_waker(&w);
            let mut r = zero_read(rt);
            let _ = r.fut.as_mut().poll(&mut cx);
            st.keep.push(r);
        }
        _ => return false,
    }
    true
}

fn drv_of(s: &str) -> Option<DriverType> {
    match s {
        "iour" => Some(DriverType::IoUring),
        "poll" => Some(DriverType::Poll),
        _ => None,
    }
}

fn kv(tok: &str, key: &str) -> Option<usize> {
    tok.strip_prefix(key).and_then(|r| r.strip_prefix('=')).and_then(|v| v.parse().ok())
}

fn new_eventfd() -> OwnedFd {
    let fd = unsafe { libc::eventfd(0, libc::EFD_CLOEXEC | libc::EFD_NONBLOCK) };
    assert!(fd >= 0, "eventfd");
    unsafe { OwnedFd::from_raw_fd(fd) }
}

fn readable(fd: RawFd, timeout_ms: i32) -> bool {
    let mut p = libc::pollfd { fd, events: libc::POLLIN, revents: 0 };
    loop {
        let r = unsafe { libc::poll(&mut p, 1, timeout_ms) };
        if r < 0 && std::io::Error::last_os_error().kind() == std::io::ErrorKind::Interrupted {
            if timeout_ms == 0 {
                continue;
            }
            return false; // treated as a spurious return by the loop
        }
        return r > 0 && (p.revents & libc::POLLIN) != 0;
    }
}

fn drain_eventfd(fd: RawFd) {
    let mut b = [0u8; 8];
    unsafe { libc::read(fd, b.as_mut_ptr().cast(), 8) };
}

struct Built {
    rt: Runtime,
    /// the eventfd registered with the ring (io_uring only), as compio-compat's UnixAdapter does
    efd: Option<OwnedFd>,
}

impl Built {
    /// the descriptor an external loop waits on
    fn wait_fd(&self) -> RawFd {
        self.efd.as_ref().map(|f| f.as_raw_fd()).unwrap_or_else(|| self.rt.as_raw_fd())
    }

    fn clear(&self) {
        if let Some(f) = &self.efd {
            drain_eventfd(f.as_raw_fd());
        }
    }
}

fn build(drv: DriverType, q: usize, iv: usize) -> Result<Built, String> {
    build_cap(drv, q, iv, 16)
}

fn build_cap(drv: DriverType, q: usize, iv: usize, cap: u32) -> Result<Built, String> {
    build_cap_cq(drv, q, iv, cap, 256)
}

/// `cq = 0`: the default completion queue (2 * capacity), which a few unreaped completions fill up
fn build_cap_cq(drv: DriverType, q: usize, iv: usize, cap: u32, cq: u32) -> Result<Built, String> {
    let mut pb = ProactorBuilder::new();
    // a small SUBMISSION queue, but a completion queue that cannot overflow (a CQ of 2*cap entries overflows after a
    // few un-reaped NOTIFY completions, and when the kernel flushes its overflow list is not deterministic)
    pb.driver_type(drv).capacity(cap);
    if cq > 0 {
        pb.cqsize(cq);
    }
    let efd = if drv == DriverType::IoUring { Some(new_eventfd()) } else { None };
    if let Some(f) = &efd {
        pb.register_eventfd(f.as_raw_fd());
    }
    let mut b = Runtime::builder();
    b.with_proactor(pb).sync_queue_size(q).event_interval(iv);
    let rt = b.build().map_err(|e| format!("build: {e}"))?;
    if rt.driver_type() != drv {
        return Err(format!("driver {:?} not available (got {:?})", drv, rt.driver_type()));
    }
    Ok(Built { rt, efd })
}

// ---------------------------------------------------------------------------------------------
// (a) deterministic programs
// ---------------------------------------------------------------------------------------------

type WakeReq = (Waker, mpsc::Sender<()>);

thread_local! {
    /// the foreign thread on which `twake` invokes task wakers (one long-lived thread instead of one per call)
    static HELPER: std::cell::RefCell<Option<mpsc::Sender<WakeReq>>> = const { std::cell::RefCell::new(None) };
}

fn helper() -> mpsc::Sender<WakeReq> {
    HELPER.with(|h| {
        let mut h = h.borrow_mut();
        if h.is_none() {
            let (tx, rx) = mpsc::channel::<WakeReq>();
            std::thread::spawn(move || {
                while let Ok((wk, done)) = rx.recv() {
                    wk.wake_by_ref();
                    drop(wk);
                    let _ = done.send(());
                }
            });
            *h = Some(tx);
        }
        h.as_ref().unwrap().clone()
    })
}

struct Det {
    b: Built,
    w: Arc<World>,
    n: usize,
    main_waker: Waker,
    helpers: Vec<std::thread::JoinHandle<()>>,
    // external-loop oracle (implementation only). `legit`: since the last `run` that reported "nothing hot" (or
    // since `new`) the runtime side did nothing but `flush`, i.e. the program is a prefix of an iteration of the
    // compio-compat loop, which would now WAIT on the descriptor. `owed`: a wake returned since that `run`.
    legit: bool,
    owed: bool,
    // a flush happened since then
    flushed: bool,
    // the loop will not block in this iteration: a flush since the last `run` said "notified" (zero timeout) or the
    // fd was seen readable (sticky until the next `run`: the loop's wait returns at once)
    reported: bool,
    drv_name: String,
    /// reads in flight (op `push`)
    reads: Vec<IdleRead>,
    // flag oracle (implementation only): a waker was invoked since the flag was last reset (flush / poll): the
    // NOTIFIED bit may only disappear through a reset, so the next flush must say "notified" and the next timed
    // poll must return at once
    owed_flag: bool,
    pushes_since_wake: usize,
    api: ApiState,
}

impl Det {
    fn new(drv: DriverType, q: usize, iv: usize, n: usize, cap: u32, cq: u32) -> Result<Det, String> {
        let b = build_cap_cq(drv, q, iv, cap, cq)?;
        let w = World::new(n + 1);
        for i in 0..n {
            let fut = Parked::new(i, w.clone());
            b.rt.enter(|| b.rt.spawn(fut)).detach();
        }
        // park every task once: afterwards all are cold, their wakers are known, the driver was not touched
        let mut guard = 0;
        while b.rt.enter(|| b.rt.run()) {
            guard += 1;
            if guard > 10_000 {
                return Err("setup does not quiesce".into());
            }
        }
        w.log.lock().unwrap().clear();
        let main_waker = b.rt.waker();
        Ok(Det { b, w, n, main_waker, helpers: vec![], legit: true, owed: false, flushed: false, reported: false, drv_name: format!("{drv:?}"), reads: vec![], owed_flag: false, pushes_since_wake: 0, api: ApiState::new() })
    }

    fn task_waker(&self, t: usize) -> Option<Waker> {
        if t >= self.n {
            return None;
        }
        self.w.slots[t].waker.lock().unwrap().clone()
    }

    fn finish(mut self) {
        let reads = std::mem::take(&mut self.reads);
        let keep = std::mem::take(&mut self.api.keep);
        self.b.rt.enter(|| {
            drop(reads);
            drop(keep);
        });
        // let spinning helper threads finish: drain the queue until they are done
        let t0 = Instant::now();
        while self.helpers.iter().any(|h| !h.is_finished()) && t0.elapsed() < Duration::from_secs(5) {
            self.b.rt.enter(|| self.b.rt.run());
            std::thread::yield_now();
        }
        for h in self.helpers.drain(..) {
            if h.is_finished() {
                let _ = h.join();
            }
        }
        self.w.stop.store(true, SeqCst);
    }
}

fn det_op(d: &mut Det, line: &str, ex: &mut Exec) -> String {
    let toks: Vec<&str> = line.split_whitespace().collect();
    match toks.as_slice() {
        ["push", k] => {
            let Ok(k) = k.parse::<usize>() else { return "bad-op".into() };
            let Det { b, reads, .. } = d;
            b.rt.enter(|| {
                let w = Waker::noop();
                let mut cx = Context::from_waker(&w);
                for _ in 0..k {
                    let mut r = idle_read(&b.rt);
                    let _ = r.fut.as_mut().poll(&mut cx);
                    reads.push(r);
                }
            });
            d.pushes_since_wake += k;
            "ok".into()
        }
        ["api", name] => {
            let Det { b, api, .. } = d;
            let ok = b.rt.enter(|| call_api(&b.rt, name, api));
            if !ok {
                return "bad-op".into();
            }
            if *name == "inline" {
                d.pushes_since_wake += 1;
            }
            "ok".into()
        }
        ["pushz", k] => {
            let Ok(k) = k.parse::<usize>() else { return "bad-op".into() };
            let Det { b, reads, .. } = d;
            b.rt.enter(|| {
                let w = Waker::noop();
                let mut cx = Context::from_waker(&w);
                for _ in 0..k {
                    let mut r = zero_read(&b.rt);
                    let _ = r.fut.as_mut().poll(&mut cx);
                    reads.push(r);
                }
            });
            d.pushes_since_wake += k;
            "ok".into()
        }
        ["pollw", ms] => {
            // a blocking poll; 20 ms later another thread invokes the driver waker: the poll must end promptly
            let Ok(ms) = ms.parse::<u64>() else { return "bad-op".into() };
            let wk = d.main_waker.clone();
            let th = std::thread::spawn(move || {
                std::thread::sleep(Duration::from_millis(20));
                wk.wake();
            });
            let t0 = Instant::now();
            let r = catch(|| d.b.rt.poll_with(Some(Duration::from_millis(ms))));
            let woken = t0.elapsed() < Duration::from_millis(ms * 3 / 4);
            let _ = th.join();
            if let Err(e) = r {
                return format!("panic {e}");
            }
            if !woken {
                ex.fail("C03:lost-wake", format!("deterministic program on {}: another thread invoked the driver waker 20 ms into a blocking poll_with({ms} ms), the poll slept until its timeout (the notifier is not armed?)", d.drv_name));
            }
            // the wake may have arrived after the poll returned (stale readiness): leave a clean, known state
            d.owed_flag = false;
            d.legit = false;
            if woken { "poll=woken".into() } else { "poll=timeout".into() }
        }
        ["pollt", ms] => {
            let Ok(ms) = ms.parse::<u64>() else { return "bad-op".into() };
            let t0 = Instant::now();
            let r = catch(|| d.b.rt.poll_with(Some(Duration::from_millis(ms))));
            let woken = t0.elapsed() < Duration::from_millis(ms / 2);
            if let Err(e) = r {
                return format!("panic {e}");
            }
            if d.owed_flag && !woken {
                let sig = if d.pushes_since_wake > 0 { "C03:lost-wake-after-sq-overflow" } else { "C03:lost-wake" };
                ex.fail(sig, format!("deterministic program on {}: a waker was invoked since the last poll/flush ({} operations pushed since), but poll_with({ms} ms) slept until its timeout", d.drv_name, d.pushes_since_wake));
            }
            d.owed_flag = false;
            d.legit = false;
            if woken { "poll=woken".into() } else { "poll=timeout".into() }
        }
        ["wakex"] => {
            // the driver waker on another thread (joined)
            let wk = d.main_waker.clone();
            std::thread::spawn(move || wk.wake()).join().unwrap();
            d.owed = true;
            d.owed_flag = true;
            d.pushes_since_wake = 0;
            "ok".into()
        }
        ["wake"] => {
            d.main_waker.wake_by_ref();
            d.owed_flag = true;
            d.pushes_since_wake = 0;
            d.owed = true;
            "ok".into()
        }
        ["flush"] => {
            let n = d.b.rt.flush();
            if d.owed_flag && !n {
                let sig = if d.pushes_since_wake > 0 { "C03:lost-wake-after-sq-overflow" } else { "C03:lost-wake" };
                ex.fail(sig, format!("deterministic program on {}: a waker was invoked since the last poll/flush ({} operations pushed since), but flush() says the driver is not notified", d.drv_name, d.pushes_since_wake));
            }
            d.owed_flag = false;
            d.flushed = true;
            if n {
                d.reported = true;
            }
            if n { "flush=notified".into() } else { "flush=idle".into() }
        }
        ["poll0"] => match catch(|| d.b.rt.poll_with(Some(Duration::ZERO))) {
            Ok(()) => {
                d.legit = false;
                d.owed_flag = false;
                "ok".into()
            }
            Err(e) => format!("panic {e}"),
        },
        ["fd"] => {
            let r = readable(d.b.wait_fd(), 0);
            if r {
                d.reported = true;
            }
            // the external loop would now wait on this descriptor without a timeout (nothing hot, flush said idle)
            if d.legit && d.owed && d.flushed && !d.reported && !r {
                ex.fail(
                    "C03:external-loop-lost-wake",
                    format!("deterministic program on {}: a wake() returned, no later flush() reported it and the descriptor is not readable: an external loop would block: {}", d.drv_name, line),
                );
            }
            if r { "fd=readable".into() } else { "fd=not".into() }
        }
        ["ring"] => {
            if readable(d.b.rt.as_raw_fd(), 0) { "ring=readable".into() } else { "ring=not".into() }
        }
        ["clear"] => {
            d.b.clear();
            d.legit = false;
            "ok".into()
        }
        ["twake", t] => {
            let Some(wk) = t.parse().ok().and_then(|t: usize| d.task_waker(t)) else { return "bad-op".into() };
            let (tx, rx) = mpsc::channel();
            helper().send((wk, tx)).expect("helper thread");
            match rx.recv_timeout(Duration::from_secs(10)) {
                Ok(()) => {
                    // (a coalesced remote wake does not touch the driver flag: no flag obligation here)
                    d.owed = true;
                    "ok".into()
                }
                Err(_) => {
                    // the call cannot return (it spins on the full queue): abandon this helper thread
                    ex.tag("det:full-queue-spin");
                    HELPER.with(|h| *h.borrow_mut() = None);
                    "blocked".into()
                }
            }
        }
        ["lwake", t] => {
            let Some(wk) = t.parse().ok().and_then(|t: usize| d.task_waker(t)) else { return "bad-op".into() };
            d.b.rt.enter(|| wk.wake_by_ref());
            d.owed_flag = true;
            d.pushes_since_wake = 0;
            // same-thread wakes happen inside polls, i.e. inside `run`: not a point where the loop waits
            d.legit = false;
            "ok".into()
        }
        ["run"] => {
            d.w.log.lock().unwrap().clear();
            let hot = d.b.rt.enter(|| d.b.rt.run());
            d.legit = !hot;
            d.owed = false;
            d.flushed = false;
            d.reported = false;
            let log = d.w.log.lock().unwrap().clone();
            let l = if log.is_empty() { "-".to_string() } else { log.iter().map(|x| x.to_string()).collect::<Vec<_>>().join(",") };
            format!("polled {l} hot={}", hot as u8)
        }
        _ => "bad-op".into(),
    }
}

// ---------------------------------------------------------------------------------------------
// one-off experiment (not part of the generated cases): `cancelprobe <iour|poll>` in a replay file.
// Side observation of notes/C03.md: a remote `cancel()` that is coalesced on a waker thread spinning on the
// full queue, which then bails out on `is_cancelled()`: the task is cancelled + SCHEDULED but in no queue.
// ---------------------------------------------------------------------------------------------

struct DropFlag {
    inner: Parked,
    dropped: Arc<AtomicBool>,
}

impl Future for DropFlag {
    type Output = ();

    fn poll(mut self: Pin<&mut Self>, cx: &mut Context<'_>) -> Poll<()> {
        Pin::new(&mut self.inner).poll(cx)
    }
}

impl Drop for DropFlag {
    fn drop(&mut self) {
        self.dropped.store(true, SeqCst);
    }
}

fn cancel_probe(drv: DriverType) -> String {
    let Ok(b) = build(drv, 1, 61) else { return "probe skipped".into() };
    let w = World::new(3);
    let dropped = Arc::new(AtomicBool::new(false));
    b.rt.enter(|| b.rt.spawn(Parked::new(0, w.clone()))).detach();
    let handle = b.rt.enter(|| b.rt.spawn(DropFlag { inner: Parked::new(1, w.clone()), dropped: dropped.clone() }));
    while b.rt.enter(|| b.rt.run()) {}
    let wa = w.slots[0].waker.lock().unwrap().clone().unwrap();
    let wb = w.slots[1].waker.lock().unwrap().clone().unwrap();
    // thread 1: task 0 into the queue (capacity 1: full)
    std::thread::spawn(move || wa.wake_by_ref()).join().unwrap();
    // thread 2: wake task 1: SCHEDULED, reservation, queue full, spins
    let t2 = std::thread::spawn(move || wb.wake_by_ref());
    std::thread::sleep(Duration::from_millis(100));
    let spinning = !t2.is_finished();
    // thread 3: remote cancel (JoinHandle::drop = Task::cancel(true) = schedule() + set_cancelled)
    let t3 = std::thread::spawn(move || drop(handle));
    let t0 = Instant::now();
    while (!t3.is_finished() || !t2.is_finished()) && t0.elapsed() < Duration::from_secs(2) {
        std::thread::yield_now();
    }
    let both_returned = t2.is_finished() && t3.is_finished();
    // the runtime now runs for a while
    for _ in 0..50 {
        b.rt.enter(|| b.rt.run());
        b.rt.poll_with(Some(Duration::ZERO));
    }
    let before = dropped.load(SeqCst);
    let polls1 = w.slots[1].polls.load(SeqCst);
    w.stop.store(true, SeqCst);
    drop(b);
    let after = dropped.load(SeqCst);
    format!(
        "probe spinning={spinning} both_returned={both_returned} future_dropped_after_50_ticks={before} polls_of_task1={polls1} dropped_after_runtime_drop={after}"
    )
}

// ---------------------------------------------------------------------------------------------
// `turn <iour|poll> <api>`: the runtime blocks on a main future (own loop). In one of its turns another thread invokes
// the main future's waker (joined inside the turn), then — still in the same turn — a public Runtime method is called
// and the future returns Pending. The runtime must poll the main future again within the watchdog.
// Output `turn ok`; judgement: `C03:lost-wake`.
// ---------------------------------------------------------------------------------------------

fn turn_case(drv: DriverType, api: &str, ex: &mut Exec) {
    let (done_tx, done_rx) = mpsc::channel::<Result<Duration, String>>();
    let (wk_tx, wk_rx) = mpsc::channel::<Waker>();
    let api = api.to_string();
    let api2 = api.clone();
    let th = std::thread::spawn(move || {
        let b = match build(drv, 64, 61) {
            Ok(b) => b,
            Err(e) => {
                let _ = done_tx.send(Err(e));
                return;
            }
        };
        let mut st = ApiState::new();
        let mut turn = 0u32;
        let mut woken_at = None;
        let (ack_tx, ack_rx) = mpsc::channel::<()>();
        let finished = Arc::new(AtomicBool::new(false));
        let fin2 = finished.clone();
        // the helper of this turn: wakes when it gets the waker, acknowledges, later rescues
        let helper = std::thread::spawn(move || {
            let Ok(w) = wk_rx.recv_timeout(Duration::from_secs(10)) else { return };
            w.wake_by_ref();
            let _ = ack_tx.send(());
            // rescue after the watchdog so that the runtime thread can finish
            let t0 = Instant::now();
            while t0.elapsed() < Duration::from_millis(1500) {
                if fin2.load(SeqCst) {
                    return;
                }
                std::thread::sleep(Duration::from_millis(2));
            }
            w.wake();
        });
        let lat = b.rt.block_on(std::future::poll_fn(|cx| {
            turn += 1;
            match turn {
                1..=3 => {
                    cx.waker().wake_by_ref();
                    Poll::Pending
                }
                4 => {
                    let _ = wk_tx.send(cx.waker().clone());
                    let _ = ack_rx.recv_timeout(Duration::from_secs(10));
                    woken_at = Some(Instant::now());
                    Runtime::with_current(|r| call_api(r, &api2, &mut st));
                    Poll::Pending
                }
                _ => Poll::Ready(woken_at.map(|t: Instant| t.elapsed()).unwrap_or_default()),
            }
        }));
        finished.store(true, SeqCst);
        let keep = std::mem::take(&mut st.keep);
        b.rt.enter(|| drop(keep));
        let _ = done_tx.send(Ok(lat));
        let _ = helper.join();
    });
    match done_rx.recv_timeout(Duration::from_secs(15)) {
        Ok(Ok(lat)) => {
            if lat > Duration::from_millis(1000) {
                ex.fail(
                    "C03:lost-wake",
                    format!("main future woken from another thread during a turn that then called `{api}` and returned Pending: next poll only after {lat:?} (rescued by the second wake) on {drv:?}"),
                );
            }
            let _ = th.join();
        }
        Ok(Err(e)) => {
            ex.tag(format!("turn:skipped:{e}"));
            let _ = th.join();
        }
        Err(_) => ex.fail("C03:lost-wake", format!("turn with `{api}` on {drv:?}: the runtime never came back")),
    }
    ex.tag(format!("turn:{api}"));
}

// ---------------------------------------------------------------------------------------------
// (b) stress
// ---------------------------------------------------------------------------------------------

#[derive(Clone, Copy, PartialEq, Debug)]
enum LoopKind {
    Own,
    Ext,
}

struct StressCfg {
    drv: DriverType,
    lp: LoopKind,
    q: usize,
    iv: usize,
    tasks: usize,
    threads: usize,
    wakes: usize,
    rounds: usize,
    seed: u64,
    /// io_uring submission queue capacity
    cap: usize,
    /// operations every task submits at each poll (0 = none)
    push: usize,
}

fn parse_stress(toks: &[&str]) -> Option<StressCfg> {
    if !(toks.len() == 10 || toks.len() == 12) || toks[0] != "stress" {
        return None;
    }
    let (cap, push) = if toks.len() == 12 { (kv(toks[10], "cap")?, kv(toks[11], "push")?) } else { (16, 0) };
    if cap == 0 {
        return None;
    }
    Some(StressCfg {
        drv: drv_of(toks[1])?,
        lp: match toks[2] {
            "own" => LoopKind::Own,
            "ext" => LoopKind::Ext,
            _ => return None,
        },
        q: kv(toks[3], "q")?,
        iv: kv(toks[4], "iv")?,
        tasks: kv(toks[5], "tasks")?,
        threads: kv(toks[6], "threads")?,
        wakes: kv(toks[7], "wakes")?,
        rounds: kv(toks[8], "rounds")?,
        seed: kv(toks[9], "seed")? as u64,
        cap,
        push,
    })
}

/// the body of the runtime thread
type Handles = Vec<compio_runtime::JoinHandle<()>>;

fn rt_thread(cfg_drv: DriverType, lp: LoopKind, q: usize, iv: usize, tasks: usize, cap: usize, push: usize, w: Arc<World>, ready: mpsc::Sender<Result<Handles, String>>) {
    let b = match build_cap(cfg_drv, q, iv, cap as u32) {
        Ok(b) => b,
        Err(e) => {
            let _ = ready.send(Err(e));
            return;
        }
    };
    let main_idx = tasks;
    *w.slots[main_idx].waker.lock().unwrap() = Some(b.rt.waker());
    // the join handles go to the harness thread: dropping them there cancels the tasks, which frees waker threads
    // that spin on a full queue when the runtime is dead (only needed after a failure)
    let mut handles: Handles = vec![];
    for i in 0..tasks {
        let mut fut = Parked::new(i, w.clone());
        fut.push = push;
        handles.push(b.rt.enter(|| b.rt.spawn(fut)));
    }
    let _ = ready.send(Ok(handles));
    let main = Parked::new(main_idx, w.clone());
    match lp {
        LoopKind::Own => {
            b.rt.block_on(main);
        }
        LoopKind::Ext => {
            // compio-compat `RuntimeCompat::drive`, with poll(2) as the external event loop
            let waker = b.rt.waker();
            let mut cx = Context::from_waker(&waker);
            let mut fut = std::pin::pin!(main);
            loop {
                if let Poll::Ready(()) = b.rt.enter(|| fut.as_mut().poll(&mut cx)) {
                    b.rt.enter(|| b.rt.run());
                    break;
                }
                let mut remaining = b.rt.enter(|| b.rt.run());
                remaining |= b.rt.flush();
                let timeout = if remaining { 0 } else { -1 };
                readable(b.wait_fd(), timeout);
                b.clear();
                b.rt.poll_with(Some(Duration::ZERO));
            }
        }
    }
    // let the tasks complete (stop is set) so that nothing is left spinning on a full queue
    let t0 = Instant::now();
    while t0.elapsed() < Duration::from_millis(200) {
        b.rt.enter(|| b.rt.run());
        if w.slots[..tasks].iter().all(|s| s.polls.load(SeqCst) > 0) {
            break;
        }
    }
}

fn satisfied(w: &World, targets: &[usize]) -> Option<usize> {
    targets.iter().copied().find(|&i| w.slots[i].seen.load(SeqCst) < w.slots[i].req.load(SeqCst))
}

fn wait_satisfied(w: &World, targets: &[usize], limit: Duration) -> Option<usize> {
    let t0 = Instant::now();
    let mut spins = 0u32;
    loop {
        match satisfied(w, targets) {
            None => return None,
            Some(i) => {
                if t0.elapsed() > limit {
                    return Some(i);
                }
            }
        }
        spins += 1;
        if spins < 200 {
            std::hint::spin_loop();
        } else if spins < 2000 {
            std::thread::yield_now();
        } else {
            std::thread::sleep(Duration::from_micros(200));
        }
    }
}

static HARD_FAIL: AtomicBool = AtomicBool::new(false);

fn stress(cfg: &StressCfg, ex: &mut Exec) {
    if HARD_FAIL.load(SeqCst) {
        ex.tag("stress:skipped-after-hard-failure");
        return;
    }
    let n = cfg.tasks + 1;
    let w = World::new(n);
    let (tx, rx) = mpsc::channel();
    let (drv, lp, q, iv, tasks) = (cfg.drv, cfg.lp, cfg.q, cfg.iv, cfg.tasks);
    let w2 = w.clone();
    let (cap, push) = (cfg.cap, cfg.push);
    let rt_handle = std::thread::spawn(move || rt_thread(drv, lp, q, iv, tasks, cap, push, w2, tx));
    let handles = match rx.recv_timeout(Duration::from_secs(5)) {
        Ok(Ok(h)) => h,
        Ok(Err(e)) => {
            ex.tag(format!("stress:skipped:{e}"));
            let _ = rt_handle.join();
            return;
        }
        Err(_) => {
            ex.fail("C03:harness", "runtime thread did not start");
            return;
        }
    };
    // wait until every future has parked once (wakers known)
    let all: Vec<usize> = (0..n).collect();
    let t0 = Instant::now();
    while w.slots.iter().any(|s| s.waker.lock().unwrap().is_none() || s.polls.load(SeqCst) == 0) {
        if t0.elapsed() > Duration::from_secs(5) {
            ex.fail("C03:harness", "futures were not polled at start");
            return;
        }
        std::thread::yield_now();
    }
    let _ = all;
    let wakers: Arc<Vec<Waker>> = Arc::new(w.slots.iter().map(|s| s.waker.lock().unwrap().clone().unwrap()).collect());
    let mut rng = Rng::new(cfg.seed);
    let sig = if cfg.push > 0 {
        // tasks submit operations on a small submission queue: its overflow path reaps completions mid-tick
        "C03:lost-wake-after-sq-overflow"
    } else if lp == LoopKind::Own {
        "C03:lost-wake"
    } else {
        "C03:external-loop-lost-wake"
    };
    let mut lost = false;
    let barrier_ctr = Arc::new(AtomicUsize::new(0));
    for round in 0..cfg.rounds {
        // random phase: let the runtime go to sleep (or not)
        match rng.below(4) {
            0 => {}
            1 => std::thread::yield_now(),
            2 => std::thread::sleep(Duration::from_micros(rng.range(1, 80))),
            _ => {
                let t = Instant::now();
                let d = Duration::from_nanos(rng.range(100, 30_000));
                while t.elapsed() < d {
                    std::hint::spin_loop();
                }
            }
        }
        // plan
        let mut plans: Vec<Vec<(usize, u32)>> = vec![];
        let mut targets: Vec<usize> = vec![];
        let focus_main = rng.chance(1, 5);
        for _ in 0..cfg.threads {
            let mut p = vec![];
            for _ in 0..cfg.wakes {
                let t = if focus_main || cfg.tasks == 0 || rng.chance(1, 6) { cfg.tasks } else { rng.below(cfg.tasks as u64) as usize };
                let delay = if rng.chance(1, 3) { rng.below(400) as u32 } else { 0 };
                p.push((t, delay));
                if !targets.contains(&t) {
                    targets.push(t);
                }
            }
            plans.push(p);
        }
        barrier_ctr.store(0, SeqCst);
        let mut hs = vec![];
        for p in plans {
            let w = w.clone();
            let wakers = wakers.clone();
            let bc = barrier_ctr.clone();
            let k = cfg.threads;
            hs.push(std::thread::spawn(move || {
                bc.fetch_add(1, SeqCst);
                while bc.load(SeqCst) < k {
                    std::hint::spin_loop();
                }
                for (t, delay) in p {
                    for _ in 0..delay {
                        std::hint::spin_loop();
                    }
                    w.slots[t].req.fetch_add(1, SeqCst);
                    wakers[t].wake_by_ref();
                }
            }));
        }
        // all wake() calls must return (a waker thread spinning on a full queue needs the runtime to drain)
        let t0 = Instant::now();
        let mut stuck = false;
        while hs.iter().any(|h| !h.is_finished()) {
            if t0.elapsed() > Duration::from_secs(1) {
                stuck = true;
                break;
            }
            std::thread::yield_now();
        }
        let ctx = format!("drv={:?} loop={:?} q={} tasks={} threads={}", cfg.drv, cfg.lp, cfg.q, cfg.tasks, cfg.threads);
        if stuck {
            // a wake() call is still spinning on the full queue after 1 s. Wake the driver by hand once: if the
            // call returns now, the runtime was asleep with a full queue (nobody told it after the last push).
            wakers[cfg.tasks].wake_by_ref();
            let t1 = Instant::now();
            while hs.iter().any(|h| !h.is_finished()) && t1.elapsed() < Duration::from_secs(1) {
                std::thread::yield_now();
            }
            let freed = hs.iter().all(|h| h.is_finished());
            let detail = format!("round {round}: a wake() call did not return within 1 s (spinning on the full sync queue); {ctx}; after a manual driver wake: {}", if freed { "returned" } else { "still spinning" });
            if freed {
                ex.fail("F030:wake-stranded-in-sync-queue", detail);
                ex.tag("stress:stranded");
            } else {
                ex.fail("C03:waker-thread-stuck", detail);
                lost = true;
            }
            for h in hs {
                if h.is_finished() {
                    let _ = h.join();
                }
            }
            break;
        }
        for h in hs {
            let _ = h.join();
        }
        if let Some(i) = wait_satisfied(&w, &targets, Duration::from_millis(1000)) {
            // not polled within the watchdog. Wake the driver by hand once: if the future is polled now,
            // its id was sitting in the sync queue with the runtime asleep.
            let what = if i == cfg.tasks { "main".to_string() } else { format!("task{i}") };
            let (req, seen) = (w.slots[i].req.load(SeqCst), w.slots[i].seen.load(SeqCst));
            wakers[cfg.tasks].wake_by_ref();
            let after = wait_satisfied(&w, &targets, Duration::from_millis(1000));
            let detail = format!(
                "round {round}: {what} woken (request {req}) but its last poll saw request {seen} after 1 s; {ctx}; after a manual driver wake: {}",
                if after.is_none() { "polled" } else { "still not polled" }
            );
            if after.is_none() && i != cfg.tasks {
                ex.fail("F030:wake-stranded-in-sync-queue", detail);
                ex.tag("stress:stranded");
            } else {
                ex.fail(sig, detail);
                lost = true;
            }
            break;
        }
    }
    // shut down
    w.stop.store(true, SeqCst);
    if lost {
        // the runtime is dead (or a waker thread cannot return): every task waker may now spin forever on the full
        // queue, so nothing here may call one on this thread. Cancel the tasks from a detached thread (frees the
        // spinners whose SCHEDULED bit is set) and do not start further stress cases in this process.
        HARD_FAIL.store(true, SeqCst);
        std::thread::spawn(move || drop(handles));
    } else {
        // task wakers from a detached thread (they cannot block on a healthy runtime), the driver waker from here
        let wk2 = wakers.clone();
        let ntasks = cfg.tasks;
        std::thread::spawn(move || {
            for wk in wk2.iter().take(ntasks) {
                wk.wake_by_ref();
            }
        });
        let t0 = Instant::now();
        while !rt_handle.is_finished() && t0.elapsed() < Duration::from_secs(3) {
            wakers[cfg.tasks].wake_by_ref();
            std::thread::sleep(Duration::from_millis(1));
        }
        if rt_handle.is_finished() {
            let _ = rt_handle.join();
            drop(handles);
        } else {
            ex.fail(sig, "runtime thread did not finish after stop + wake");
            HARD_FAIL.store(true, SeqCst);
            std::thread::spawn(move || drop(handles));
        }
    }
    ex.tag(format!("stress:{:?}:{:?}:q{}{}", cfg.drv, cfg.lp, cfg.q, if cfg.push > 0 { format!(":cap{}", cfg.cap) } else { String::new() }).to_lowercase());
}

// ---------------------------------------------------------------------------------------------
// case execution
// ---------------------------------------------------------------------------------------------

fn exec(case: &Case) -> Exec {
    let mut ex = Exec::new();
    let mut det: Option<Det> = None;
    let mut ops = 0;
    for line in &case.lines {
        let toks: Vec<&str> = line.split_whitespace().collect();
        let out = match toks.first().copied() {
            Some("new") if (5..=7).contains(&toks.len()) => {
                if let Some(d) = det.take() {
                    d.finish();
                }
                let cap = if toks.len() >= 6 { kv(toks[5], "cap") } else { Some(16) };
                let cq = if toks.len() == 7 { kv(toks[6], "cq") } else { Some(256) };
                let Some(cq) = cq else {
                    ex.out.push("bad-op".to_string());
                    continue;
                };
                match (drv_of(toks[1]), kv(toks[2], "q"), kv(toks[3], "iv"), kv(toks[4], "tasks"), cap) {
                    (Some(drv), Some(q), Some(iv), Some(n), Some(cap)) if q >= 1 && cap >= 1 => match Det::new(drv, q, iv, n, cap as u32, cq as u32) {
                        Ok(d) => {
                            det = Some(d);
                            ex.tag(format!("det:{}", toks[1]));
                            "ok".to_string()
                        }
                        Err(e) => format!("err {e}"),
                    },
                    _ => "bad-op".to_string(),
                }
            }
            Some("cancelprobe") if toks.len() == 2 => match drv_of(toks[1]) {
                Some(d) => {
                    let r = cancel_probe(d);
                    eprintln!("{r}");
                    ex.tag(r);
                    "probe done".to_string()
                }
                None => "bad-op".to_string(),
            },
            Some("turn") if toks.len() == 3 => match drv_of(toks[1]) {
                Some(d) if toks[2] == "none" || APIS.contains(&toks[2]) => {
                    turn_case(d, toks[2], &mut ex);
                    ex.nontrivial = true;
                    "turn ok".to_string()
                }
                _ => "bad-op".to_string(),
            },
            Some("stress") => {
                match parse_stress(&toks) {
                    Some(cfg) => {
                        stress(&cfg, &mut ex);
                        ex.nontrivial = true;
                        "round ok".to_string()
                    }
                    None => "bad-op".to_string(),
                }
            }
            _ => match det.as_mut() {
                Some(d) => {
                    ops += 1;
                    ex.tag(format!("op:{}", toks.first().copied().unwrap_or("")));
                    det_op(d, line, &mut ex)
                }
                None => "bad-op".to_string(),
            },
        };
        ex.out.push(out);
    }
    if let Some(d) = det.take() {
        d.finish();
    }
    if ops >= 3 {
        ex.nontrivial = true;
    }
    ex
}

fn gen_det(rng: &mut Rng, name: String) -> Case {
    let drv = *rng.pick(&["iour", "poll"]);
    let q = *rng.pick(&[1usize, 1, 2, 3, 64]);
    let iv = *rng.pick(&[1usize, 2, 3, 61]);
    let tasks = rng.below(5) as usize;
    let cap = *rng.pick(&[1usize, 2, 4, 16, 16]);
    let mut lines = vec![format!("new {drv} q={q} iv={iv} tasks={tasks} cap={cap}")];
    let n = rng.range(4, 24);
    // upper bound on the length of the sync queue (remote wakes since the last drain)
    let mut queued = 0usize;
    // a waker was invoked since the flag was last reset: a timed poll returns at once (keeps the cases fast)
    let mut notified = false;
    let mut timed = 0;
    for _ in 0..n {
        let r = rng.below(112);
        let op = if r >= 106 {
            format!("api {}", rng.pick(APIS_DET))
        } else if r >= 100 {
            format!("push {}", rng.range(1, 7))
        } else if r < 3 && notified && timed < 2 {
            notified = false;
            timed += 1;
            "pollt 300".to_string()
        } else if r < 14 {
            notified = true;
            if rng.chance(1, 4) { "wakex".to_string() } else { "wake".to_string() }
        } else if r < 32 {
            notified = false;
            "flush".to_string()
        } else if r < 46 {
            notified = false;
            "poll0".to_string()
        } else if r < 60 {
            "fd".to_string()
        } else if r < 66 {
            "ring".to_string()
        } else if r < 70 {
            "clear".to_string()
        } else if r < 82 && tasks > 0 {
            if queued >= q {
                // the queue may be full: such a call would spin until the runtime drains (covered by the stress rounds)
                continue;
            }
            queued += 1;
            format!("twake {}", rng.below(tasks as u64))
        } else if r < 88 && tasks > 0 {
            queued = 0;
            notified = true;
            format!("lwake {}", rng.below(tasks as u64))
        } else {
            queued = 0;
            "run".to_string()
        };
        lines.push(op);
    }
    Case { name, lines }
}

fn generate(tier: &str, rng: &mut Rng) -> Vec<Case> {
    let mut cases = vec![];
    let thorough = tier == "thorough";
    // hand-picked handshakes first (F16: fresh runtime, flush, wake, the fd must be readable)
    let mut k = 0;
    for drv in ["iour", "poll"] {
        for prog in [
            &["flush", "wake", "fd", "ring", "clear", "poll0", "fd", "ring"][..],
            &["wake", "fd", "flush", "fd", "ring", "poll0", "flush", "fd"][..],
            &["poll0", "wake", "fd", "ring", "flush", "fd"][..],
            &["wake", "poll0", "wake", "ring", "flush", "fd", "flush", "fd"][..],
            &["flush", "fd", "wake", "wake", "fd", "flush", "wake", "fd", "clear", "fd", "ring", "poll0", "ring"][..],
            &["twake 0", "fd", "flush", "fd", "run", "twake 0", "twake 1", "run", "run"][..],
            &["flush", "twake 1", "fd", "clear", "poll0", "run", "flush", "fd"][..],
            &["lwake 0", "lwake 1", "fd", "run", "run", "flush", "fd"][..],
            &["twake 0", "twake 0", "lwake 0", "run", "twake 0", "run"][..],
        ] {
            let mut lines = vec![format!("new {drv} q=2 iv=1 tasks=2")];
            lines.extend(prog.iter().map(|s| s.to_string()));
            cases.push(Case { name: format!("hand-{k}"), lines });
            k += 1;
        }
    }
    // submission-queue overflow between a wake and the next park (seed C03-a): timed-out poll (flag IDLE, notifier
    // armed), cross-thread wake (eventfd + NOTIFY completion), k pushes on a queue of capacity 1/2/4 (the overflow
    // path of push_raw reaps the completion), then the runtime parks / flushes / looks at its descriptors
    let n_sq = if thorough { 400 } else { 60 };
    for i in 0..n_sq {
        let drv = if i % 5 == 4 { "poll" } else { "iour" };
        let cap = *rng.pick(&[1usize, 2, 4]);
        let mut lines = vec![format!("new {drv} q=64 iv=61 tasks={} cap={cap}", rng.below(3))];
        if rng.chance(1, 3) {
            lines.push("flush".into());
        }
        lines.push(if rng.chance(1, 4) { "push 1".into() } else { "poll0".into() });
        if rng.chance(1, 2) {
            lines.push("poll0".into());
        }
        lines.push(if rng.chance(2, 3) { "wakex".into() } else { "wake".into() });
        if rng.chance(1, 3) {
            lines.push("ring".into());
        }
        lines.push(format!("push {}", rng.range(0, 9)));
        match rng.below(4) {
            0 => {
                lines.push("flush".into());
                lines.push("fd".into());
            }
            1 => {
                lines.push("ring".into());
                lines.push("fd".into());
                lines.push("pollt 300".into());
            }
            _ => lines.push("pollt 300".into()),
        }
        lines.push("ring".into());
        if rng.chance(1, 2) {
            lines.push("wake".into());
            lines.push(format!("push {}", rng.range(0, 6)));
            lines.push("flush".into());
        }
        cases.push(Case { name: format!("sq-{i}"), lines });
    }
    // the kernel terminates the notifier's multishot poll (final completion without MORE) when a wake arrives while the
    // completion queue is full of unreaped completions (seed C03-3b): small ring with the DEFAULT CQ (2 * capacity),
    // rounds of "push `capacity` reads of /dev/zero, flush" until the CQ is full, a remote wake, reap everything, then k
    // blocking polls each of which must be ended by a remote wake. Only operations whose output does not depend on
    // how many completions the kernel merged (no fd / ring).
    let n_cqf = if thorough { 60 } else { 10 };
    for i in 0..n_cqf {
        let cap = *rng.pick(&[1usize, 2, 2, 4]);
        let mut lines = vec![format!("new iour q=64 iv=61 tasks=0 cap={cap} cq=0")];
        lines.push("poll0".into());
        if rng.chance(1, 2) {
            lines.push("pollw 2000".into());
            lines.push("poll0".into());
        }
        // fill the CQ (2 * cap entries), sometimes more than full
        let fills = 2 + rng.below(2) as usize;
        for _ in 0..fills {
            lines.push(format!("pushz {cap}"));
            lines.push("flush".into());
        }
        lines.push(if rng.chance(3, 4) { "wakex".into() } else { "wake".into() });
        for _ in 0..(3 + rng.below(3)) {
            lines.push("poll0".into());
        }
        for _ in 0..(2 + rng.below(2)) {
            lines.push("pollw 2000".into());
            if rng.chance(1, 2) {
                lines.push("poll0".into());
            }
        }
        cases.push(Case { name: format!("cqfull-{i}"), lines });
    }
    // wake-consuming sites (seed C03-4b): after a wake, a public Runtime method that is not a poll, then the runtime
    // parks / flushes: the notification must still be there. Deterministic programs (flag oracle) ...
    for drv in ["iour", "poll"] {
        for api in APIS_DET {
            for tail in [&["pollt 300"][..], &["flush", "fd"][..], &["push 1", "pollt 300"][..]] {
                let mut lines = vec![format!("new {drv} q=64 iv=61 tasks=1 cap=16")];
                lines.push("poll0".into());
                if rng.chance(1, 2) {
                    lines.push("run".into());
                }
                lines.push(if rng.chance(1, 2) { "wakex".into() } else { "wake".into() });
                lines.push(format!("api {api}"));
                if rng.chance(1, 3) {
                    lines.push(format!("api {}", rng.pick(APIS_DET)));
                }
                lines.extend(tail.iter().map(|s| s.to_string()));
                cases.push(Case { name: format!("api-{drv}-{api}-{}", tail.len() + tail[0].len()), lines });
            }
        }
    }
    // ... and the same inside a turn of the main future of a runtime blocked in its own loop
    for drv in ["iour", "poll"] {
        for api in std::iter::once(&"none").chain(APIS.iter()) {
            cases.push(Case { name: format!("turn-{drv}-{api}"), lines: vec![format!("turn {drv} {api}")] });
        }
    }
    let n_det = if thorough { 20_000 } else { 1_500 };
    for i in 0..n_det {
        cases.push(gen_det(rng, format!("det-{i}")));
    }
    // (b) stress: a few configurations, many short rounds
    let rounds = if thorough { 4000 } else { 300 };
    let mut k = 0;
    for drv in ["iour", "poll"] {
        for lp in ["own", "ext"] {
            for (q, tasks, threads) in [(1usize, 3usize, 3usize), (2, 4, 3), (64, 3, 4), (1, 1, 2)] {
                let iv = *rng.pick(&[1usize, 2, 61]);
                let seed = rng.next() % 1_000_000;
                cases.push(Case {
                    name: format!("stress-{k}"),
                    lines: vec![format!("stress {drv} {lp} q={q} iv={iv} tasks={tasks} threads={threads} wakes={} rounds={rounds} seed={seed}", rng.range(1, 4))],
                });
                k += 1;
            }
        }
    }
    // small submission queue + tasks that submit operations at every poll, while wakes arrive
    for (drv, lp, cap, push, iv) in [("iour", "own", 1usize, 2usize, 1usize), ("iour", "own", 2, 3, 1), ("iour", "own", 4, 3, 2), ("iour", "ext", 2, 3, 1), ("poll", "own", 2, 2, 1)] {
        let seed = rng.next() % 1_000_000;
        cases.push(Case {
            name: format!("stress-sq-{k}"),
            lines: vec![format!("stress {drv} {lp} q=64 iv={iv} tasks=3 threads=3 wakes=2 rounds={rounds} seed={seed} cap={cap} push={push}")],
        });
        k += 1;
    }
    cases
}

fn main() {
    run_harness(generate, exec, "a stress case (cross-thread rounds on the real runtime) or a deterministic program with at least 3 operations after `new`");
}
