// temporary probe
use std::{
    num::NonZeroUsize,
    sync::{
        Arc,
        atomic::{AtomicUsize, Ordering},
    },
    task::{Context, Wake, Waker},
    time::{Duration, Instant},
};

use compio_dispatcher::Dispatcher;
use compio_runtime::Runtime;

struct Bomb;
impl Wake for Bomb {
    fn wake(self: Arc<Self>) {
        panic!("bomb");
    }
}

fn main() {
    std::panic::set_hook(Box::new(|_| {}));
    let rt = Runtime::new().unwrap();
    // 1. task panic
    rt.block_on(async {
        let d = Dispatcher::builder()
            .worker_threads(NonZeroUsize::new(2).unwrap())
            .thread_names(|i| format!("c18w{i}"))
            .build()
            .unwrap();
        let rx = d.dispatch(|| async { panic!("task panic") }).unwrap();
        let rx2 = d.dispatch(|| async { std::thread::current().name().map(|s| s.to_string()) }).unwrap();
        println!("panic task rx: {:?}", rx.await.map(|_: ()| ()));
        println!("rx2: {:?}", rx2.await);
        let r = hx_common::catch(|| futures_util::FutureExt::now_or_never(async { 1 }));
        let _ = r;
        let t0 = Instant::now();
        let res = d.join().await;
        println!("join: {:?} in {:?}", res, t0.elapsed());
    });
    // 2. bomb
    let r = hx_common::catch(|| {
        rt.block_on(async {
            let d = Dispatcher::builder()
                .worker_threads(NonZeroUsize::new(1).unwrap())
                .build()
                .unwrap();
            let rx = d
                .dispatch(|| async {
                    let mut s = std::pin::pin!(compio_runtime::time::sleep(Duration::from_millis(2)));
                    let w = Waker::from(Arc::new(Bomb));
                    let mut cx = Context::from_waker(&w);
                    let _ = s.as_mut().poll(&mut cx);
                    std::future::pending::<()>().await;
                })
                .unwrap();
            println!("bomb rx: {:?}", rx.await);
            let r2 = d.dispatch(|| async { 5 });
            println!("dispatch after death: {:?}", r2.is_ok());
            let res = d.join().await;
            println!("join: {:?}", res);
        })
    });
    println!("bomb outer: {:?}", r);
    // 3. backlog
    for n in [10usize, 61, 62, 100, 300] {
        for conc in [true, false] {
            rt.block_on(async {
                let d = Dispatcher::builder()
                    .worker_threads(NonZeroUsize::new(1).unwrap())
                    .concurrent(conc)
                    .build()
                    .unwrap();
                let started = Arc::new(AtomicUsize::new(0));
                let mut rxs = vec![];
                for _ in 0..n {
                    let st = started.clone();
                    rxs.push(
                        d.dispatch(move || async move {
                            st.fetch_add(1, Ordering::SeqCst);
                            7
                        })
                        .unwrap(),
                    );
                }
                let res = d.join().await;
                let mut vals = 0;
                let mut canc = 0;
                for rx in rxs {
                    match rx.await {
                        Ok(_) => vals += 1,
                        Err(_) => canc += 1,
                    }
                }
                println!(
                    "backlog n={n} conc={conc}: join {:?} started {} vals {vals} canc {canc}",
                    res,
                    started.load(Ordering::SeqCst)
                );
            });
        }
    }
    use std::future::Future;
}
