//! C18 correspondence harness: the real `compio_dispatcher::Dispatcher` (worker threads each running a
//! compio runtime, flume MPMC queue, oneshot result channels, `join`) driven by text operations; the model
//! side is lean/Drivers/C18.lean (Model/Dispatcher.lean, Model/DispatcherTrace.lean).
//!
//! Two kinds of cases:
//!
//! * **det** cases (`cfg` / `d` / `b` / `drop` / `wait` / `join` / `rx` / `stat` / `order` / `alive` lines):
//!   one dispatching thread (the harness thread, inside a compio runtime). The generator only asks for facts
//!   that do not depend on the schedule (rules in `gen_det`), so the Lean driver predicts every output line
//!   exactly by running a canonical schedule of the transition system.
//! * **conc** cases (one `hist …` line): 1..8 workers, 1..8 dispatching threads, both modes, join at
//!   various points. The schedule is not controlled: `generate` runs the real dispatcher, records the
//!   observable events in one global order (dispatch intent / accepted / rejected, start(worker, task), body
//!   end, blocking closure ran, worker-thread panic, join called / returned, worker threads still alive,
//!   receiver got value / cancellation / nothing), and the line is judged twice: by the
//!   implementation-only oracle `judge_hist` here (monitors) and by the Lean trace acceptor, which replays
//!   it on the model (`accept` / `reject <why>`).
//!
//! Task bodies: a list of suspensions (`y` yield, `s` 1 ms timer, `t` 2 ms timer, `i` pipe I/O through
//! compio-fs) and an end: `v<n>` return n, `p` panic, `n` sleep 30 s (outlives the case), `b` "bomb": arms
//! a compio timer with a waker that panics, i.e. makes the *worker thread* panic outside of any task.
//!
//! Monitors (implementation only): `C18:started-twice`, `C18:never-started` / `C18:unfinished-at-join`
//! (sequential mode, no worker died), `C18:overlap` (sequential mode, per-worker gauge), `C18:foreign-thread`
//! (a task ran on a thread that is not a worker of this dispatcher), `C18:wrong-result`,
//! `C18:spurious-cancel` (receiver cancelled although nothing dropped the task), `C18:receiver-hang`,
//! `C18:join-result` (worker panic not re-raised / spurious), `C18:worker-alive-after-join`,
//! `C18:join-hang`.
#![allow(clippy::too_many_arguments)]

use std::{
    collections::{BTreeMap, BTreeSet, HashMap},
    future::Future,
    num::NonZeroUsize,
    panic::AssertUnwindSafe,
    pin::{Pin, pin},
    sync::{
        Arc, Mutex,
        atomic::{AtomicU32, AtomicUsize, Ordering},
    },
    task::{Context, Poll, Wake, Waker},
    thread,
    time::{Duration, Instant},
};

use compio_dispatcher::Dispatcher;
use compio_driver::ProactorBuilder;
use compio_io::{AsyncReadExt, AsyncWriteExt};
use compio_runtime::Runtime;
use futures_channel::oneshot;
use futures_util::FutureExt;
use hx_common::*;

const WATCHDOG: Duration = Duration::from_secs(5);
const JOIN_WATCHDOG: Duration = Duration::from_secs(10);
const NEVER: Duration = Duration::from_secs(30);
const MAX_TASKS: usize = 512;
const MAX_WORKERS: usize = 8;

static RUN_ID: AtomicU32 = AtomicU32::new(1);
/// watchdog expiries so far in this process: after a few of them the remaining waits are cut short, so that a
/// run against a broken implementation (every other case hanging) still ends in minutes
static HANGS: AtomicUsize = AtomicUsize::new(0);
/// ... those among them that expired while det cases were executed
static EXEC_HANGS: AtomicUsize = AtomicUsize::new(0);

/// replay of a recorded case (`--replay`, used by the shrinker of ./check dozens of times on a failing input):
/// a case that resolves does so within milliseconds, so shorter bounded waits decide just as well
static REPLAY: std::sync::atomic::AtomicBool = std::sync::atomic::AtomicBool::new(false);

fn watchdog() -> Duration {
    if HANGS.load(Ordering::Relaxed) >= 3 {
        Duration::from_millis(100)
    } else if REPLAY.load(Ordering::Relaxed) {
        Duration::from_millis(1500)
    } else {
        WATCHDOG
    }
}

fn join_watchdog() -> Duration {
    if HANGS.load(Ordering::Relaxed) >= 3 {
        Duration::from_millis(300)
    } else if REPLAY.load(Ordering::Relaxed) {
        Duration::from_millis(2500)
    } else {
        JOIN_WATCHDOG
    }
}

// ---------------------------------------------------------------------------------------------
// what a task does
// ---------------------------------------------------------------------------------------------

#[derive(Clone, Copy, PartialEq, Eq, Debug)]
enum End {
    Val(u64),
    Panic,
    Never,
    /// yields for ever, never parks (until the harness' stop flag)
    Spin,
    Bomb,
}

#[derive(Clone, Debug)]
struct Spec {
    t: usize,
    susp: String,
    end: End,
}

fn parse_end(s: &str) -> Option<End> {
    match s {
        "p" => Some(End::Panic),
        "n" => Some(End::Never),
        "z" => Some(End::Spin),
        "b" => Some(End::Bomb),
        _ => s.strip_prefix('v').and_then(|v| v.parse().ok()).map(End::Val),
    }
}

fn show_end(e: End) -> String {
    match e {
        End::Val(v) => format!("v{v}"),
        End::Panic => "p".into(),
        End::Never => "n".into(),
        End::Spin => "z".into(),
        End::Bomb => "b".into(),
    }
}

#[derive(Default)]
struct Counters {
    started: AtomicUsize,
    ended: AtomicUsize,
    workers: Mutex<Vec<usize>>,
}

/// Everything the task bodies of one dispatcher report to.
struct Ctx {
    run: u32,
    sequential: bool,
    record: bool,
    log: Mutex<Vec<String>>,
    order: Mutex<Vec<usize>>,
    tasks: Vec<Counters>,
    gauge: Vec<AtomicUsize>,
    problems: Mutex<Vec<(String, String)>>,
    /// worker-thread panics made by bomb wakers: (worker, payload)
    died: Mutex<Vec<(usize, usize)>>,
    /// kernel thread ids that appeared while the dispatcher was built (a superset of its workers)
    worker_tids: Mutex<Vec<u64>>,
    /// gated blocking closures (`g` lines) keep their pool thread busy until this is set
    gate: std::sync::atomic::AtomicBool,
    /// ends the bodies that yield for ever (`z`)
    stop: std::sync::atomic::AtomicBool,
}

impl Ctx {
    fn new(sequential: bool, record: bool) -> Arc<Self> {
        Arc::new(Ctx {
            run: RUN_ID.fetch_add(1, Ordering::Relaxed) % 1_000_000,
            sequential,
            record,
            log: Mutex::new(vec![]),
            order: Mutex::new(vec![]),
            tasks: (0..MAX_TASKS).map(|_| Counters::default()).collect(),
            gauge: (0..MAX_WORKERS).map(|_| AtomicUsize::new(0)).collect(),
            problems: Mutex::new(vec![]),
            died: Mutex::new(vec![]),
            worker_tids: Mutex::new(vec![]),
            gate: std::sync::atomic::AtomicBool::new(false),
            stop: std::sync::atomic::AtomicBool::new(false),
        })
    }

    fn prefix(&self) -> String {
        format!("c18.{}.", self.run)
    }

    fn problem(&self, sig: &str, detail: String) {
        self.problems.lock().unwrap().push((sig.to_string(), detail));
    }

    fn push(&self, tok: String) {
        if self.record {
            self.log.lock().unwrap().push(tok);
        }
    }

    /// index of the worker thread we are on, from the thread name given through `thread_names`
    fn worker(&self) -> Option<usize> {
        let cur = thread::current();
        let name = cur.name()?;
        name.strip_prefix(&self.prefix())?.parse().ok()
    }
}

/// Marks "task `t` is between start and end on worker `w`"; dropped with the task.
struct RunGuard {
    ctx: Arc<Ctx>,
    w: usize,
}

impl Drop for RunGuard {
    fn drop(&mut self) {
        if self.w < MAX_WORKERS {
            self.ctx.gauge[self.w].fetch_sub(1, Ordering::SeqCst);
        }
    }
}

struct YieldNow(bool);
impl Future for YieldNow {
    type Output = ();

    fn poll(mut self: Pin<&mut Self>, cx: &mut Context<'_>) -> Poll<()> {
        if self.0 {
            Poll::Ready(())
        } else {
            self.0 = true;
            cx.waker().wake_by_ref();
            Poll::Pending
        }
    }
}

/// A suspension that depends on wake-ups from a foreign thread. Poll 1 hands the task's waker to a helper
/// std thread, which wakes the parked task (wake 1). Poll 2 -- caused by wake 1 -- hands the waker over again and
/// stays inside `poll` until the helper has called `wake()` (wake 2, delivered while the task is being polled),
/// then returns `Pending`: only wake 2 can bring poll 3, which is `Ready`. All waits are bounded.
struct RemoteWoken {
    ctx: Arc<Ctx>,
    t: usize,
    polls: u8,
    /// back-to-back `wake()` calls per wake-up (`r`: 1, `R`: 2 -- the second one finds the task already scheduled)
    burst: usize,
    to_helper: Option<std::sync::mpsc::Sender<Waker>>,
    woken: Option<std::sync::mpsc::Receiver<()>>,
}

impl RemoteWoken {
    fn new(ctx: Arc<Ctx>, t: usize, burst: usize) -> Self {
        RemoteWoken { ctx, t, polls: 0, burst, to_helper: None, woken: None }
    }
}

impl Future for RemoteWoken {
    type Output = ();

    fn poll(mut self: Pin<&mut Self>, cx: &mut Context<'_>) -> Poll<()> {
        self.polls += 1;
        match self.polls {
            1 => {
                let (to_helper, from_task) = std::sync::mpsc::channel::<Waker>();
                let (woken_tx, woken_rx) = std::sync::mpsc::channel::<()>();
                let ctx = self.ctx.clone();
                let t = self.t;
                let burst = self.burst;
                thread::spawn(move || {
                    let Ok(waker) = from_task.recv_timeout(Duration::from_secs(10)) else { return };
                    // let the task return `Pending` and its worker go to sleep
                    thread::sleep(Duration::from_micros(300));
                    for _ in 0..burst {
                        ctx.push(format!("k.{t}"));
                        waker.wake_by_ref();
                    }
                    drop(waker);
                    let Ok(waker) = from_task.recv_timeout(Duration::from_secs(10)) else { return };
                    for _ in 0..burst {
                        ctx.push(format!("k.{t}"));
                        waker.wake_by_ref();
                    }
                    drop(waker);
                    woken_tx.send(()).ok();
                });
                to_helper.send(cx.waker().clone()).ok();
                self.to_helper = Some(to_helper);
                self.woken = Some(woken_rx);
                Poll::Pending
            }
            2 => {
                if let Some(tx) = &self.to_helper {
                    tx.send(cx.waker().clone()).ok();
                }
                let ok = self.woken.as_ref().is_some_and(|rx| rx.recv_timeout(Duration::from_secs(5)).is_ok());
                if !ok {
                    self.ctx.problem("C18:harness-helper", format!("task {}: the helper thread did not wake in time", self.t));
                }
                Poll::Pending
            }
            _ => Poll::Ready(()),
        }
    }
}

struct BombWaker {
    ctx: Arc<Ctx>,
    t: usize,
}

impl Wake for BombWaker {
    fn wake(self: Arc<Self>) {
        let w = self.ctx.worker().unwrap_or(99);
        {
            // one lock: the log entry is in place before the unwinding starts
            let mut log = self.ctx.log.lock().unwrap();
            self.ctx.died.lock().unwrap().push((w, self.t));
            if self.ctx.record {
                log.push(format!("x.{w}.{}", self.t));
            }
        }
        panic!("bomb {}", self.t);
    }
}

async fn pipe_io(t: usize) {
    let (mut rx, mut tx) = compio_fs::pipe::anonymous().await.expect("pipe");
    let msg = vec![t as u8, 0x5a];
    tx.write_all(msg.clone()).await.0.expect("pipe write");
    let (_, buf) = rx.read_exact(Vec::with_capacity(2)).await.unwrap();
    assert_eq!(buf, msg);
}

async fn body(ctx: Arc<Ctx>, spec: Spec) -> u64 {
    let t = spec.t;
    let w = match ctx.worker() {
        Some(w) => w,
        None => {
            ctx.problem(
                "C18:foreign-thread",
                format!("task {t} started on thread {:?}, not a worker of this dispatcher", thread::current().name()),
            );
            usize::MAX
        }
    };
    // ---- start
    {
        let mut log = ctx.log.lock().unwrap();
        ctx.tasks[t].started.fetch_add(1, Ordering::SeqCst);
        ctx.tasks[t].workers.lock().unwrap().push(w);
        ctx.order.lock().unwrap().push(t);
        if ctx.record {
            log.push(format!("s.{w}.{t}"));
        }
    }
    let _guard = RunGuard { ctx: ctx.clone(), w };
    if w < MAX_WORKERS {
        let before = ctx.gauge[w].fetch_add(1, Ordering::SeqCst);
        if ctx.sequential && before != 0 {
            ctx.problem("C18:overlap", format!("worker {w}: task {t} started while {before} other task(s) were running"));
        }
    }
    for c in spec.susp.chars() {
        match c {
            'y' => YieldNow(false).await,
            's' => compio_runtime::time::sleep(Duration::from_millis(1)).await,
            't' => compio_runtime::time::sleep(Duration::from_millis(2)).await,
            'i' => pipe_io(t).await,
            'r' => RemoteWoken::new(ctx.clone(), t, 1).await,
            'R' => RemoteWoken::new(ctx.clone(), t, 2).await,
            _ => {}
        }
    }
    match spec.end {
        End::Never => {
            compio_runtime::time::sleep(NEVER).await;
            0
        }
        End::Spin => {
            // always runnable: every poll wakes itself. Ends only when the harness says so (cleanup, or after
            // a join that did not come back), bounded by the clock as well.
            let t0 = Instant::now();
            while !ctx.stop.load(Ordering::SeqCst) && t0.elapsed() < NEVER {
                YieldNow(false).await;
            }
            0
        }
        End::Bomb => {
            let mut s = pin!(compio_runtime::time::sleep(Duration::from_millis(2)));
            let waker = Waker::from(Arc::new(BombWaker { ctx: ctx.clone(), t }));
            let mut cx = Context::from_waker(&waker);
            let _ = s.as_mut().poll(&mut cx);
            std::future::pending::<()>().await;
            0
        }
        End::Val(v) => {
            let mut log = ctx.log.lock().unwrap();
            ctx.tasks[t].ended.fetch_add(1, Ordering::SeqCst);
            if ctx.record {
                log.push(format!("f.{t}"));
            }
            v
        }
        End::Panic => {
            {
                let mut log = ctx.log.lock().unwrap();
                ctx.tasks[t].ended.fetch_add(1, Ordering::SeqCst);
                if ctx.record {
                    log.push(format!("f.{t}"));
                }
            }
            panic!("task {t} panics")
        }
    }
}

/// a blocking closure that occupies its pool thread until the gate opens (bounded: 20 s)
fn gated_body(ctx: &Ctx, t: usize, end: End) -> u64 {
    let v = blocking_body(ctx, t, end);
    let t0 = Instant::now();
    while !ctx.gate.load(Ordering::SeqCst) && t0.elapsed() < Duration::from_secs(20) {
        thread::sleep(Duration::from_micros(200));
    }
    v
}

fn blocking_body(ctx: &Ctx, t: usize, end: End) -> u64 {
    {
        let mut log = ctx.log.lock().unwrap();
        ctx.tasks[t].started.fetch_add(1, Ordering::SeqCst);
        ctx.tasks[t].ended.fetch_add(1, Ordering::SeqCst);
        if ctx.worker().is_some() {
            ctx.problem("C18:foreign-thread", format!("blocking task {t} ran on a worker thread"));
        }
        if ctx.record {
            log.push(format!("B.{t}"));
        }
    }
    match end {
        End::Val(v) => v,
        _ => panic!("blocking task {t} panics"),
    }
}

// ---------------------------------------------------------------------------------------------
// building a dispatcher from a `cfg` line
// ---------------------------------------------------------------------------------------------

struct Cfg {
    w: usize,
    conc: bool,
    stack: Option<usize>,
    affinity: bool,
    capacity: Option<u32>,
    poll_driver: bool,
    /// `ProactorBuilder::thread_pool_limit` of the pool shared by the dispatcher and its workers
    pool_limit: Option<usize>,
    /// `dc`: `DispatcherBuilder::concurrent` is NOT called -- the builder's default mode is used, which the `cfg`
    /// line (and so the Lean model) takes to be concurrent (`Gen.DispatcherLoop.defaultConcurrent`)
    default_mode: bool,
}

fn parse_cfg(ws: &[&str]) -> Option<Cfg> {
    let w: usize = ws.first()?.parse().ok()?;
    let conc = match *ws.get(1)? {
        "c" => true,
        "s" => false,
        _ => return None,
    };
    if w == 0 || w > MAX_WORKERS {
        return None;
    }
    let mut cfg = Cfg { w, conc, stack: None, affinity: false, capacity: None, poll_driver: false, pool_limit: None, default_mode: false };
    for o in &ws[2..] {
        if let Some(v) = o.strip_prefix("stack=") {
            cfg.stack = v.parse().ok();
        } else if *o == "aff" {
            cfg.affinity = true;
        } else if *o == "dc" {
            if !conc {
                return None;
            }
            cfg.default_mode = true;
        } else if let Some(v) = o.strip_prefix("cap=") {
            cfg.capacity = v.parse().ok();
        } else if *o == "drv=poll" {
            cfg.poll_driver = true;
        } else if let Some(v) = o.strip_prefix("pool=") {
            cfg.pool_limit = v.parse().ok();
        }
    }
    Some(cfg)
}

fn task_ids() -> Vec<u64> {
    let mut v = vec![];
    if let Ok(rd) = std::fs::read_dir("/proc/self/task") {
        for e in rd.flatten() {
            if let Some(t) = e.file_name().to_str().and_then(|s| s.parse().ok()) {
                v.push(t);
            }
        }
    }
    v
}

fn build(cfg: &Cfg, ctx: &Arc<Ctx>) -> std::io::Result<Dispatcher> {
    let before = task_ids();
    let d = build_inner(cfg, ctx);
    let new: Vec<u64> = task_ids().into_iter().filter(|t| !before.contains(t)).collect();
    *ctx.worker_tids.lock().unwrap() = new;
    d
}

fn build_inner(cfg: &Cfg, ctx: &Arc<Ctx>) -> std::io::Result<Dispatcher> {
    let prefix = ctx.prefix();
    let mut b = Dispatcher::builder()
        .worker_threads(NonZeroUsize::new(cfg.w).unwrap())
        .thread_names(move |i| format!("{prefix}{i}"));
    if !cfg.default_mode {
        b = b.concurrent(cfg.conc);
    }
    if let Some(s) = cfg.stack {
        b = b.stack_size(s);
    }
    if cfg.affinity {
        // every worker may run on every cpu we are allowed on: exercises the option without pinning
        let n = thread::available_parallelism().map(|n| n.get()).unwrap_or(1);
        b = b.thread_affinity(move |_| (0..n).collect());
    }
    if cfg.capacity.is_some() || cfg.poll_driver || cfg.pool_limit.is_some() {
        let mut pb = ProactorBuilder::new();
        if let Some(l) = cfg.pool_limit {
            pb.thread_pool_limit(l);
        }
        if let Some(c) = cfg.capacity {
            pb.capacity(c);
        }
        if cfg.poll_driver {
            pb.driver_type(compio_driver::DriverType::Poll);
        }
        b = b.proactor_builder(pb);
    }
    b.build()
}

/// worker threads of this dispatcher that are still running user code.
///
/// Candidates are the kernel threads that appeared while the dispatcher was built and carry its thread-name
/// prefix (threads of the blocking pool spawned later by a worker inherit the worker's `comm`, so the name
/// alone is not enough). `pthread_join` returns as soon as the kernel has cleared the thread's tid futex, a
/// moment before the task disappears from /proc: a thread that has entered `do_exit` carries `PF_EXITING`
/// (0x4) in the flags field of its stat line from the very beginning of its exit path (before the futex is
/// cleared), so a joined thread is never counted, and a worker that has not finished always is.
fn alive_workers(ctx: &Ctx) -> usize {
    const PF_EXITING: u64 = 0x4;
    let prefix = ctx.prefix();
    let mut n = 0;
    for tid in ctx.worker_tids.lock().unwrap().iter() {
        let dir = format!("/proc/self/task/{tid}");
        let Ok(comm) = std::fs::read_to_string(format!("{dir}/comm")) else { continue };
        if !comm.trim_end().starts_with(&prefix) {
            continue;
        }
        let Ok(stat) = std::fs::read_to_string(format!("{dir}/stat")) else { continue };
        let Some((_, rest)) = stat.rsplit_once(") ") else { continue };
        let f: Vec<&str> = rest.split(' ').collect();
        let state = f.first().and_then(|s| s.chars().next()).unwrap_or('?');
        let flags: u64 = f.get(6).and_then(|x| x.parse().ok()).unwrap_or(0);
        if state != 'Z' && state != 'X' && flags & PF_EXITING == 0 {
            n += 1;
        }
    }
    n
}

fn bomb_payload(msg: &str) -> Option<usize> {
    msg.strip_prefix("bomb ").and_then(|t| t.parse().ok())
}

fn panic_text(e: Box<dyn std::any::Any + Send>) -> String {
    if let Some(s) = e.downcast_ref::<&str>() {
        s.to_string()
    } else if let Some(s) = e.downcast_ref::<String>() {
        s.clone()
    } else {
        "panic".into()
    }
}

#[derive(Clone, Copy, PartialEq, Eq, Debug)]
enum Seen {
    Val(u64),
    Cancelled,
    Hang,
}

fn show_seen(s: Seen) -> String {
    match s {
        Seen::Val(v) => format!("val {v}"),
        Seen::Cancelled => "cancelled".into(),
        Seen::Hang => "hang".into(),
    }
}

// ---------------------------------------------------------------------------------------------
// det cases
// ---------------------------------------------------------------------------------------------

struct Det {
    ctx: Arc<Ctx>,
    cfg: Option<Cfg>,
    disp: Option<Dispatcher>,
    specs: BTreeMap<usize, (End, bool)>, // end, blocking
    accepted: BTreeSet<usize>,
    rxs: BTreeMap<usize, oneshot::Receiver<u64>>,
    seen: BTreeMap<usize, Seen>,
    joined: Option<String>,
    /// gated blocking closures (they cannot resolve before `release`)
    gated: BTreeSet<usize>,
}

impl Det {
    fn dispatch(&mut self, spec: Spec) -> String {
        let Some(d) = &self.disp else { return "no-dispatcher".into() };
        let ctx = self.ctx.clone();
        let t = spec.t;
        self.specs.insert(t, (spec.end, false));
        match d.dispatch(move || body(ctx, spec)) {
            Ok(rx) => {
                self.accepted.insert(t);
                self.rxs.insert(t, rx);
                "acc".into()
            }
            Err(e) => {
                drop(e.0);
                "rej".into()
            }
        }
    }

    fn dispatch_blocking(&mut self, t: usize, end: End, gated: bool) -> String {
        let Some(d) = &self.disp else { return "no-dispatcher".into() };
        let ctx = self.ctx.clone();
        self.specs.insert(t, (end, true));
        if gated {
            self.gated.insert(t);
        }
        match d.dispatch_blocking(move || if gated { gated_body(&ctx, t, end) } else { blocking_body(&ctx, t, end) }) {
            Ok(rx) => {
                self.accepted.insert(t);
                self.rxs.insert(t, rx);
                "acc".into()
            }
            Err(_) => "rej".into(),
        }
    }

    async fn wait(&mut self, t: usize, ex: &mut Exec) -> String {
        if let Some(s) = self.seen.get(&t) {
            return show_seen(*s);
        }
        let Some(rx) = self.rxs.remove(&t) else { return "unknown".into() };
        let seen = match compio_runtime::time::timeout(watchdog(), rx).await {
            Ok(Ok(v)) => Seen::Val(v),
            Ok(Err(_)) => Seen::Cancelled,
            Err(_) => {
                HANGS.fetch_add(1, Ordering::Relaxed);
                EXEC_HANGS.fetch_add(1, Ordering::Relaxed);
                Seen::Hang
            }
        };
        self.seen.insert(t, seen);
        self.check_seen(t, seen, ex);
        show_seen(seen)
    }

    fn check_seen(&self, t: usize, seen: Seen, ex: &mut Exec) {
        let (end, _) = self.specs[&t];
        match (seen, end) {
            (Seen::Val(v), End::Val(x)) if v == x => {}
            // a yielding body that was told to stop (after a join that did not come back) returns 0
            (Seen::Val(0), End::Spin) if self.ctx.stop.load(Ordering::SeqCst) => {}
            (Seen::Val(v), _) => ex.fail("C18:wrong-result", format!("receiver of task {t} ({end:?}) got {v}")),
            (Seen::Cancelled, End::Val(_)) if self.joined.is_none() && !self.any_bomb() => {
                ex.fail("C18:spurious-cancel", format!("receiver of task {t} cancelled before join, no panic involved"))
            }
            (Seen::Cancelled, End::Val(_))
                if self.joined.is_some() && self.ctx.sequential && self.ctx.died.lock().unwrap().is_empty() =>
            {
                ex.fail(
                    "C18:spurious-cancel",
                    format!("sequential mode, no worker died: receiver of task {t} cancelled although join returned"),
                )
            }
            (Seen::Hang, _) if self.joined.is_some() => {
                ex.fail("C18:receiver-hang", format!("receiver of task {t} unresolved {WATCHDOG:?} after join returned"))
            }
            (Seen::Hang, _) => ex.fail(
                "C18:receiver-hang-before-join",
                format!("receiver of task {t} unresolved after {WATCHDOG:?} (join not called)"),
            ),
            _ => {}
        }
    }

    fn any_bomb(&self) -> bool {
        self.specs.values().any(|(e, _)| *e == End::Bomb)
    }

    async fn join(&mut self, ex: &mut Exec) -> String {
        let Some(d) = self.disp.take() else { return "no-dispatcher".into() };
        let jw = join_watchdog();
        let res = compio_runtime::time::timeout(jw, AssertUnwindSafe(d.join()).catch_unwind()).await;
        let out = match res {
            Err(_) => {
                HANGS.fetch_add(1, Ordering::Relaxed);
                EXEC_HANGS.fetch_add(1, Ordering::Relaxed);
                self.ctx.stop.store(true, Ordering::SeqCst);
                ex.fail("C18:join-hang", format!("join did not return within {jw:?}"));
                "hang".to_string()
            }
            Ok(Ok(Ok(()))) => "ok".to_string(),
            Ok(Ok(Err(e))) => format!("err {:?}", e.kind()),
            Ok(Err(p)) => {
                let msg = panic_text(p);
                match bomb_payload(&msg) {
                    Some(t) => format!("panic {t}"),
                    None => format!("panic ? {msg}"),
                }
            }
        };
        self.joined = Some(out.clone());
        // ---- monitors at join return
        let alive = alive_workers(&self.ctx);
        if alive != 0 && out != "hang" {
            ex.fail("C18:worker-alive-after-join", format!("{alive} worker thread(s) still exist after join returned"));
            ex.fail(
                "C18:join-returned-early",
                format!("join returned ({out}) while {alive} worker thread(s) were still running"),
            );
        }
        if out.starts_with("err") {
            ex.fail("C18:join-result", format!("join failed with an io error ({out}): it must wait for the workers, also when the blocking pool is saturated"));
        }
        let died = !self.ctx.died.lock().unwrap().is_empty();
        let bombs_started = self
            .specs
            .iter()
            .filter(|(t, (e, _))| *e == End::Bomb && self.ctx.tasks[**t].started.load(Ordering::SeqCst) > 0)
            .count();
        if out == "ok" && died {
            ex.fail("C18:join-result", "a worker thread panicked but join returned Ok".to_string());
        }
        if out.starts_with("panic") && !died {
            ex.fail("C18:join-result", format!("join resumed a panic ({out}) although no worker thread panicked"));
        }
        if self.ctx.sequential && bombs_started > 0 && out == "ok" {
            ex.fail("C18:join-result", "sequential mode: a worker was inside a bomb task, join returned Ok".to_string());
        }
        if self.ctx.sequential && !died && out != "hang" {
            for t in &self.accepted {
                let (_, blocking) = self.specs[t];
                if blocking {
                    continue;
                }
                let st = self.ctx.tasks[*t].started.load(Ordering::SeqCst);
                let en = self.ctx.tasks[*t].ended.load(Ordering::SeqCst);
                if st == 0 {
                    ex.fail("C18:never-started", format!("sequential mode: accepted task {t} was never started although join returned"));
                } else if en == 0 {
                    ex.fail("C18:unfinished-at-join", format!("sequential mode: task {t} had not finished when join returned"));
                }
                if st == 0 || en == 0 {
                    ex.fail(
                        "C18:join-returned-early",
                        format!("sequential mode: join returned ({out}) while accepted task {t} was unfinished"),
                    );
                }
            }
        }
        // every remaining receiver must resolve now
        let open = self.ctx.gate.load(Ordering::SeqCst);
        let pending: Vec<usize> = self.rxs.keys().copied().filter(|t| open || !self.gated.contains(t)).collect();
        for t in pending {
            let _ = self.wait(t, ex).await;
        }
        out
    }

    fn final_monitors(&mut self, ex: &mut Exec) {
        for (t, (_, blocking)) in &self.specs {
            let st = self.ctx.tasks[*t].started.load(Ordering::SeqCst);
            if st > 1 {
                ex.fail("C18:started-twice", format!("task {t} was started {st} times"));
            }
            if st > 0 && !self.accepted.contains(t) {
                ex.fail("C18:started-unaccepted", format!("task {t} was rejected by dispatch but ran"));
            }
            let ws = self.ctx.tasks[*t].workers.lock().unwrap();
            if !*blocking && ws.len() != st {
                ex.fail("C18:started-twice", format!("task {t}: workers {ws:?} for {st} start(s)"));
            }
        }
        for (sig, detail) in self.ctx.problems.lock().unwrap().drain(..) {
            ex.fail(sig, detail);
        }
        // not a failure of C18 as stated ("joined first => cancellation"), but worth counting: concurrent
        // mode, join returned, an accepted task was never started (more than 61 spawned tasks were waiting
        // for their first poll when the worker left its loop)
        if !self.ctx.sequential && self.joined.is_some() {
            let n = self
                .accepted
                .iter()
                .filter(|t| !self.specs[*t].1 && self.ctx.tasks[**t].started.load(Ordering::SeqCst) == 0)
                .count();
            if n > 0 {
                ex.tag("det:dropped-unstarted-at-join");
            }
        }
    }
}

fn exec_det(rt: &Runtime, case: &Case) -> Exec {
    let mut ex = Exec::new();
    let is_hist = case.lines.iter().all(|l| l.starts_with("hist "));
    if EXEC_HANGS.load(Ordering::Relaxed) >= 8 && !REPLAY.load(Ordering::Relaxed) && !is_hist {
        // eight watchdogs have expired in det cases (each reported by a monitor): the run has failed; hung worker threads may still be spinning. The
        // remaining cases are not executed (their lines read `skipped`, which no model output equals).
        ex.out = case.lines.iter().map(|_| "skipped".to_string()).collect();
        ex.tag("skipped-after-hangs");
        return ex;
    }
    let mut d = Det {
        ctx: Ctx::new(false, false),
        cfg: None,
        disp: None,
        specs: BTreeMap::new(),
        accepted: BTreeSet::new(),
        rxs: BTreeMap::new(),
        seen: BTreeMap::new(),
        joined: None,
        gated: BTreeSet::new(),
    };
    let mut outs = vec![];
    rt.block_on(async {
        for line in &case.lines {
            let ws: Vec<&str> = line.split_whitespace().collect();
            let out = match ws.as_slice() {
                ["hist", rest @ ..] => judge_hist(rest, &mut ex),
                ["cfg", rest @ ..] => match parse_cfg(rest) {
                    Some(cfg) if d.cfg.is_none() => {
                        d.ctx = Ctx::new(!cfg.conc, false);
                        // the bomb waker logs its firing even in det cases (used as "a worker died")
                        match build(&cfg, &d.ctx) {
                            Ok(disp) => {
                                d.disp = Some(disp);
                                ex.tag(format!("w:{}", cfg.w));
                                ex.tag(if cfg.conc { "mode:concurrent" } else { "mode:sequential" });
                                d.cfg = Some(cfg);
                                "ok".to_string()
                            }
                            Err(e) => format!("err {:?}", e.kind()),
                        }
                    }
                    _ => "bad-op".into(),
                },
                ["d", t, susp, end, ..] => match (t.parse::<usize>(), parse_end(end)) {
                    (Ok(t), Some(end)) if t < MAX_TASKS && !d.specs.contains_key(&t) => {
                        ex.tag(format!("body:{}", show_end(end).chars().next().unwrap()));
                        let susp = if *susp == "-" { String::new() } else { susp.to_string() };
                        if susp.contains('r') || susp.contains('R') {
                            ex.tag("susp:remote-wake");
                        }
                        d.dispatch(Spec { t, susp, end })
                    }
                    _ => "bad-op".into(),
                },
                ["b", t, end] => match (t.parse::<usize>(), parse_end(end)) {
                    (Ok(t), Some(end)) if t < MAX_TASKS && !d.specs.contains_key(&t) => {
                        ex.tag("body:blocking");
                        d.dispatch_blocking(t, end, false)
                    }
                    _ => "bad-op".into(),
                },
                ["g", t, end] => match (t.parse::<usize>(), parse_end(end)) {
                    (Ok(t), Some(end)) if t < MAX_TASKS && !d.specs.contains_key(&t) => {
                        ex.tag("body:gated-blocking");
                        d.dispatch_blocking(t, end, true)
                    }
                    _ => "bad-op".into(),
                },
                ["release"] => {
                    d.ctx.gate.store(true, Ordering::SeqCst);
                    "ok".into()
                }
                ["drop", t] => match t.parse::<usize>() {
                    Ok(t) if d.rxs.remove(&t).is_some() => "ok".into(),
                    _ => "bad-op".into(),
                },
                ["wait", t] | ["rx", t] => match t.parse::<usize>() {
                    Ok(t) => {
                        let o = d.wait(t, &mut ex).await;
                        ex.tag(format!("rx:{}", o.split(' ').next().unwrap()));
                        o
                    }
                    _ => "bad-op".into(),
                },
                ["join"] | ["join", "f"] => {
                    if ws.len() == 2 {
                        ex.tag("join:pool-saturated");
                    }
                    let o = d.join(&mut ex).await;
                    ex.tag(format!("join:{}", o.split(' ').next().unwrap()));
                    o
                }
                ["stat", t] => match t.parse::<usize>() {
                    Ok(t) if t < MAX_TASKS => format!(
                        "started {} on {} ended {}",
                        d.ctx.tasks[t].started.load(Ordering::SeqCst),
                        d.ctx.tasks[t].workers.lock().unwrap().iter().filter(|w| **w != usize::MAX).count(),
                        d.ctx.tasks[t].ended.load(Ordering::SeqCst)
                    ),
                    _ => "bad-op".into(),
                },
                ["order"] => {
                    let o = d.ctx.order.lock().unwrap();
                    let mut s = String::from("order");
                    for t in o.iter() {
                        s.push_str(&format!(" {t}"));
                    }
                    s
                }
                ["alive"] => format!("alive {}", alive_workers(&d.ctx)),
                _ => "bad-op".into(),
            };
            outs.push(out);
        }
        // never leave worker or pool threads behind
        d.ctx.gate.store(true, Ordering::SeqCst);
        if d.disp.is_some() && d.ctx.sequential {
            // (a sequential worker would await a yielding body for ever)
            d.ctx.stop.store(true, Ordering::SeqCst);
        }
        if d.disp.is_some() {
            let mut scratch = Exec::new();
            let _ = d.join(&mut scratch).await;
            ex.failures.extend(scratch.failures);
        }
    });
    d.final_monitors(&mut ex);
    ex.out = outs;
    let n_disp = case.lines.iter().filter(|l| l.starts_with("d ")).count();
    ex.nontrivial = case.lines.iter().any(|l| l.starts_with("hist "))
        || (n_disp >= 2 && case.lines.iter().any(|l| l == "join"));
    ex
}

// ---------------------------------------------------------------------------------------------
// implementation-only judge of a recorded history
// ---------------------------------------------------------------------------------------------

fn judge_hist(ws: &[&str], ex: &mut Exec) -> String {
    let mut verdict: Option<String> = None;
    let mut bad = |ex: &mut Exec, sig: &str, detail: String| {
        ex.fail(sig, detail);
        if verdict.is_none() {
            verdict = Some(format!("reject {sig}"));
        }
    };
    let (Some(w), Some(mode)) = (ws.first().and_then(|w| w.parse::<usize>().ok()), ws.get(1)) else {
        return "bad-op".into();
    };
    let conc = *mode == "c";
    ex.tag(format!("hist:w{w}"));
    ex.tag(if conc { "hist:concurrent" } else { "hist:sequential" });
    let mut ends: HashMap<usize, End> = HashMap::new();
    let mut blocking: BTreeSet<usize> = BTreeSet::new();
    let mut accepted: BTreeSet<usize> = BTreeSet::new();
    let mut rejected: BTreeSet<usize> = BTreeSet::new();
    let mut started: HashMap<usize, usize> = HashMap::new(); // task -> worker
    let mut finished: BTreeSet<usize> = BTreeSet::new();
    let mut resolved: BTreeSet<usize> = BTreeSet::new();
    let mut running: Vec<Option<usize>> = vec![None; MAX_WORKERS + 1];
    let mut died: Vec<(usize, usize)> = vec![]; // (worker, payload)
    let mut join_called = false;
    let mut join_ret = false;
    let mut threads: BTreeSet<String> = BTreeSet::new();
    for tok in &ws[2..] {
        let p: Vec<&str> = tok.split('.').collect();
        let num = |i: usize| p.get(i).and_then(|x| x.parse::<usize>().ok());
        match p[0] {
            "i" => {
                if let (Some(t), Some(e)) = (num(1), p.get(3).and_then(|e| parse_end(e))) {
                    ends.insert(t, e);
                }
                if let Some(th) = p.get(4) {
                    threads.insert(th.to_string());
                }
            }
            "I" => {
                if let (Some(t), Some(e)) = (num(1), p.get(2).and_then(|e| parse_end(e))) {
                    ends.insert(t, e);
                    blocking.insert(t);
                }
            }
            "a" => {
                accepted.insert(num(1).unwrap_or(0));
            }
            "r" => {
                let t = num(1).unwrap_or(0);
                rejected.insert(t);
                if !blocking.contains(&t) && died.len() < w {
                    bad(ex, "C18:spurious-reject", format!("dispatch of task {t} refused while a worker was alive"));
                }
            }
            "s" => {
                let (wk, t) = (num(1).unwrap_or(MAX_WORKERS), num(2).unwrap_or(0));
                if started.contains_key(&t) {
                    bad(ex, "C18:started-twice", format!("task {t} started on worker {} and again on {wk}", started[&t]));
                }
                if rejected.contains(&t) || !ends.contains_key(&t) {
                    bad(ex, "C18:started-unaccepted", format!("task {t} ran although dispatch did not accept it"));
                }
                if wk >= w {
                    bad(ex, "C18:foreign-thread", format!("task {t} started on a thread that is not a worker"));
                }
                started.insert(t, wk);
                let wk = wk.min(MAX_WORKERS);
                if !conc {
                    if let Some(u) = running[wk] {
                        bad(ex, "C18:overlap", format!("worker {wk}: task {t} started while task {u} was running"));
                    }
                }
                running[wk] = Some(t);
            }
            "f" => {
                let t = num(1).unwrap_or(0);
                finished.insert(t);
                if let Some(wk) = started.get(&t) {
                    let wk = (*wk).min(MAX_WORKERS);
                    if running[wk] == Some(t) {
                        running[wk] = None;
                    }
                }
            }
            "B" => {
                let t = num(1).unwrap_or(0);
                if started.contains_key(&t) {
                    bad(ex, "C18:started-twice", format!("blocking task {t} ran twice"));
                }
                started.insert(t, usize::MAX);
                finished.insert(t);
            }
            "x" => {
                let (wk, pl) = (num(1).unwrap_or(MAX_WORKERS), num(2).unwrap_or(0));
                died.push((wk, pl));
                if wk <= MAX_WORKERS {
                    running[wk] = None;
                }
            }
            "g" => {
                let (t, v) = (num(1).unwrap_or(0), num(2).unwrap_or(0) as u64);
                resolved.insert(t);
                if ends.get(&t) == Some(&End::Spin) && v == 0 {
                    // told to stop after a join that did not come back (reported as join-hang)
                } else if ends.get(&t) != Some(&End::Val(v)) || !finished.contains(&t) {
                    bad(ex, "C18:wrong-result", format!("receiver of task {t} ({:?}) got {v}", ends.get(&t)));
                }
            }
            "c" => {
                let t = num(1).unwrap_or(0);
                resolved.insert(t);
                let end = ends.get(&t).copied();
                let own_panic = end == Some(End::Panic) && finished.contains(&t);
                let worker_died = started.get(&t).is_some_and(|wk| died.iter().any(|(d, _)| d == wk));
                let ok = own_panic || worker_died || (join_called && (conc || !died.is_empty() || end == Some(End::Panic)));
                if finished.contains(&t) && end != Some(End::Panic) {
                    bad(ex, "C18:wrong-result", format!("task {t} ran to completion but its receiver was cancelled"));
                } else if !ok {
                    bad(ex, "C18:spurious-cancel", format!("receiver of task {t} cancelled: nothing dropped the task (join called: {join_called})"));
                }
            }
            "h" => {
                let t = num(1).unwrap_or(0);
                resolved.insert(t);
                if join_ret {
                    bad(ex, "C18:receiver-hang", format!("receiver of task {t} unresolved after join returned"));
                } else {
                    bad(ex, "C18:receiver-hang-before-join", format!("receiver of task {t} unresolved (join not returned)"));
                }
            }
            "k" => {
                ex.tag("hist:remote-wake");
            }
            "J" | "JF" => {
                join_called = true;
                if p[0] == "JF" {
                    ex.tag("hist:pool-saturated");
                }
            }
            "R" => {
                join_ret = true;
                if !join_called {
                    bad(ex, "C18:join-result", "join returned before it was called".into());
                }
                let expect = died.iter().min().map(|(_, p)| *p);
                let got = match p.get(1) {
                    Some(&"ok") => Ok(None),
                    Some(s) if s.starts_with('p') => s[1..].parse::<usize>().map(Some).map_err(|e| e.to_string()),
                    other => Err(format!("{other:?}")),
                };
                match got {
                    Ok(g) if g == expect => {}
                    _ => bad(ex, "C18:join-result", format!("join returned {:?}, worker panics (worker, payload): {died:?}", p.get(1))),
                }
                if !conc && died.is_empty() {
                    for t in &accepted {
                        if blocking.contains(t) {
                            continue;
                        }
                        if !started.contains_key(t) {
                            bad(ex, "C18:never-started", format!("sequential mode: accepted task {t} was never started although join returned"));
                        } else if !finished.contains(t) {
                            bad(ex, "C18:unfinished-at-join", format!("sequential mode: task {t} had not finished when join returned"));
                        }
                        if !finished.contains(t) {
                            bad(ex, "C18:join-returned-early", format!("sequential mode: join returned while accepted task {t} was unfinished"));
                        }
                    }
                }
                if !conc {
                    if let Some((wk, Some(u))) = running.iter().enumerate().find(|(_, r)| r.is_some()) {
                        bad(ex, "C18:unfinished-at-join", format!("sequential mode: worker {wk} was inside task {u} when join returned"));
                    }
                }
            }
            "L" => {
                let n = num(1).unwrap_or(99);
                if n != 0 {
                    bad(ex, "C18:worker-alive-after-join", format!("{n} worker thread(s) still exist after join returned"));
                    bad(ex, "C18:join-returned-early", format!("join returned while {n} worker thread(s) were still running"));
                }
            }
            "Rhang" => bad(ex, "C18:join-hang", "join did not return".into()),
            "P" => bad(ex, p.get(1).copied().unwrap_or("C18:problem"), p.get(2).copied().unwrap_or("").replace('_', " ")),
            _ => return "bad-op".into(),
        }
    }
    if join_ret {
        for t in &accepted {
            if !blocking.contains(t) && !resolved.contains(t) {
                bad(ex, "C18:receiver-hang", format!("receiver of task {t} was never reported"));
            }
        }
    }
    ex.tag(format!("hist:threads{}", threads.len()));
    if !died.is_empty() {
        ex.tag("hist:worker-died");
    }
    if conc && join_ret && accepted.iter().any(|t| !blocking.contains(t) && !started.contains_key(t)) {
        // not a failure of C18 as stated (join first => cancellation), but worth counting
        ex.tag("hist:dropped-unstarted-at-join");
    }
    verdict.unwrap_or_else(|| "accept".into())
}

// ---------------------------------------------------------------------------------------------
// conc cases: run the real dispatcher and record a history
// ---------------------------------------------------------------------------------------------

struct ThreadWaker(thread::Thread);
impl Wake for ThreadWaker {
    fn wake(self: Arc<Self>) {
        self.0.unpark();
    }
}

/// tiny executor for the dispatching threads (a `oneshot::Receiver` needs no runtime)
fn block_on_timeout<F: Future>(f: F, dur: Duration) -> Option<F::Output> {
    let mut f = pin!(f);
    let waker = Waker::from(Arc::new(ThreadWaker(thread::current())));
    let mut cx = Context::from_waker(&waker);
    let deadline = Instant::now() + dur;
    loop {
        if let Poll::Ready(v) = f.as_mut().poll(&mut cx) {
            return Some(v);
        }
        let now = Instant::now();
        if now >= deadline {
            return None;
        }
        thread::park_timeout(deadline - now);
    }
}

#[derive(Clone, Debug)]
struct PlanTask {
    spec: Spec,
    blocking: bool,
    /// pause before the dispatch: 0 none, 1 yield, 2 ~100 µs sleep
    pause: u8,
    /// the dispatching thread awaits the receiver itself before it finishes
    wait: bool,
}

#[derive(Clone, Copy, PartialEq, Eq, Debug)]
enum JoinAt {
    Immediately,
    AfterSleep(u64),
    AfterResults,
}

fn log_seen(ctx: &Ctx, t: usize, r: Option<Result<u64, oneshot::Canceled>>) {
    ctx.push(match r {
        Some(Ok(v)) => format!("g.{t}.{v}"),
        Some(Err(_)) => format!("c.{t}"),
        None => format!("h.{t}"),
    });
}

fn run_conc(rt: &Runtime, cfg: &Cfg, plan: Vec<Vec<PlanTask>>, join_at: JoinAt) -> String {
    let ctx = Ctx::new(!cfg.conc, true);
    let disp = Arc::new(build(cfg, &ctx).expect("build dispatcher"));
    // a limited pool is saturated by gated blocking closures (ids 400..) before anything else happens: `join`
    // will find no pool thread for its joiner closure. The gate opens after join has returned.
    let saturated = cfg.pool_limit.is_some();
    let mut gate_rx: Vec<(usize, oneshot::Receiver<u64>)> = vec![];
    for k in 0..cfg.pool_limit.unwrap_or(0) {
        let t = 400 + k;
        ctx.push(format!("I.{t}.v{t}"));
        let c2 = ctx.clone();
        match disp.dispatch_blocking(move || gated_body(&c2, t, End::Val(t as u64))) {
            Ok(rx) => {
                ctx.push(format!("a.{t}"));
                gate_rx.push((t, rx));
            }
            Err(_) => ctx.push(format!("r.{t}")),
        }
    }
    let mut handles = vec![];
    for (th, tasks) in plan.into_iter().enumerate() {
        let ctx = ctx.clone();
        let disp = disp.clone();
        handles.push(thread::spawn(move || {
            let mut mine: Vec<(usize, bool, oneshot::Receiver<u64>)> = vec![];
            for pt in tasks {
                match pt.pause {
                    1 => thread::yield_now(),
                    2 => thread::sleep(Duration::from_micros(100)),
                    _ => {}
                }
                let t = pt.spec.t;
                let end = pt.spec.end;
                let res = if pt.blocking {
                    ctx.push(format!("I.{t}.{}", show_end(end)));
                    let c2 = ctx.clone();
                    disp.dispatch_blocking(move || blocking_body(&c2, t, end)).map_err(|_| ())
                } else {
                    let susp = if pt.spec.susp.is_empty() { "-".to_string() } else { pt.spec.susp.clone() };
                    ctx.push(format!("i.{t}.{susp}.{}.{th}", show_end(end)));
                    let c2 = ctx.clone();
                    let spec = pt.spec.clone();
                    disp.dispatch(move || body(c2, spec)).map_err(|_| ())
                };
                match res {
                    Ok(rx) => {
                        ctx.push(format!("a.{t}"));
                        mine.push((t, pt.wait, rx));
                    }
                    Err(()) => ctx.push(format!("r.{t}")),
                }
            }
            drop(disp);
            let mut rest = vec![];
            for (t, wait, rx) in mine {
                if wait {
                    let r = block_on_timeout(rx, watchdog());
                    if r.is_none() {
                        HANGS.fetch_add(1, Ordering::Relaxed);
                    }
                    log_seen(&ctx, t, r);
                } else {
                    rest.push((t, rx));
                }
            }
            rest
        }));
    }
    let mut rest: Vec<(usize, oneshot::Receiver<u64>)> = vec![];
    // The dispatching threads only make non-blocking calls and bounded waits. Should one of them not come back
    // (a `dispatch_blocking` stranded inside AsyncifyPool::dispatch, F170), a fresh pool thread rescues it:
    // every further dispatch that finds no parked worker spawns one, which serves the blocked sender first.
    let t0 = Instant::now();
    let mut rescued = false;
    for h in handles {
        while !h.is_finished() {
            if t0.elapsed() > 2 * WATCHDOG + Duration::from_secs(5) {
                rescued = true;
                let _ = disp.dispatch_blocking(|| 0u64);
                thread::sleep(Duration::from_millis(50));
            } else {
                thread::sleep(Duration::from_micros(200));
            }
        }
        rest.extend(h.join().expect("dispatching thread"));
    }
    if rescued {
        ctx.problem(
            "F170:asyncify-dispatch-stranded",
            "dispatch blocked inside Dispatcher::dispatch_blocking until another dispatch spawned a pool thread".into(),
        );
    }
    rt.block_on(async {
        match join_at {
            JoinAt::Immediately => {}
            JoinAt::AfterSleep(ms) => compio_runtime::time::sleep(Duration::from_millis(ms)).await,
            JoinAt::AfterResults => {
                for (t, rx) in std::mem::take(&mut rest) {
                    let r = compio_runtime::time::timeout(watchdog(), rx).await.ok();
                    if r.is_none() {
                        HANGS.fetch_add(1, Ordering::Relaxed);
                    }
                    log_seen(&ctx, t, r);
                }
            }
        }
        let disp = Arc::try_unwrap(disp).expect("dispatcher still shared");
        ctx.push(if saturated { "JF".into() } else { "J".into() });
        let res = compio_runtime::time::timeout(join_watchdog(), AssertUnwindSafe(disp.join()).catch_unwind()).await;
        match res {
            Err(_) => {
                HANGS.fetch_add(1, Ordering::Relaxed);
                ctx.stop.store(true, Ordering::SeqCst);
                ctx.push("Rhang".into())
            }
            Ok(Ok(Ok(()))) => ctx.push("R.ok".into()),
            Ok(Ok(Err(_))) => ctx.push("R.err".into()),
            Ok(Err(p)) => {
                let msg = panic_text(p);
                match bomb_payload(&msg) {
                    Some(t) => ctx.push(format!("R.p{t}")),
                    None => ctx.push("R.p?".into()),
                }
            }
        }
        ctx.push(format!("L.{}", alive_workers(&ctx)));
        ctx.gate.store(true, Ordering::SeqCst);
        rest.extend(gate_rx);
        for (t, rx) in rest {
            let r = compio_runtime::time::timeout(watchdog().min(Duration::from_secs(2)), rx).await.ok();
            if r.is_none() {
                HANGS.fetch_add(1, Ordering::Relaxed);
            }
            log_seen(&ctx, t, r);
        }
    });
    let mut line = format!("hist {} {}", cfg.w, if cfg.conc { "c" } else { "s" });
    for tok in ctx.log.lock().unwrap().iter() {
        line.push(' ');
        line.push_str(tok);
    }
    for (sig, detail) in ctx.problems.lock().unwrap().drain(..) {
        // problems seen by the bodies themselves (overlap gauge, foreign thread) travel as tokens too,
        // so that the judged line is self-contained
        line.push_str(&format!(" P.{}.{}", sig.replace(['.', ' '], "_"), detail.replace(['.', ' '], "_")));
    }
    line
}

// ---------------------------------------------------------------------------------------------
// generators
// ---------------------------------------------------------------------------------------------

fn gen_cfg(rng: &mut Rng) -> (usize, bool, String) {
    let w = match rng.below(10) {
        0..=2 => 1,
        3..=4 => 2,
        5 => 3,
        6 => 4,
        _ => rng.range(1, 8) as usize,
    };
    let conc = rng.chance(1, 2);
    let mut s = format!("cfg {w} {}", if conc { "c" } else { "s" });
    if rng.chance(1, 5) {
        s.push_str(&format!(" stack={}", rng.pick(&[256 * 1024usize, 512 * 1024, 2 * 1024 * 1024])));
    }
    if rng.chance(1, 6) {
        s.push_str(" aff");
    }
    if conc && rng.chance(1, 4) {
        // builder default mode (no `.concurrent(..)` call)
        s.push_str(" dc");
    }
    // (the default 1024-entry ring costs tens of ms per worker to set up and tear down: rarely)
    if !rng.chance(1, 40) {
        s.push_str(&format!(" cap={}", rng.pick(&[8u32, 16, 32, 64])));
    }
    if rng.chance(1, 4) {
        s.push_str(" drv=poll");
    }
    (w, conc, s)
}

fn gen_susp(rng: &mut Rng) -> String {
    match rng.below(14) {
        12 => (*rng.pick(&["r", "R"])).into(),
        13 => (*rng.pick(&["ry", "sr", "rr", "yr", "Ry", "sR", "RR"])).into(),
        0..=3 => "-".into(),
        4 => "y".into(),
        5 => "s".into(),
        6 => "i".into(),
        7 => "t".into(),
        8 => "yy".into(),
        9 => "ys".into(),
        10 => "iy".into(),
        _ => {
            let n = rng.range(1, 4);
            (0..n).map(|_| *rng.pick(&['y', 'y', 's', 'i'])).collect()
        }
    }
}

#[derive(Clone)]
struct GTask {
    t: usize,
    end: End,
    blocking: bool,
    accepted: bool,
    /// `wait`ed or otherwise known to have ended
    settled: bool,
    /// result and counters after join are the same on every schedule
    det_rx: bool,
    det_stat: bool,
    rx_dropped: bool,
    stranded: bool,
    /// concurrent mode: may share the executor of a worker thread that is about to panic
    racy: bool,
}

/// `gen_susp` without pipe I/O (nothing but the harness uses the blocking pool then)
fn gen_susp_no_io(rng: &mut Rng) -> String {
    gen_susp(rng).replace('i', "s")
}

fn gen_det(rng: &mut Rng) -> Vec<String> {
    let (w, conc, cfg) = gen_cfg(rng);
    // A blocking closure that panics kills its pool thread (compio-driver's AsyncifyPool does not catch it).
    // If that thread had been spawned for another dispatcher's rendezvous `send` -- an I/O operation of a worker
    // runtime -- that `send` blocks for ever: finding F170 of property C17. The two are therefore not mixed
    // in one case: either blocking closures may panic and no body does pipe I/O, or the other way round.
    let pool_panics = rng.chance(1, 3);
    let gen_susp = |rng: &mut Rng| if pool_panics { gen_susp_no_io(rng) } else { gen_susp(rng) };
    let mut l = vec![cfg];
    let mut tasks: Vec<GTask> = vec![];
    let mut next = 1usize;
    let mut live = w;
    let mut bombs = 0usize;
    let n_ops = rng.range(2, 14);
    let mut ops_left = n_ops;
    while ops_left > 0 {
        ops_left -= 1;
        match rng.below(10) {
            0..=4 => {
                let t = next;
                next += 1;
                let susp = gen_susp(rng);
                let bomb_ok = w == 1 || bombs == 0;
                let end = match rng.below(20) {
                    0..=1 => End::Panic,
                    2 if conc => End::Never,
                    3 if conc => End::Spin,
                    4..=5 if bomb_ok => End::Bomb,
                    _ => End::Val(rng.below(1000)),
                };
                let accepted = live > 0;
                let zero = susp == "-";
                let mut g = GTask {
                    t,
                    end,
                    blocking: false,
                    accepted,
                    settled: false,
                    det_rx: true,
                    det_stat: true,
                    rx_dropped: false,
                    stranded: false,
                    racy: false,
                };
                if conc {
                    match end {
                        End::Val(_) => {
                            g.det_rx = zero;
                            g.det_stat = zero;
                        }
                        End::Panic => g.det_stat = zero,
                        _ => {}
                    }
                }
                l.push(format!("d {t} {susp} {}", show_end(end)));
                if end == End::Bomb && accepted {
                    bombs += 1;
                    if conc {
                        // tasks still running may share the doomed worker
                        for o in tasks.iter_mut().filter(|o| !o.settled && !o.blocking) {
                            if matches!(o.end, End::Val(_) | End::Panic) && !(o.det_rx && o.det_stat) {
                                o.det_rx = false;
                                o.det_stat = false;
                                o.racy = true;
                            }
                        }
                    }
                    // sequential mode, one worker: what is dispatched before the bomb goes off stays queued
                    let mut between = vec![];
                    if !conc && w == 1 && rng.chance(1, 2) {
                        for _ in 0..rng.range(1, 2) {
                            let u = next;
                            next += 1;
                            let e2 = if rng.chance(1, 4) { End::Panic } else { End::Val(rng.below(1000)) };
                            l.push(format!("d {u} {} {}", gen_susp(rng), show_end(e2)));
                            between.push(GTask {
                                t: u,
                                end: e2,
                                blocking: false,
                                accepted: true,
                                settled: false,
                                det_rx: true,
                                det_stat: true,
                                rx_dropped: false,
                                stranded: true,
                                racy: false,
                            });
                        }
                    }
                    l.push(format!("wait {t}"));
                    g.settled = true;
                    live -= 1;
                    tasks.push(g);
                    tasks.extend(between);
                } else {
                    tasks.push(g);
                }
            }
            5 => {
                let t = next;
                next += 1;
                let end = if pool_panics && rng.chance(1, 3) { End::Panic } else { End::Val(rng.below(1000)) };
                l.push(format!("b {t} {}", show_end(end)));
                tasks.push(GTask {
                    t,
                    end,
                    blocking: true,
                    accepted: true,
                    settled: false,
                    det_rx: true,
                    det_stat: true,
                    rx_dropped: false,
                    stranded: false,
                    racy: false,
                });
            }
            6..=8 => {
                // wait for something that is sure to resolve
                let cands: Vec<usize> = tasks
                    .iter()
                    .enumerate()
                    .filter(|(_, g)| {
                        g.accepted
                            && !g.settled
                            && !g.rx_dropped
                            && !g.stranded
                            && !g.racy
                            && matches!(g.end, End::Val(_) | End::Panic)
                    })
                    .map(|(i, _)| i)
                    .collect();
                if !cands.is_empty() {
                    let i = *rng.pick(&cands);
                    l.push(format!("wait {}", tasks[i].t));
                    tasks[i].settled = true;
                    tasks[i].det_rx = true;
                    tasks[i].det_stat = true;
                }
            }
            _ => {
                let cands: Vec<usize> = tasks
                    .iter()
                    .enumerate()
                    .filter(|(_, g)| g.accepted && !g.settled && !g.rx_dropped)
                    .map(|(i, _)| i)
                    .collect();
                if !cands.is_empty() && rng.chance(1, 2) {
                    let i = *rng.pick(&cands);
                    l.push(format!("drop {}", tasks[i].t));
                    tasks[i].rx_dropped = true;
                    if tasks[i].blocking {
                        // nobody waits for it any more: it may run on the pool after the case has ended
                        tasks[i].det_stat = false;
                    }
                }
            }
        }
    }
    l.push("join".into());
    for g in &tasks {
        if !g.accepted {
            continue;
        }
        if g.det_rx && !g.rx_dropped && rng.chance(4, 5) {
            l.push(format!("rx {}", g.t));
        }
        if g.det_stat && rng.chance(4, 5) {
            l.push(format!("stat {}", g.t));
        }
    }
    l.push("alive".into());
    if w == 1 {
        l.push("order".into());
    }
    l
}

/// the blocking pool (limit 1 or 2, shared by the dispatcher and its workers) is saturated by gated blocking
/// closures when `join` is called: `AsyncifyPool::dispatch` refuses the closure that joins the worker
/// threads, and `join` has to run it on a thread of its own -- and still wait for every worker. In half of the
/// programs the gate opens first, so the joiner goes to the pool.
fn gen_saturated(rng: &mut Rng) -> Vec<String> {
    let w = rng.range(1, 4) as usize;
    let conc = rng.chance(1, 2);
    let limit = rng.range(1, 2) as usize;
    let mut l = vec![format!("cfg {w} {} cap={} pool={limit}", if conc { "c" } else { "s" }, rng.pick(&[16u32, 64]))];
    let mut next = 1usize;
    let mut gates = vec![];
    for _ in 0..limit {
        l.push(format!("g {next} v{}", rng.below(1000)));
        gates.push(next);
        next += 1;
    }
    // (task, determinate after join?)
    let mut tasks: Vec<(usize, bool, bool)> = vec![];
    let mut bombed = false;
    for _ in 0..rng.range(1, 7) {
        let t = next;
        next += 1;
        let susp = gen_susp_no_io(rng);
        let end = match rng.below(16) {
            0 => End::Panic,
            1 if conc => End::Never,
            2 if conc => End::Spin,
            3 if !bombed && w >= 2 => End::Bomb,
            _ => End::Val(rng.below(1000)),
        };
        l.push(format!("d {t} {susp} {}", show_end(end)));
        let zero = susp == "-";
        match end {
            End::Bomb => {
                bombed = true;
                if conc {
                    for x in tasks.iter_mut() {
                        if !x.2 {
                            x.1 = false;
                        }
                    }
                }
                l.push(format!("wait {t}"));
                tasks.push((t, true, true));
            }
            End::Val(_) | End::Panic if !conc || zero || rng.chance(1, 2) => {
                let waited = !(!conc || zero) || rng.chance(1, 3);
                if waited {
                    l.push(format!("wait {t}"));
                }
                tasks.push((t, true, waited));
            }
            End::Never | End::Spin => tasks.push((t, true, true)),
            _ => tasks.push((t, false, false)),
        }
    }
    let early_release = rng.chance(1, 3);
    if early_release {
        l.push("release".into());
        for g in &gates {
            l.push(format!("wait {g}"));
        }
        // (the pool threads are parked again: the joiner closure goes to the pool)
        l.push("join".into());
    } else {
        l.push("join f".into());
        l.push("release".into());
    }
    for g in &gates {
        l.push(format!("rx {g}"));
        l.push(format!("stat {g}"));
    }
    for (t, det, _) in &tasks {
        if *det {
            l.push(format!("rx {t}"));
            l.push(format!("stat {t}"));
        }
    }
    l.push("alive".into());
    l
}

/// dispatched tasks that depend on wake-ups from foreign threads (`r`): 1..3 workers, both modes, every such
/// task awaited before or resolved by join
fn gen_remote(rng: &mut Rng) -> Vec<String> {
    let w = rng.range(1, 3);
    let conc = rng.chance(1, 2);
    let mut l = vec![format!("cfg {w} {} cap={}", if conc { "c" } else { "s" }, rng.pick(&[16u32, 64]))];
    let n = rng.range(1, 5) as usize;
    for t in 1..=n {
        let susp = *rng.pick(&["r", "R", "ry", "yr", "Rs", "rr", "RR", "-", "y"]);
        l.push(format!("d {t} {susp} v{}", rng.below(1000)));
        if !(!conc && rng.chance(1, 2)) {
            // (sequential mode finishes everything before join returns anyway)
            l.push(format!("wait {t}"));
        }
    }
    // concurrent mode: closures still in flight when join is called -- parked after (repeated) remote wakes,
    // parked on a long timer, and yielding for ever -- several per worker; a last short task gives the helper
    // threads time to deliver their wakes first
    let mut pending = vec![];
    if conc {
        for _ in 0..rng.range(1, 4) {
            let t = n + 1 + pending.len();
            let (susp, end) = *rng.pick(&[("R", "n"), ("R", "n"), ("r", "n"), ("RR", "z"), ("-", "z"), ("y", "z"), ("R", "z"), ("-", "n")]);
            l.push(format!("d {t} {susp} {end}"));
            pending.push(t);
        }
        let t = n + 1 + pending.len();
        l.push(format!("d {t} {} v7", rng.pick(&["t", "tt", "s"])));
        l.push(format!("wait {t}"));
    }
    l.push("join".into());
    for t in 1..=n {
        l.push(format!("rx {t}"));
        l.push(format!("stat {t}"));
    }
    for t in &pending {
        l.push(format!("rx {t}"));
        l.push(format!("stat {t}"));
    }
    l.push("alive".into());
    if w == 1 {
        l.push("order".into());
    }
    l
}

/// a burst of short tasks and an immediate join: more tasks than one executor tick polls (61). Sequential
/// mode must run all of them; concurrent mode may drop the rest unstarted (counted as a tag).
fn gen_burst(rng: &mut Rng) -> Vec<String> {
    let w = rng.range(1, 2);
    let conc = rng.chance(1, 2);
    let mut l = vec![format!("cfg {w} {} cap={}", if conc { "c" } else { "s" }, rng.pick(&[16u32, 64]))];
    let n = rng.range(62, 110) as usize;
    for t in 1..=n {
        let susp = if rng.chance(1, 8) { "y" } else { "-" };
        l.push(format!("d {t} {susp} v{}", rng.below(1000)));
    }
    l.push("join".into());
    if !conc {
        for _ in 0..4 {
            let t = rng.range(1, n as u64);
            l.push(format!("rx {t}"));
            l.push(format!("stat {t}"));
        }
    }
    l.push("alive".into());
    l
}

fn plan_conc(rng: &mut Rng, big: bool) -> (Cfg, Vec<Vec<PlanTask>>, JoinAt) {
    let (w, conc, cfgline) = gen_cfg(rng);
    let cfgws: Vec<&str> = cfgline.split_whitespace().skip(1).collect();
    let mut cfg = parse_cfg(&cfgws).unwrap();
    let nthreads = match rng.below(6) {
        0 => 1,
        1..=2 => 2,
        3 => 4,
        _ => rng.range(1, 8) as usize,
    };
    // one history in six runs with a blocking pool of 1 or 2 threads that is saturated when join is called
    // (no other user of the pool then: no pipe I/O, no further blocking closures)
    let saturate = rng.chance(1, 6);
    if saturate {
        cfg.pool_limit = Some(rng.range(1, 2) as usize);
    }
    let with_bombs = rng.chance(1, 5);
    let join_at = match rng.below(if with_bombs { 2 } else { 3 }) {
        0 => JoinAt::Immediately,
        1 => JoinAt::AfterSleep(rng.range(1, 6)),
        _ => JoinAt::AfterResults,
    };
    let mut next = 1usize;
    let mut plan = vec![];
    let mut bombs = 0;
    for _ in 0..nthreads {
        let n = if big { rng.range(1, 40) } else { rng.range(1, 8) };
        let mut v = vec![];
        for _ in 0..n {
            let t = next;
            next += 1;
            let blocking = !saturate && rng.chance(1, 12);
            let susp = if saturate { gen_susp_no_io(rng) } else { gen_susp(rng) };
            let end = if blocking {
                // (never a panic here: with several dispatching threads that is the F170 scenario of C17,
                // see `gen_det`)
                End::Val(rng.below(1000))
            } else {
                match rng.below(24) {
                    0..=1 => End::Panic,
                    // a task that never ends: concurrent mode only (sequential `join` would wait for it);
                    // nobody may wait for it before join
                    2 if conc && join_at != JoinAt::AfterResults => End::Never,
                    3 if conc && join_at != JoinAt::AfterResults => End::Spin,
                    4 if with_bombs && bombs < w => {
                        bombs += 1;
                        End::Bomb
                    }
                    _ => End::Val(rng.below(1000)),
                }
            };
            let wait = !with_bombs && matches!(end, End::Val(_) | End::Panic) && rng.chance(1, 3);
            v.push(PlanTask {
                spec: Spec { t, susp: if susp == "-" { String::new() } else { susp }, end },
                blocking,
                pause: rng.below(4) as u8,
                wait,
            });
        }
        plan.push(v);
    }
    (cfg, plan, join_at)
}

/// the conc runs are independent of each other: plan them from the one `Rng` (so the plans depend on the
/// seed only), run them on a few threads, each with its own harness runtime
fn gen_conc_all(rng: &mut Rng, n: usize, n_big: usize) -> Vec<Case> {
    let mut jobs = vec![];
    for i in 0..n + n_big {
        let big = i >= n;
        let name = if big { format!("conc-big/{}", i - n) } else { format!("conc/{i}") };
        jobs.push((name, plan_conc(rng, big)));
    }
    let jobs = Arc::new(Mutex::new(jobs.into_iter().enumerate().collect::<Vec<_>>()));
    let done: Arc<Mutex<Vec<(usize, Case)>>> = Arc::new(Mutex::new(vec![]));
    let workers: Vec<_> = (0..4)
        .map(|_| {
            let jobs = jobs.clone();
            let done = done.clone();
            thread::spawn(move || {
                let rt = Runtime::new().expect("harness runtime");
                loop {
                    let job = jobs.lock().unwrap().pop();
                    let Some((i, (name, (cfg, plan, join_at)))) = job else { break };
                    // the run is failing anyway (three watchdogs have expired): do not record more histories
                    let line = if HANGS.load(Ordering::Relaxed) >= 3 {
                        format!("hist {} {}", cfg.w, if cfg.conc { "c" } else { "s" })
                    } else {
                        run_conc(&rt, &cfg, plan, join_at)
                    };
                    done.lock().unwrap().push((i, Case { name, lines: vec![line] }));
                }
            })
        })
        .collect();
    for w in workers {
        w.join().expect("conc generator thread");
    }
    let mut done = std::mem::take(&mut *done.lock().unwrap());
    done.sort_by_key(|(i, _)| *i);
    done.into_iter().map(|(_, c)| c).collect()
}

fn main() {
    // worker-thread and task panics are part of the scenarios
    std::panic::set_hook(Box::new(|_| {}));
    if std::env::args().any(|a| a == "--replay") {
        REPLAY.store(true, Ordering::Relaxed);
    }
    let rt = Runtime::new().expect("harness runtime");
    run_harness(
        |tier, rng| {
            let (n_det, n_conc, n_big) = if tier == "thorough" { (3000, 2000, 100) } else { (250, 160, 6) };
            let mut cases = vec![];
            for i in 0..n_det {
                cases.push(Case { name: format!("det/{i}"), lines: gen_det(rng) });
            }
            for i in 0..n_big {
                cases.push(Case { name: format!("burst/{i}"), lines: gen_burst(rng) });
            }
            for i in 0..n_det / 8 {
                cases.push(Case { name: format!("saturated/{i}"), lines: gen_saturated(rng) });
            }
            for i in 0..n_det / 8 {
                cases.push(Case { name: format!("remote/{i}"), lines: gen_remote(rng) });
            }
            cases.extend(gen_conc_all(rng, n_conc, n_big));
            cases
        },
        |case| exec_det(&rt, case),
        "det cases: random programs of dispatch / dispatch_blocking / receiver drop / wait / join / post-join queries on the real Dispatcher (1..8 workers, both modes, builder options, bodies that yield / sleep / do pipe I/O / panic / never end / make the worker thread panic); conc cases: histories of the real Dispatcher under 1..8 dispatching threads, judged by the oracle and the Lean acceptor. distinct by case text; non-trivial = a history, or a det program with at least two dispatches and a join",
    );
}
