//! C07 correspondence harness: the managed buffer pool of the REAL compio-driver (io_uring buffer ring
//! and the fallback pool of the polling driver, fusion build) driven through the public high-level
//! APIs of compio-fs / compio-net on a real `compio_runtime::Runtime`
//! (`read_managed`, `recv_managed`, `read_managed_at`, `read_multi`, `recv_multi` =
//! `SubmitMultiStream` + `SubmitMultiManaged` + the `*Managed` / `*Multi` ops), plus the raw
//! `BufferPool::{pop,take,reset}` API. Text operations; lean/Drivers/C07.lean is the model side.
//!
//! Every operation line is executed, the driver is polled until quiescent ("settle"), and the pool
//! is observed WITHOUT hooks: `{:?}` of `BufferPool` (slot table, fallback queue, address/len of the
//! ring), the mmap-ed ring itself (tail, entries), the kernel's ring head
//! (`IORING_REGISTER_PBUF_STATUS` on the runtime's ring fd) and `{:?}` of every live `BufferRef`
//! (buffer id, pointer). One output line per operation: `<result> | <snapshot>`.
//!
//! Monitors (implementation only, independent of the Lean model) are listed at `fn monitors`.
#![allow(clippy::type_complexity)]

use std::{
    cell::RefCell,
    collections::{BTreeMap, VecDeque},
    future::Future,
    io::{self, Write as _},
    mem::MaybeUninit,
    num::NonZeroU16,
    os::fd::{AsRawFd, FromRawFd, IntoRawFd, RawFd},
    pin::Pin,
    rc::Rc,
    ptr::NonNull,
    task::{Context, Poll, Waker},
    time::{Duration, Instant},
};

use compio_buf::IoBufMut;
use compio_driver::{BufferAllocator, BufferPool, BufferRef, DriverType, ProactorBuilder};
use compio_io::{AsyncReadManaged, AsyncReadManagedAt, AsyncReadMulti};
use compio_runtime::Runtime;
use futures_util::Stream;
use hx_common::*;

// ---------------------------------------------------------------------------------------------
// allocator with guard zones and a live table (monitors: balance, double free, overrun)
// ---------------------------------------------------------------------------------------------

const GUARD: usize = 32;
const GUARD_BYTE: u8 = 0xE7;

#[derive(Default)]
struct AllocLog {
    live: BTreeMap<usize, u32>,
    allocs: u64,
    deallocs: u64,
    errors: Vec<String>,
}

thread_local! {
    static RING_OK: std::cell::Cell<bool> = const { std::cell::Cell::new(true) };
    static ALLOC: RefCell<AllocLog> = RefCell::new(AllocLog::default());
}

struct GuardAlloc;

impl BufferAllocator for GuardAlloc {
    fn allocate(len: u32) -> NonNull<MaybeUninit<u8>> {
        let total = len as usize + 2 * GUARD;
        let v: Box<[u8]> = vec![GUARD_BYTE; total].into_boxed_slice();
        let base = Box::into_raw(v) as *mut u8;
        let p = unsafe { base.add(GUARD) };
        ALLOC.with(|a| {
            let mut a = a.borrow_mut();
            a.allocs += 1;
            a.live.insert(p as usize, len);
        });
        NonNull::new(p.cast()).unwrap()
    }

    unsafe fn deallocate(ptr: NonNull<MaybeUninit<u8>>, len: u32) {
        let p = ptr.as_ptr() as usize;
        let ok = ALLOC.with(|a| {
            let mut a = a.borrow_mut();
            a.deallocs += 1;
            match a.live.remove(&p) {
                Some(l) if l == len => true,
                Some(l) => {
                    a.errors.push(format!("deallocate with len {len}, allocated with {l}"));
                    false
                }
                None => {
                    a.errors.push("deallocate of a pointer that is not live (double free)".to_string());
                    false
                }
            }
        });
        if ok {
            let base = (p - GUARD) as *mut u8;
            let total = len as usize + 2 * GUARD;
            let s = unsafe { std::slice::from_raw_parts(base, total) };
            if s[..GUARD].iter().chain(&s[GUARD + len as usize..]).any(|b| *b != GUARD_BYTE) {
                ALLOC.with(|a| a.borrow_mut().errors.push("guard zone overwritten".to_string()));
            }
            drop(unsafe { Box::from_raw(std::ptr::slice_from_raw_parts_mut(base, total)) });
        }
    }
}

fn guards_intact() -> bool {
    ALLOC.with(|a| {
        a.borrow().live.iter().all(|(p, len)| {
            let base = (*p - GUARD) as *const u8;
            let s = unsafe { std::slice::from_raw_parts(base, *len as usize + 2 * GUARD) };
            s[..GUARD].iter().chain(&s[GUARD + *len as usize..]).all(|b| *b == GUARD_BYTE)
        })
    })
}

// ---------------------------------------------------------------------------------------------
// sources
// ---------------------------------------------------------------------------------------------

#[derive(Clone, Copy, PartialEq, Eq, Debug)]
enum SrcKind {
    Pipe,
    Tcp,
    Unix,
    Udp,
    File,
}

impl SrcKind {
    fn parse(s: &str) -> Option<Self> {
        Some(match s {
            "pipe" => SrcKind::Pipe,
            "tcp" => SrcKind::Tcp,
            "unix" => SrcKind::Unix,
            "udp" | "udpf" => SrcKind::Udp,
            "file" => SrcKind::File,
            _ => return None,
        })
    }

    fn is_stream(self) -> bool {
        matches!(self, SrcKind::Pipe | SrcKind::Tcp | SrcKind::Unix)
    }
}

#[derive(Clone)]
enum Rx {
    Pipe(Rc<compio_fs::pipe::Receiver>),
    Tcp(Rc<compio_net::TcpStream>),
    Unix(Rc<compio_net::UnixStream>),
    Udp(Rc<compio_net::UdpSocket>),
    File(Rc<compio_fs::File>),
}

enum Tx {
    Pipe(std::fs::File),
    Tcp(std::net::TcpStream),
    Unix(std::os::unix::net::UnixStream),
    Udp(std::net::UdpSocket),
    None,
}

type Fut = Pin<Box<dyn Future<Output = io::Result<Option<BufferRef>>>>>;
type Strm = Pin<Box<dyn Stream<Item = io::Result<BufferRef>>>>;

/// field order = drop order: the future and the stream go before the endpoint they point into
struct Src {
    fut: Option<Fut>,
    strm: Option<Strm>,
    kind: SrcKind,
    rx: Rx,
    /// index of the source that owns the endpoint (`tx`, the sent-data oracle); differs from the own
    /// index for an `alias` = a second logical reader on the SAME fd
    base: usize,
    /// token the single-shot future was created with (`with_cancel`)
    token: Option<compio_runtime::CancelToken>,
    /// boxed `&Receiver` etc. that `read_multi(&mut self)` borrows from (freed after the stream)
    refs: Vec<Box<dyn std::any::Any>>,
    tx: Tx,
    /// stream kinds / file: every byte written so far; dgram: unused
    sent: Vec<u8>,
    /// stream kinds: position up to which received data has been matched
    rpos: usize,
    /// dgram: datagrams sent and not yet matched
    dgrams: VecDeque<Vec<u8>>,
    /// `udpf`: the multishot stream of this UDP socket is `recv_from_multi` (io_uring multishot recvmsg)
    from_multi: bool,
    /// data may have been consumed into buffers nobody saw (cancelled op, dropped stream, error)
    lossy: bool,
    /// bytes (stream) or datagrams (dgram) the harness believes are unread in the kernel: only used
    /// for the bounded-progress monitor, and only while `lossy` is false
    seq: u64,
}

fn pattern(src: usize, j: u64) -> u8 {
    ((j * 7 + src as u64 * 31 + 1) % 251) as u8
}

// ---------------------------------------------------------------------------------------------
// the system under test
// ---------------------------------------------------------------------------------------------

struct Held {
    #[allow(dead_code)]
    buf: BufferRef,
    ptr: usize,
    cap: usize,
    canary: u8,
}

struct Sys {
    // drop order matters: sources (futures, streams, sockets) first, then the pool handle, then the runtime
    srcs: Vec<Option<Src>>,
    held: BTreeMap<u16, Held>,
    pool: Option<BufferPool>,
    rt: Option<Runtime>,
    ring: bool,
    n: usize,
    buflen: usize,
    ring_fd: RawFd,
    canary_ctr: u8,
    released: bool,
    ptrs: Vec<usize>,
}

#[derive(Debug, Clone, PartialEq, Eq, Default)]
struct Snap {
    slots: Vec<bool>,
    slot_ptrs: Vec<usize>,
    queue: Vec<u16>,
    tail: u16,
    head: u16,
    prov: Vec<u16>,
    ring_len: usize,
    dropped: bool,
}

fn noop_cx() -> Context<'static> {
    Context::from_waker(Waker::noop())
}

fn parse_hex_ptr(s: &str) -> usize {
    usize::from_str_radix(s.trim_start_matches("0x"), 16).unwrap_or(0)
}

/// `IORING_REGISTER_PBUF_STATUS` (opcode 26): the kernel's head of buffer group 1
fn pbuf_head(fd: RawFd) -> Option<u16> {
    #[repr(C)]
    struct BufStatus {
        buf_group: u32,
        head: u32,
        resv: [u32; 8],
    }
    let mut st = BufStatus { buf_group: 1, head: 0, resv: [0; 8] };
    let r = unsafe { libc::syscall(libc::SYS_io_uring_register, fd, 26u32, &mut st as *mut BufStatus, 1u32) };
    if r < 0 { None } else { Some(st.head as u16) }
}

impl Sys {
    fn rt(&self) -> &Runtime {
        self.rt.as_ref().expect("runtime")
    }

    fn snap(&self) -> Snap {
        let Some(pool) = &self.pool else {
            return Snap { dropped: true, ..Default::default() };
        };
        let d = format!("{pool:?}");
        if d.contains("<dropped>") {
            return Snap { dropped: true, ..Default::default() };
        }
        let mut s = Snap::default();
        // buffers: [Some(Buf<0x..>), None, ...]
        if let Some(i) = d.find("buffers: [") {
            let rest = &d[i + "buffers: [".len()..];
            let end = rest.find(']').unwrap_or(rest.len());
            for item in rest[..end].split(", ") {
                let item = item.trim();
                if item.is_empty() {
                    continue;
                }
                if item == "None" {
                    s.slots.push(false);
                    s.slot_ptrs.push(0);
                } else {
                    s.slots.push(true);
                    let p = item.trim_start_matches("Some(Buf<").trim_end_matches(">)");
                    s.slot_ptrs.push(parse_hex_ptr(p));
                }
            }
        }
        if let Some(i) = d.find("queue: [") {
            let rest = &d[i + "queue: [".len()..];
            let end = rest.find(']').unwrap_or(rest.len());
            s.queue = rest[..end].split(", ").filter_map(|x| x.trim().parse().ok()).collect();
        }
        if let Some(i) = d.find("IoUring(BufControl { ptr: ") {
            let rest = &d[i + "IoUring(BufControl { ptr: ".len()..];
            let end = rest.find(',').unwrap_or(rest.len());
            let ptr = parse_hex_ptr(&rest[..end]);
            let rest = &rest[end..];
            let li = rest.find("len: ").map(|x| x + 5).unwrap_or(0);
            let le = rest[li..].find(',').unwrap_or(0) + li;
            let len: usize = rest[li..le].trim().parse().unwrap_or(0);
            s.ring_len = len;
            if ptr != 0 && len != 0 {
                let base = ptr as *const u8;
                s.tail = unsafe { std::ptr::read_volatile(base.add(14) as *const u16) };
                s.head = pbuf_head(self.ring_fd).unwrap_or(0);
                let cnt = s.tail.wrapping_sub(s.head) as usize;
                for j in 0..cnt.min(4 * len) {
                    let idx = (s.head as usize + j) & (len - 1);
                    let bid = unsafe { std::ptr::read_volatile(base.add(idx * 16 + 12) as *const u16) };
                    s.prov.push(bid);
                }
            }
        }
        s
    }

    fn show(&self, s: &Snap) -> String {
        let live: Vec<String> = self.held.keys().map(|k| k.to_string()).collect();
        let live = if live.is_empty() { "-".to_string() } else { live.join(",") };
        if s.dropped {
            return format!("released L={live}");
        }
        let slots: String = s.slots.iter().map(|b| if *b { '1' } else { '0' }).collect();
        let list = |v: &Vec<u16>| {
            if v.is_empty() { "-".to_string() } else { v.iter().map(|x| x.to_string()).collect::<Vec<_>>().join(",") }
        };
        if self.ring {
            format!("S={slots} T={} H={} P={} L={live}", s.tail, s.head, list(&s.prov))
        } else {
            format!("S={slots} Q={} L={live}", list(&s.queue))
        }
    }

    fn poll_driver(&self) {
        if let Some(rt) = &self.rt {
            rt.poll_with(Some(Duration::ZERO));
        }
    }

    /// poll the driver until the observable pool state is stable
    fn settle(&self) -> Snap {
        let mut last = None;
        let mut same = 0;
        for _ in 0..64 {
            self.poll_driver();
            let s = self.snap();
            if last.as_ref() == Some(&s) {
                same += 1;
                if same >= 2 {
                    return s;
                }
            } else {
                same = 0;
                last = Some(s);
            }
        }
        self.snap()
    }
}

// ---------------------------------------------------------------------------------------------
// construction
// ---------------------------------------------------------------------------------------------

fn set_nonblock(fd: RawFd) {
    unsafe {
        let fl = libc::fcntl(fd, libc::F_GETFL);
        libc::fcntl(fd, libc::F_SETFL, fl | libc::O_NONBLOCK);
    }
}

fn build_sys(ring: bool, nbufs: u16, buflen: usize) -> Result<Sys, String> {
    ALLOC.with(|a| *a.borrow_mut() = AllocLog::default());
    let mut pb = ProactorBuilder::new();
    pb.driver_type(if ring { DriverType::IoUring } else { DriverType::Poll })
        .capacity(256)
        .buffer_pool_size(NonZeroU16::new(nbufs).ok_or("zero pool size")?)
        .buffer_pool_buffer_len(buflen)
        .buffer_pool_allocator::<GuardAlloc>();
    let rt = compio_runtime::RuntimeBuilder::new().with_proactor(pb).build().map_err(|e| format!("build: {e}"))?;
    if ring != rt.driver_type().is_iouring() {
        return Err(format!("driver type {:?} not available", if ring { "io_uring" } else { "poll" }));
    }
    let pool = rt.buffer_pool().map_err(|e| format!("buffer_pool: {e}"))?;
    let ring_fd = rt.as_raw_fd();
    let mut sys = Sys {
        srcs: vec![],
        held: BTreeMap::new(),
        pool: Some(pool),
        rt: Some(rt),
        ring,
        n: 0,
        buflen,
        ring_fd,
        canary_ctr: 0,
        released: false,
        ptrs: vec![],
    };
    let s = sys.snap();
    sys.n = s.slots.len();
    sys.ptrs = s.slot_ptrs.clone();
    Ok(sys)
}

fn make_src(sys: &Sys, kind: SrcKind, idx: usize, size: usize) -> io::Result<Src> {
    let poll = !sys.ring;
    let rt = sys.rt();
    let (rx, tx, sent) = rt.enter(|| -> io::Result<(Rx, Tx, Vec<u8>)> {
        Ok(match kind {
            SrcKind::Pipe => {
                let (r, w) = io::pipe()?;
                let rfd = r.into_raw_fd();
                if poll {
                    set_nonblock(rfd);
                }
                let wf = unsafe { std::fs::File::from_raw_fd(w.into_raw_fd()) };
                (Rx::Pipe(Rc::new(unsafe { compio_fs::pipe::Receiver::from_raw_fd(rfd) })), Tx::Pipe(wf), vec![])
            }
            SrcKind::Tcp => {
                let l = std::net::TcpListener::bind("127.0.0.1:0")?;
                let w = std::net::TcpStream::connect(l.local_addr()?)?;
                let (r, _) = l.accept()?;
                w.set_nodelay(true)?;
                (Rx::Tcp(Rc::new(compio_net::TcpStream::from_std(r)?)), Tx::Tcp(w), vec![])
            }
            SrcKind::Unix => {
                let (r, w) = std::os::unix::net::UnixStream::pair()?;
                (Rx::Unix(Rc::new(compio_net::UnixStream::from_std(r)?)), Tx::Unix(w), vec![])
            }
            SrcKind::Udp => {
                let r = std::net::UdpSocket::bind("127.0.0.1:0")?;
                let w = std::net::UdpSocket::bind("127.0.0.1:0")?;
                w.connect(r.local_addr()?)?;
                (Rx::Udp(Rc::new(compio_net::UdpSocket::from_std(r)?)), Tx::Udp(w), vec![])
            }
            SrcKind::File => {
                let path = std::env::temp_dir().join(format!("hx-c07-{}-{}", std::process::id(), idx));
                let content: Vec<u8> = (0..size as u64).map(|j| pattern(idx, j)).collect();
                std::fs::write(&path, &content)?;
                let f = std::fs::File::open(&path)?;
                let _ = std::fs::remove_file(&path);
                (Rx::File(Rc::new(unsafe { compio_fs::File::from_raw_fd(f.into_raw_fd()) })), Tx::None, content)
            }
        })
    })?;
    Ok(Src {
        fut: None,
        strm: None,
        kind,
        rx,
        base: idx,
        token: None,
        refs: vec![],
        tx,
        sent,
        rpos: 0,
        dgrams: VecDeque::new(),
        from_multi: false,
        lossy: false,
        seq: 0,
    })
}

thread_local! {
    /// payload of the last `recv_from_multi` item (the handle's own bytes start with the recvmsg header)
    static PAYLOAD: RefCell<Option<Vec<u8>>> = const { RefCell::new(None) };
}

/// `recv_from_multi` as a stream of handles: the payload goes through `PAYLOAD`, the handle is the item's buffer
struct FromMulti<S>(Pin<Box<S>>);

impl<S: Stream<Item = io::Result<compio_driver::op::RecvFromMultiResult>>> Stream for FromMulti<S> {
    type Item = io::Result<BufferRef>;

    fn poll_next(mut self: Pin<&mut Self>, cx: &mut Context<'_>) -> Poll<Option<Self::Item>> {
        match self.0.as_mut().poll_next(cx) {
            Poll::Ready(Some(Ok(m))) => {
                PAYLOAD.with(|p| *p.borrow_mut() = Some(m.data().to_vec()));
                Poll::Ready(Some(Ok(compio_buf::IntoInner::into_inner(m))))
            }
            Poll::Ready(Some(Err(e))) => Poll::Ready(Some(Err(e))),
            Poll::Ready(None) => Poll::Ready(None),
            Poll::Pending => Poll::Pending,
        }
    }
}

/// extend a reference to a ref-counted endpoint to 'static: a clone of the `Rc` lives in `Src::rx` and is dropped after
/// `Src::fut` / `Src::strm` (field order), and is never moved out while they exist
unsafe fn extend<T>(r: &T) -> &'static T {
    unsafe { &*(r as *const T) }
}

fn start_read(src: &mut Src, len: usize, pos: u64) -> Fut {
    match &src.rx {
        Rx::Pipe(r) => {
            let r = unsafe { extend::<compio_fs::pipe::Receiver>(r) };
            Box::pin(async move {
                let mut r = r;
                r.read_managed(len).await
            })
        }
        Rx::Tcp(r) => {
            let r = unsafe { extend::<compio_net::TcpStream>(r) };
            Box::pin(async move {
                let mut r = r;
                r.read_managed(len).await
            })
        }
        Rx::Unix(r) => {
            let r = unsafe { extend::<compio_net::UnixStream>(r) };
            Box::pin(async move {
                let mut r = r;
                r.read_managed(len).await
            })
        }
        Rx::Udp(r) => {
            let r = unsafe { extend::<compio_net::UdpSocket>(r) };
            Box::pin(async move { r.recv_managed(len).await })
        }
        Rx::File(r) => {
            let r = unsafe { extend::<compio_fs::File>(r) };
            Box::pin(async move { r.read_managed_at(len, pos).await })
        }
    }
}

fn open_stream(src: &mut Src, len: usize) -> Option<Strm> {
    Some(match &src.rx {
        Rx::Pipe(r) => {
            let r = unsafe { extend::<compio_fs::pipe::Receiver>(r) };
            let mut holder: Box<&'static compio_fs::pipe::Receiver> = Box::new(r);
            let h: &'static mut &'static compio_fs::pipe::Receiver = unsafe { &mut *(&mut *holder as *mut _) };
            src.refs.push(holder);
            Box::pin(h.read_multi(len))
        }
        Rx::Tcp(r) => {
            let r = unsafe { extend::<compio_net::TcpStream>(r) };
            let mut holder: Box<&'static compio_net::TcpStream> = Box::new(r);
            let h: &'static mut &'static compio_net::TcpStream = unsafe { &mut *(&mut *holder as *mut _) };
            src.refs.push(holder);
            Box::pin(h.read_multi(len))
        }
        Rx::Unix(r) => {
            let r = unsafe { extend::<compio_net::UnixStream>(r) };
            let mut holder: Box<&'static compio_net::UnixStream> = Box::new(r);
            let h: &'static mut &'static compio_net::UnixStream = unsafe { &mut *(&mut *holder as *mut _) };
            src.refs.push(holder);
            Box::pin(h.read_multi(len))
        }
        Rx::Udp(r) => {
            let r = unsafe { extend::<compio_net::UdpSocket>(r) };
            if src.from_multi {
                Box::pin(FromMulti(Box::pin(r.recv_from_multi())))
            } else {
                Box::pin(r.recv_multi(len))
            }
        }
        Rx::File(_) => return None,
    })
}

// ---------------------------------------------------------------------------------------------
// interpretation of one case
// ---------------------------------------------------------------------------------------------

fn err_name(e: &io::Error) -> String {
    match e.kind() {
        io::ErrorKind::ResourceBusy => "busy".into(),
        io::ErrorKind::Unsupported => "unsupported".into(),
        io::ErrorKind::UnexpectedEof => "eof".into(),
        io::ErrorKind::TimedOut => "cancelled".into(),
        _ if e.raw_os_error() == Some(libc::ECANCELED) => "cancelled".into(),
        io::ErrorKind::Other => "other".into(),
        k => format!("{k:?}"),
    }
}

fn buf_id(b: &BufferRef) -> Option<u16> {
    let d = format!("{b:?}");
    let i = d.find("buffer_id: ")? + "buffer_id: ".len();
    let rest = &d[i..];
    let end = rest.find(|c: char| !c.is_ascii_digit()).unwrap_or(rest.len());
    rest[..end].parse().ok()
}

struct Runner<'a> {
    sys: Option<Sys>,
    ex: &'a mut Exec,
    trace: bool,
    /// a panic escaped from the driver
    poisoned: bool,
    /// the case used the raw `take` / `reset` API on an id that no completion reported (see `taint`)
    tainted: Option<String>,
    /// (source, number of consecutive `next` lines on it that were Pending while its fd was readable)
    streak: (usize, u32),
    keep_streak: Option<(usize, u32)>,
}

impl Runner<'_> {
    /// a handle arrives in user hands: identity, aliasing and content monitors, then canary fill
    fn acquire(&mut self, mut b: BufferRef, src: Option<usize>) -> String {
        let sys = self.sys.as_mut().unwrap();
        let Some(id) = buf_id(&b) else {
            fail(self.ex, &self.tainted, "C07:harness", "cannot read buffer_id from Debug of BufferRef");
            return "noid".into();
        };
        let (len, data): (usize, Vec<u8>) = match PAYLOAD.with(|p| p.borrow_mut().take()) {
            Some(d) => (d.len(), d),
            None => (b.len(), b.to_vec()),
        };
        let full = b.as_uninit();
        let ptr = full.as_ptr() as usize;
        let cap = full.len();
        // M1: no two live handles alias
        for (oid, h) in &sys.held {
            let disjoint = ptr + cap.max(1) <= h.ptr || h.ptr + h.cap.max(1) <= ptr;
            if *oid == id || !disjoint {
                fail(self.ex, &self.tainted, 
                    "C07:alias",
                    format!("two live handles alias: new id {id} cap {cap} overlaps live id {oid} cap {}", h.cap),
                );
            }
        }
        // the pointer must be the one the slot table showed for this id at start
        if (id as usize) < sys.ptrs.len() && sys.ptrs[id as usize] != ptr {
            fail(self.ex, &self.tainted, "C07:identity", format!("handle with id {id} points to a buffer that is not buffer {id}"));
        }
        if cap > sys.buflen {
            fail(self.ex, &self.tainted, "C07:identity", format!("handle capacity {cap} exceeds the buffer length {}", sys.buflen));
        }
        // M3: content is the next part of what was sent to that source
        let src = src.map(|si| sys.srcs.get(si).and_then(|x| x.as_ref()).map_or(si, |x| x.base));
        if let Some(si) = src
            && let Some(Some(s)) = sys.srcs.get_mut(si)
        {
            if s.kind == SrcKind::Udp {
                let mut found = false;
                let mut skipped = 0;
                while let Some(d) = s.dgrams.pop_front() {
                    if d.len() >= len && d[..len] == data[..] {
                        found = true;
                        break;
                    }
                    skipped += 1;
                }
                if !found || (skipped > 0 && !s.lossy) {
                    fail(self.ex, &self.tainted, 
                        "C07:content",
                        format!("datagram content does not match what was sent (found={found} skipped={skipped})"),
                    );
                }
            } else if s.kind == SrcKind::File {
                // position is checked by the caller of read_at through `expect_at`
            } else {
                let mut p = s.rpos;
                let mut found = false;
                while p + len <= s.sent.len() {
                    if s.sent[p..p + len] == data[..] {
                        found = true;
                        break;
                    }
                    p += 1;
                }
                if !found || (p != s.rpos && !s.lossy) {
                    fail(self.ex, &self.tainted, 
                        "C07:content",
                        format!("stream content mismatch: found={found} at {p}, expected at {} lossy={}", s.rpos, s.lossy),
                    );
                }
                if found {
                    s.rpos = p + len;
                }
            }
        }
        // canary over the whole buffer (the holder owns it: nobody else may write it from now on)
        sys.canary_ctr = sys.canary_ctr.wrapping_add(37) | 1;
        let c = sys.canary_ctr;
        for x in b.as_uninit().iter_mut() {
            x.write(c);
        }
        sys.held.insert(id, Held { buf: b, ptr, cap, canary: c });
        format!("{id}:{len}")
    }

    /// one `poll_next` of the stream of source `i`: (result text, was Pending)
    fn poll_stream(&mut self, i: usize) -> (String, bool) {
        let sys = self.sys.as_mut().unwrap();
        let s = sys.srcs[i].as_mut().unwrap();
        let st = s.strm.as_mut().unwrap();
        let mut cx = noop_cx();
        let p = sys.rt.as_ref().unwrap().enter(|| st.as_mut().poll_next(&mut cx));
        match p {
            Poll::Pending => ("pending".to_string(), true),
            Poll::Ready(None) => ("end".to_string(), false),
            Poll::Ready(Some(Err(e))) => {
                let b = s.base;
                s_lossy(sys, b);
                (format!("err {}", err_name(&e)), false)
            }
            Poll::Ready(Some(Ok(b))) => (format!("item {}", self.acquire(b, Some(i))), false),
        }
    }

    /// is the receiving fd of source `i` readable right now (data or EOF pending in the kernel)?
    fn readable(&self, i: usize) -> bool {
        let sys = self.sys.as_ref().unwrap();
        let Some(Some(s)) = sys.srcs.get(i) else { return false };
        let fd = match &s.rx {
            Rx::Pipe(r) => r.as_raw_fd(),
            Rx::Tcp(r) => r.as_raw_fd(),
            Rx::Unix(r) => r.as_raw_fd(),
            Rx::Udp(r) => r.as_raw_fd(),
            Rx::File(_) => return false,
        };
        let mut pfd = libc::pollfd { fd, events: libc::POLLIN, revents: 0 };
        let r = unsafe { libc::poll(&mut pfd, 1, 0) };
        r > 0 && (pfd.revents & (libc::POLLIN | libc::POLLHUP)) != 0
    }

    /// M6: the stream of source `i` stays Pending although its fd is readable
    fn report_hang(&mut self, i: usize, polls: u32) {
        let sys = self.sys.as_ref().unwrap();
        let snap = sys.snap();
        let no_free = if sys.ring { snap.prov.is_empty() } else { snap.queue.is_empty() };
        let held = sys.held.len();
        let n = sys.n;
        if no_free {
            fail(
                self.ex,
                &self.tainted,
                "C07:exhaustion-hang",
                format!(
                    "stream of source {i}: data is pending, the pool has no free buffer ({held} of {n} held by the user), and {polls} consecutive polls (driver run in between) returned Pending instead of Err(ResourceBusy)"
                ),
            );
        } else {
            fail(
                self.ex,
                &self.tainted,
                "C07:hang",
                format!("stream of source {i}: data is pending, buffers are available, and {polls} consecutive polls returned Pending"),
            );
        }
    }

    /// monitors evaluated after every operation
    fn monitors(&mut self, snap: &Snap) {
        let sys = self.sys.as_ref().unwrap();
        // M2: canary bytes of every held buffer unchanged
        for (id, h) in &sys.held {
            let s = unsafe { std::slice::from_raw_parts(h.ptr as *const u8, h.cap) };
            if s.iter().any(|b| *b != h.canary) {
                fail(self.ex, &self.tainted, "C07:canary", format!("buffer {id} held by the user was written by somebody else"));
            }
        }
        if !guards_intact() {
            fail(self.ex, &self.tainted, "C07:overrun", "bytes outside a pool buffer were written");
        }
        if snap.dropped {
            return;
        }
        // M4: a held id has an empty slot, is not in the free queue and not provided to the kernel
        for id in sys.held.keys() {
            let i = *id as usize;
            if snap.slots.get(i).copied().unwrap_or(false) {
                fail(self.ex, &self.tainted, "C07:owner", format!("buffer {id} is held by a handle but its slot is occupied"));
            }
            if snap.queue.contains(id) {
                fail(self.ex, &self.tainted, "C07:owner", format!("buffer {id} is held by a handle and is in the free queue"));
            }
            if snap.prov.contains(id) {
                fail(self.ex, &self.tainted, "C07:owner", format!("buffer {id} is held by a handle and is provided to the kernel"));
            }
        }
        // free / provided ids: slot present, no duplicates
        let owned: &Vec<u16> = if sys.ring { &snap.prov } else { &snap.queue };
        let mut seen = vec![false; snap.slots.len()];
        for id in owned {
            let i = *id as usize;
            if i >= snap.slots.len() {
                fail(self.ex, &self.tainted, "C07:owner", format!("id {id} out of range is owned by the pool"));
                continue;
            }
            if seen[i] {
                fail(self.ex, &self.tainted, 
                    "C07:owner-dup",
                    format!("buffer {id} is {} twice", if sys.ring { "provided to the kernel" } else { "in the free queue" }),
                );
            }
            seen[i] = true;
            if !snap.slots[i] {
                fail(self.ex, &self.tainted, "C07:owner", format!("buffer {id} is owned by the pool/kernel but its slot is empty"));
            }
        }
        // M7: pool accounting at every step where the harness knows exactly what the ops may hold: no stream is
        // alive, and either no future is alive (ring) or every live future owns exactly one buffer (fallback
        // pool: popped at creation, released when the op's last key reference is released)
        let live_futs = sys.srcs.iter().flatten().filter(|s| s.fut.is_some()).count();
        let live_strms = sys.srcs.iter().flatten().filter(|s| s.strm.is_some()).count();
        if live_strms == 0 && (!sys.ring || live_futs == 0) {
            let in_ops = if sys.ring { 0 } else { live_futs };
            let free = owned.len();
            if free + sys.held.len() + in_ops != snap.slots.len() {
                fail(
                    self.ex,
                    &self.tainted,
                    "C07:buffer-lost",
                    format!(
                        "pool of {}: {free} free/provided + {} held by handles + {in_ops} inside live operations; the rest is owned by nobody the program knows of (a cancelled or finished operation still owns a buffer)",
                        snap.slots.len(),
                        sys.held.len()
                    ),
                );
            }
        }
        if sys.ring && snap.tail.wrapping_sub(snap.head) as usize > snap.ring_len {
            fail(self.ex, &self.tainted, "C07:ring-overflow", format!("tail {} - head {} exceeds ring length {}", snap.tail, snap.head, snap.ring_len));
        }
        for (i, p) in snap.slot_ptrs.iter().enumerate() {
            if snap.slots[i] && sys.ptrs.get(i) != Some(p) {
                fail(self.ex, &self.tainted, "C07:identity", format!("slot {i} holds a pointer that is not buffer {i}"));
            }
        }
    }

    fn finish_line(&mut self, res: String) -> String {
        let snap = self.sys.as_ref().unwrap().settle();
        self.monitors(&snap);
        let s = self.sys.as_ref().unwrap().show(&snap);
        format!("{res} | {s}")
    }

    fn src_ok(&self, i: usize) -> bool {
        self.sys.as_ref().is_some_and(|s| !s.released && matches!(s.srcs.get(i), Some(Some(_))))
    }

    fn op(&mut self, w: &[&str]) -> String {
        if self.sys.is_none() && w.first() != Some(&"init") {
            return "bad".into();
        }
        match w {
            ["init", kind, n, len] => {
                if self.sys.is_some() {
                    return "bad".into();
                }
                let (Ok(n), Ok(len)) = (n.parse::<u16>(), len.parse::<usize>()) else { return "bad".into() };
                if n == 0 || n > 64 || len == 0 || len > 4096 || !matches!(*kind, "ring" | "fb") {
                    return "bad".into();
                }
                match build_sys(*kind == "ring", n, len) {
                    Ok(s) => {
                        let n = s.n;
                        self.sys = Some(s);
                        self.ex.tag(format!("kind:{kind}"));
                        self.ex.tag(if RING_OK.with(|r| r.get()) { "env:ring-available" } else { "env:ring-UNAVAILABLE-fallback-only" });
                        self.finish_line(format!("ok n={n}"))
                    }
                    Err(e) => {
                        self.ex.tag(format!("unavailable:{kind}"));
                        fail(self.ex, &self.tainted, "C07:harness", format!("cannot build the system: {e}"));
                        "unavailable".into()
                    }
                }
            }
            ["src", i, kind, size] => {
                let (Ok(i), Some(kind), Ok(size)) = (i.parse::<usize>(), SrcKind::parse(kind), size.parse::<usize>()) else {
                    return "bad".into();
                };
                let sys = self.sys.as_mut().unwrap();
                if sys.released || i != sys.srcs.len() || i >= 8 || size > 4096 {
                    return "bad".into();
                }
                let from_multi = w[2] == "udpf";
                match make_src(sys, kind, i, size) {
                    Ok(mut s) => {
                        s.from_multi = from_multi;
                        if from_multi {
                            self.ex.tag("src:udp-recv_from_multi");
                        }
                        sys.srcs.push(Some(s));
                        self.ex.tag(format!("src:{kind:?}"));
                        self.finish_line("ok".into())
                    }
                    Err(e) => {
                        fail(self.ex, &self.tainted, "C07:harness", format!("cannot create source {kind:?}: {e}"));
                        sys.srcs.push(None);
                        "unavailable".into()
                    }
                }
            }
            ["write", i, k] => {
                let (Ok(i), Ok(k)) = (i.parse::<usize>(), k.parse::<usize>()) else { return "bad".into() };
                if !self.src_ok(i) || k == 0 || k > 1024 {
                    return "bad".into();
                }
                let sys = self.sys.as_mut().unwrap();
                let b = sys.srcs[i].as_ref().unwrap().base;
                let s = sys.srcs[b].as_mut().unwrap();
                if matches!(s.tx, Tx::None) {
                    return "bad".into();
                }
                let data: Vec<u8> = (0..k as u64).map(|j| pattern(b, s.seq + j)).collect();
                s.seq += k as u64;
                let r = match &mut s.tx {
                    Tx::Pipe(f) => f.write_all(&data),
                    Tx::Tcp(f) => f.write_all(&data),
                    Tx::Unix(f) => f.write_all(&data),
                    Tx::Udp(f) => f.send(&data).map(|_| ()),
                    Tx::None => unreachable!(),
                };
                if let Err(e) = r {
                    fail(self.ex, &self.tainted, "C07:harness", format!("write failed: {e}"));
                }
                if s.kind == SrcKind::Udp {
                    s.dgrams.push_back(data);
                } else {
                    s.sent.extend_from_slice(&data);
                }
                self.finish_line("ok".into())
            }
            ["alias", j, i] => {
                // a second logical reader on the SAME endpoint (same compio object, same fd) as source `i`
                let (Ok(j), Ok(i)) = (j.parse::<usize>(), i.parse::<usize>()) else { return "bad".into() };
                if !self.src_ok(i) {
                    return "bad".into();
                }
                let sys = self.sys.as_mut().unwrap();
                let s = sys.srcs[i].as_ref().unwrap();
                if j != sys.srcs.len() || j >= 8 || s.kind == SrcKind::File {
                    return "bad".into();
                }
                let a = Src {
                    fut: None,
                    strm: None,
                    kind: s.kind,
                    rx: s.rx.clone(),
                    base: s.base,
                    token: None,
                    refs: vec![],
                    tx: Tx::None,
                    sent: vec![],
                    rpos: 0,
                    dgrams: VecDeque::new(),
                    from_multi: s.from_multi,
                    lossy: false,
                    seq: 0,
                };
                sys.srcs.push(Some(a));
                self.ex.tag("alias:concurrent-readers-on-one-fd");
                self.finish_line("ok".into())
            }
            ["close", i] => {
                let Ok(i) = i.parse::<usize>() else { return "bad".into() };
                if !self.src_ok(i) {
                    return "bad".into();
                }
                let sys = self.sys.as_mut().unwrap();
                let b = sys.srcs[i].as_ref().unwrap().base;
                let s = sys.srcs[b].as_mut().unwrap();
                if !s.kind.is_stream() || matches!(s.tx, Tx::None) {
                    return "bad".into();
                }
                s.tx = Tx::None;
                self.finish_line("ok".into())
            }
            ["read", i, len] | ["readat", i, len, _] => {
                let (Ok(i), Ok(len)) = (i.parse::<usize>(), len.parse::<usize>()) else { return "bad".into() };
                let pos: u64 = if w.len() == 4 {
                    match w[3].parse() {
                        Ok(p) => p,
                        Err(_) => return "bad".into(),
                    }
                } else {
                    0
                };
                if !self.src_ok(i) || len > 4096 {
                    return "bad".into();
                }
                let sys = self.sys.as_mut().unwrap();
                let s = sys.srcs[i].as_mut().unwrap();
                if s.fut.is_some() || s.strm.is_some() || (s.kind == SrcKind::File) != (w.len() == 4) {
                    return "bad".into();
                }
                let rt = sys.rt.as_ref().unwrap();
                let token = rt.enter(compio_runtime::CancelToken::new);
                let inner = start_read(s, len, pos);
                let mut fut: Fut = Box::pin(compio_runtime::FutureExt::with_cancel(inner, token.clone()));
                s.token = Some(token);
                let mut cx = noop_cx();
                let first = rt.enter(|| fut.as_mut().poll(&mut cx));
                match first {
                    Poll::Ready(r) => {
                        // e.g. the fallback pool is exhausted when the op is created
                        let res = self.ready_result(r, Some(i), "now");
                        self.finish_line(res)
                    }
                    Poll::Pending => {
                        let is_file = s.kind == SrcKind::File;
                        s.fut = Some(fut);
                        if is_file {
                            // a file read always completes; wait for it (thread pool / io-wq), bounded
                            let t0 = Instant::now();
                            loop {
                                let sys = self.sys.as_mut().unwrap();
                                sys.rt().poll_with(Some(Duration::from_millis(1)));
                                let s = sys.srcs[i].as_mut().unwrap();
                                let mut cx = noop_cx();
                                let fut = s.fut.as_mut().unwrap();
                                let p = sys.rt.as_ref().unwrap().enter(|| fut.as_mut().poll(&mut cx));
                                if let Poll::Ready(r) = p {
                                    s.fut = None;
                                    let res = self.ready_result(r, Some(i), "now");
                                    return self.finish_line(res);
                                }
                                if t0.elapsed() > Duration::from_secs(5) {
                                    fail(self.ex, &self.tainted, "C07:hang", "a managed file read did not complete within 5 s");
                                    return self.finish_line("pending".into());
                                }
                            }
                        }
                        self.finish_line("started".into())
                    }
                }
            }
            ["await", i] => {
                let Ok(i) = i.parse::<usize>() else { return "bad".into() };
                if !self.src_ok(i) {
                    return "bad".into();
                }
                let sys = self.sys.as_mut().unwrap();
                let s = sys.srcs[i].as_mut().unwrap();
                let Some(fut) = s.fut.as_mut() else { return "bad".into() };
                let mut cx = noop_cx();
                let p = sys.rt.as_ref().unwrap().enter(|| fut.as_mut().poll(&mut cx));
                match p {
                    Poll::Pending => {
                        // M8: the only live reader of this endpoint is still waiting although data that was
                        // written is neither in the kernel any more nor in anybody's hands
                        let b = s.base;
                        let others = sys
                            .srcs
                            .iter()
                            .enumerate()
                            .filter(|(j, x)| *j != i && x.as_ref().is_some_and(|x| x.base == b && (x.fut.is_some() || x.strm.is_some())))
                            .count();
                        let bs = sys.srcs[b].as_ref().unwrap();
                        let missing = !bs.lossy && (bs.sent.len() > bs.rpos || !bs.dgrams.is_empty()) && bs.kind != SrcKind::File;
                        if missing && others == 0 && !self.readable(i) {
                            fail(
                                self.ex,
                                &self.tainted,
                                "C07:data-to-dead-op",
                                format!("source {i}: data was sent, it is not pending in the kernel, no live reader has it, and the only live reader is still Pending: a dead (cancelled) operation consumed it"),
                            );
                        }
                        self.finish_line("pending".into())
                    }
                    Poll::Ready(r) => {
                        s.fut = None;
                        s.token = None;
                        let res = self.ready_result(r, Some(i), "ready");
                        self.finish_line(res)
                    }
                }
            }
            ["tcancel", i] => {
                // `CancelToken::cancel`: the op is cancelled, the future stays and reports it
                let Ok(i) = i.parse::<usize>() else { return "bad".into() };
                if !self.src_ok(i) {
                    return "bad".into();
                }
                let sys = self.sys.as_mut().unwrap();
                let s = sys.srcs[i].as_mut().unwrap();
                if s.fut.is_none() {
                    return "bad".into();
                }
                if let Some(t) = s.token.take() {
                    sys.rt.as_ref().unwrap().enter(|| t.cancel());
                }
                self.ex.tag("cancel:token");
                self.finish_line("ok".into())
            }
            ["cancel", i] => {
                let Ok(i) = i.parse::<usize>() else { return "bad".into() };
                if !self.src_ok(i) {
                    return "bad".into();
                }
                let sys = self.sys.as_mut().unwrap();
                let s = sys.srcs[i].as_mut().unwrap();
                let Some(fut) = s.fut.take() else { return "bad".into() };
                s.token = None;
                let b = s.base;
                // the dropped op can only have swallowed data if some data is unaccounted for
                let bs = sys.srcs[b].as_mut().unwrap();
                if bs.sent.len() != bs.rpos || !bs.dgrams.is_empty() {
                    bs.lossy = true;
                }
                sys.rt.as_ref().unwrap().enter(|| drop(fut));
                self.finish_line("ok".into())
            }
            ["open", i, len] => {
                let (Ok(i), Ok(len)) = (i.parse::<usize>(), len.parse::<usize>()) else { return "bad".into() };
                if !self.src_ok(i) || len > 4096 {
                    return "bad".into();
                }
                let sys = self.sys.as_mut().unwrap();
                let s = sys.srcs[i].as_mut().unwrap();
                if s.fut.is_some() || s.strm.is_some() || s.kind == SrcKind::File {
                    return "bad".into();
                }
                let st = sys.rt.as_ref().unwrap().enter(|| open_stream(s, len));
                s.strm = st;
                self.finish_line("ok".into())
            }
            ["next", i] | ["nextw", i] => {
                let Ok(i) = i.parse::<usize>() else { return "bad".into() };
                if !self.src_ok(i) {
                    return "bad".into();
                }
                if self.sys.as_ref().unwrap().srcs[i].as_ref().unwrap().strm.is_none() {
                    return "bad".into();
                }
                let wait = w[0] == "nextw";
                let streak = if self.streak.0 == i { self.streak.1 } else { 0 };
                let (mut res, mut pending) = self.poll_stream(i);
                if !wait {
                    // M6 (passive): two consecutive polls of the same stream (the driver ran in between) both
                    // Pending although the fd is readable: the stream neither yields nor reports exhaustion
                    if pending && self.readable(i) {
                        self.keep_streak = Some((i, streak + 1));
                        if streak + 1 >= 2 {
                            self.report_hang(i, streak + 1);
                        }
                    }
                    return self.finish_line(res);
                }
                // `nextw`: await the item -- poll, let the driver run, poll again; a further Pending is only
                // legitimate when there is nothing to read
                let mut polls = 1;
                while pending && (polls < 2 || (self.readable(i) && polls < 64)) {
                    self.sys.as_ref().unwrap().settle();
                    let r = self.poll_stream(i);
                    res = r.0;
                    pending = r.1;
                    polls += 1;
                }
                if pending && self.readable(i) {
                    self.report_hang(i, polls);
                }
                if polls > 2 {
                    self.ex.tag("nextw:more-than-2-polls");
                }
                self.finish_line(res)
            }
            ["dstream", i] => {
                let Ok(i) = i.parse::<usize>() else { return "bad".into() };
                if !self.src_ok(i) {
                    return "bad".into();
                }
                let sys = self.sys.as_mut().unwrap();
                let s = sys.srcs[i].as_mut().unwrap();
                let Some(st) = s.strm.take() else { return "bad".into() };
                let b = s.base;
                let bs = sys.srcs[b].as_mut().unwrap();
                if bs.sent.len() != bs.rpos || !bs.dgrams.is_empty() {
                    bs.lossy = true;
                }
                sys.rt.as_ref().unwrap().enter(|| drop(st));
                self.finish_line("ok".into())
            }
            ["drop", id] => {
                let Ok(id) = id.parse::<u16>() else { return "bad".into() };
                let sys = self.sys.as_mut().unwrap();
                let Some(h) = sys.held.remove(&id) else { return "bad".into() };
                drop(h);
                self.finish_line("ok".into())
            }
            ["dropn", k] => {
                let Ok(k) = k.parse::<usize>() else { return "bad".into() };
                let sys = self.sys.as_mut().unwrap();
                if sys.held.is_empty() {
                    return "bad".into();
                }
                let id = *sys.held.keys().nth(k % sys.held.len()).unwrap();
                drop(sys.held.remove(&id));
                self.finish_line("ok".into())
            }
            ["pop"] => {
                let sys = self.sys.as_mut().unwrap();
                if sys.released {
                    return "bad".into();
                }
                let r = catch(|| sys.pool.as_ref().unwrap().pop());
                let res = match r {
                    Err(p) => {
                        self.ex.tag("panic:pop");
                        format!("panic {}", panic_name(&p))
                    }
                    Ok(Err(e)) => format!("err {}", err_name(&e)),
                    Ok(Ok(b)) => format!("some {}", self.acquire(b, None)),
                };
                self.finish_line(res)
            }
            ["take", id] => {
                let Ok(id) = id.parse::<u16>() else { return "bad".into() };
                let sys = self.sys.as_mut().unwrap();
                if sys.released {
                    return "bad".into();
                }
                let before = sys.snap();
                let r = sys.pool.as_ref().unwrap().take(id);
                if matches!(r, Ok(Some(_))) && (before.prov.contains(&id) || before.queue.contains(&id)) {
                    let t = format!(
                        "BufferPool::take({id}) handed out a buffer that is {}",
                        if sys.ring { "provided to the kernel" } else { "in the free queue" }
                    );
                    self.ex.tag("raw:take-pool-owned");
                    self.tainted = Some(t.clone());
                    fail(self.ex, &None, "C07a:raw-take-of-pool-owned-id", t);
                }
                let res = match r {
                    Err(e) => format!("err {}", err_name(&e)),
                    Ok(None) => "none".to_string(),
                    Ok(Some(b)) => format!("some {}", self.acquire(b, None)),
                };
                self.finish_line(res)
            }
            ["reset", id] => {
                let Ok(id) = id.parse::<u16>() else { return "bad".into() };
                let sys = self.sys.as_mut().unwrap();
                if sys.released {
                    return "bad".into();
                }
                let before = sys.snap();
                let r = sys.pool.as_ref().unwrap().reset(id);
                if matches!(r, Ok(true)) && (before.prov.contains(&id) || before.queue.contains(&id)) {
                    let t = format!(
                        "BufferPool::reset({id}) re-provided a buffer that is already {}",
                        if sys.ring { "provided to the kernel" } else { "in the free queue" }
                    );
                    self.ex.tag("raw:reset-pool-owned");
                    self.tainted = Some(t.clone());
                    fail(self.ex, &None, "C07a:raw-take-of-pool-owned-id", t);
                }
                let res = match r {
                    Err(e) => format!("err {}", err_name(&e)),
                    Ok(b) => format!("{b}"),
                };
                self.finish_line(res)
            }
            ["wcancel", i, k] | ["wdstream", i, k] => {
                // the peer writes and the future / stream is dropped BEFORE the driver is polled again:
                // on io_uring the kernel has already completed the receive into a pool buffer and the
                // completion is reaped only after the user's key is gone
                let (Ok(i), Ok(k)) = (i.parse::<usize>(), k.parse::<usize>()) else { return "bad".into() };
                if !self.src_ok(i) || k == 0 || k > 1024 {
                    return "bad".into();
                }
                let multi = w[0] == "wdstream";
                let sys = self.sys.as_mut().unwrap();
                let s = sys.srcs[i].as_mut().unwrap();
                if matches!(s.tx, Tx::None) || (multi && s.strm.is_none()) || (!multi && s.fut.is_none()) {
                    return "bad".into();
                }
                let data: Vec<u8> = (0..k as u64).map(|j| pattern(i, s.seq + j)).collect();
                s.seq += k as u64;
                let r = match &mut s.tx {
                    Tx::Pipe(f) => f.write_all(&data),
                    Tx::Tcp(f) => f.write_all(&data),
                    Tx::Unix(f) => f.write_all(&data),
                    Tx::Udp(f) => f.send(&data).map(|_| ()),
                    Tx::None => unreachable!(),
                };
                if let Err(e) = r {
                    fail(self.ex, &self.tainted, "C07:harness", format!("write failed: {e}"));
                }
                if s.kind == SrcKind::Udp {
                    s.dgrams.push_back(data);
                } else {
                    s.sent.extend_from_slice(&data);
                }
                s.lossy = true;
                let rt = sys.rt.as_ref().unwrap();
                if multi {
                    let st = s.strm.take();
                    rt.enter(|| drop(st));
                } else {
                    let f = s.fut.take();
                    rt.enter(|| drop(f));
                }
                self.ex.tag(if multi { "race:write-then-drop-stream" } else { "race:write-then-drop-future" });
                self.finish_line("ok".into())
            }
            ["spin", i, k] => {
                let (Ok(i), Ok(k)) = (i.parse::<usize>(), k.parse::<usize>()) else { return "bad".into() };
                if !self.src_ok(i) || k > 200000 {
                    return "bad".into();
                }
                {
                    let sys = self.sys.as_ref().unwrap();
                    let s = sys.srcs[i].as_ref().unwrap();
                    if s.kind != SrcKind::Pipe
                        || s.fut.is_some()
                        || s.strm.is_some()
                        || matches!(s.tx, Tx::None)
                        || s.rpos != s.sent.len()
                    {
                        return "bad".into();
                    }
                }
                // fast path: same four steps (write 1 byte, read_managed(1), await, drop) without the
                // full snapshot after each of them; stops at the first read that yields no buffer
                let mut done = 0usize;
                let mut stop: Option<String> = None;
                while done < k && stop.is_none() {
                    let sys = self.sys.as_mut().unwrap();
                    let s = sys.srcs[i].as_mut().unwrap();
                    let byte = pattern(i, s.seq);
                    s.seq += 1;
                    s.sent.push(byte);
                    if let Tx::Pipe(f) = &mut s.tx
                        && let Err(e) = f.write_all(&[byte])
                    {
                        fail(self.ex, &self.tainted, "C07:harness", format!("spin: write failed: {e}"));
                        break;
                    }
                    let mut fut = start_read(s, 1, 0);
                    let rt = sys.rt.as_ref().unwrap();
                    let mut res = None;
                    for _ in 0..1000 {
                        let mut cx = noop_cx();
                        if let Poll::Ready(r) = rt.enter(|| fut.as_mut().poll(&mut cx)) {
                            res = Some(r);
                            break;
                        }
                        rt.poll_with(Some(Duration::ZERO));
                    }
                    rt.enter(|| drop(fut));
                    match res {
                        Some(Ok(Some(b))) => {
                            let s = sys.srcs[i].as_mut().unwrap();
                            if b.len() != 1 || b[0] != byte {
                                stop = Some("spin: wrong content".into());
                                fail(self.ex, &self.tainted, "C07:content", "spin: a 1-byte read did not return the byte written");
                            }
                            s.rpos = s.sent.len();
                            if let Some(id) = buf_id(&b)
                                && sys.held.contains_key(&id)
                            {
                                fail(self.ex, &self.tainted, "C07:alias", format!("spin: buffer {id} handed out while a handle holds it"));
                            }
                            drop(b);
                            done += 1;
                        }
                        Some(Ok(None)) => stop = Some("none".into()),
                        Some(Err(e)) => {
                            s_lossy(sys, i);
                            stop = Some(err_name(&e));
                        }
                        None => {
                            fail(self.ex, &self.tainted, "C07:hang", "spin: a read on a pipe with data did not complete within 1000 polls");
                            stop = Some("hang".into());
                        }
                    }
                    if done % 8192 == 0 {
                        let snap = self.sys.as_ref().unwrap().settle();
                        self.monitors(&snap);
                    }
                }
                self.ex.tag("spin");
                self.finish_line("ok".into())
            }
            ["release"] => {
                let sys = self.sys.as_mut().unwrap();
                if sys.released {
                    return "bad".into();
                }
                self.release();
                self.finish_line("ok".into())
            }
            // session 3 (seed C07-5a): the Proactor is dropped while the driver still owns the ops of the dropped
            // futures / streams (nothing is polled between the drops and `Drop for Proactor`): their buffers are
            // dropped AFTER `BufferPoolRoot::release`
            ["arelease"] => {
                let sys = self.sys.as_mut().unwrap();
                if sys.released {
                    return "bad".into();
                }
                self.ex.tag("release:abrupt");
                let rt = sys.rt.take().unwrap();
                rt.enter(|| {
                    sys.srcs.clear();
                });
                drop(rt);
                sys.released = true;
                // M9 (implementation only): with no live handle every buffer must be deallocated right now
                if sys.held.is_empty() {
                    sys.pool = None;
                    ALLOC.with(|a| {
                        let a = a.borrow();
                        if a.allocs != a.deallocs || !a.live.is_empty() {
                            fail(self.ex, &self.tainted, "C07:teardown-leak", format!("Proactor dropped with in-flight managed ops and no live handle: {} buffers allocated, {} deallocated, {} still live", a.allocs, a.deallocs, a.live.len()));
                        }
                    });
                }
                self.finish_line("ok".into())
            }
            _ => "bad".into(),
        }
    }

    fn ready_result(&mut self, r: io::Result<Option<BufferRef>>, src: Option<usize>, tag: &str) -> String {
        match r {
            Ok(Some(b)) => format!("{tag} some {}", self.acquire(b, src)),
            Ok(None) => format!("{tag} none"),
            Err(e) => {
                if let Some(i) = src {
                    let sys = self.sys.as_mut().unwrap();
                    if let Some(Some(s)) = sys.srcs.get(i) {
                        let b = s.base;
                        s_lossy(sys, b);
                    }
                }
                format!("{tag} err {}", err_name(&e))
            }
        }
    }

    /// drop every future, stream, endpoint, the pool handle and the runtime; live handles stay
    fn release(&mut self) {
        let sys = self.sys.as_mut().unwrap();
        let rt = sys.rt.take().unwrap();
        rt.enter(|| {
            sys.srcs.clear();
        });
        // let cancellations finish while the driver is alive
        for _ in 0..4 {
            rt.poll_with(Some(Duration::ZERO));
        }
        drop(rt);
        sys.released = true;
    }
}

/// route a monitor failure: once a case has taken a pool-owned buffer through the raw API (finding C07a),
/// everything that follows is a consequence of that and is reported under its signature
fn fail(ex: &mut Exec, tainted: &Option<String>, sig: &str, detail: impl Into<String>) {
    let detail = detail.into();
    match tainted {
        Some(t) if sig != "C07:harness" => {
            if ex.failures.len() >= 4 {
                return;
            }
            ex.fail("C07a:raw-take-of-pool-owned-id", format!("{t}; consequence: [{sig}] {detail}"))
        }
        _ => ex.fail(sig, detail),
    }
}

fn s_lossy(sys: &mut Sys, i: usize) {
    if let Some(Some(s)) = sys.srcs.get_mut(i) {
        s.lossy = true;
    }
}

fn panic_name(p: &str) -> &'static str {
    if p.contains("Buffer should be available") {
        "unavailable"
    } else if p.contains("Buffer should not be in use") {
        "in-use"
    } else {
        "other"
    }
}

fn exec(case: &Case) -> Exec {
    let mut ex = Exec::new();
    let trace = std::env::var("C07_TRACE").is_ok();
    let mut out = vec![];
    {
        let mut r = Runner { sys: None, ex: &mut ex, trace, poisoned: false, tainted: None, streak: (usize::MAX, 0), keep_streak: None };
        for line in &case.lines {
            let w: Vec<&str> = line.split_whitespace().collect();
            let o = if r.poisoned {
                "dead".to_string()
            } else {
                r.keep_streak = None;
                let res = catch(|| r.op(&w));
                r.streak = r.keep_streak.take().unwrap_or((usize::MAX, 0));
                match res {
                    Ok(o) => o,
                    Err(p) => {
                        let name = panic_name(&p);
                        r.ex.tag(format!("panic:{name}"));
                        if name == "unavailable" {
                            // `BufferPool::pop`: "Buffer should be available" -- the pool stays usable
                            fail(r.ex, &r.tainted, "C07:panic", format!("operation `{line}` panicked: {p}"));
                            match catch(|| r.finish_line(format!("panic {name}"))) {
                                Ok(o) => o,
                                Err(_) => {
                                    r.poisoned = true;
                                    format!("panic {name}")
                                }
                            }
                        } else {
                            // a panic inside the driver: nothing can be trusted afterwards
                            fail(r.ex, &r.tainted, "C07:panic", format!("operation `{line}` panicked: {p}"));
                            r.poisoned = true;
                            format!("panic {name}")
                        }
                    }
                }
            };
            if r.trace {
                eprintln!("{line}  =>  {o}");
            }
            out.push(o);
        }
        r.teardown();
    }
    // distribution: which kinds of results this case produced
    let mut classes: Vec<String> = out
        .iter()
        .map(|o| {
            let r = o.split(" | ").next().unwrap_or("");
            let cls: String = r
                .split_whitespace()
                .filter(|w| !w.chars().next().is_some_and(|c| c.is_ascii_digit()) && !w.starts_with("n="))
                .collect::<Vec<_>>()
                .join("-");
            format!("out:{cls}")
        })
        .collect();
    classes.sort();
    classes.dedup();
    let moved = out.iter().any(|o| {
        o.split(" | ").nth(1).is_some_and(|s| s.split_whitespace().next().is_some_and(|x| x.starts_with("S=") && x.contains('0')))
    });
    for c in classes {
        ex.tag(c);
    }
    if out.iter().any(|o| o.contains("released L=") && !o.ends_with("L=-")) {
        ex.tag("release-with-live-handles");
    }
    ex.out = out;
    ex.nontrivial = ex.tags.iter().any(|t| t.starts_with("kind:")) && moved;
    ex
}

impl Runner<'_> {
    /// end of case: conservation monitors
    fn teardown(&mut self) {
        if self.poisoned {
            // the driver panicked half-way through a completion: do not run its destructors
            std::mem::forget(self.sys.take());
            return;
        }
        let Some(sys) = self.sys.as_mut() else { return };
        if !sys.released {
            // drop all futures and streams, then all handles
            let rt = sys.rt.as_ref().unwrap();
            rt.enter(|| {
                for s in sys.srcs.iter_mut().flatten() {
                    s.fut = None;
                    s.strm = None;
                }
            });
            sys.held.clear();
            let snap = sys.settle();
            let n = sys.n;
            // M5a: every id is back exactly once
            let mut owned: Vec<u16> = if sys.ring { snap.prov.clone() } else { snap.queue.clone() };
            owned.sort();
            let all: Vec<u16> = (0..n as u16).collect();
            if owned != all || snap.slots.iter().any(|b| !*b) {
                fail(self.ex, &self.tainted, 
                    "C07:conservation",
                    format!("after dropping every handle, future and stream the pool owns {:?} of {n} buffers, slots {:?}", owned, snap.slots),
                );
            }
            // M5b: the number of buffers obtainable again equals the pool size, then exhaustion is an error
            self.obtainable();
            let sys = self.sys.as_mut().unwrap();
            sys.held.clear();
            self.release();
        }
        let sys = self.sys.as_mut().unwrap();
        sys.held.clear();
        sys.pool = None;
        ALLOC.with(|a| {
            let a = a.borrow();
            if a.allocs != a.deallocs || !a.live.is_empty() {
                fail(self.ex, &self.tainted, 
                    "C07:alloc-balance",
                    format!("{} buffers allocated, {} deallocated, {} still live after everything was dropped", a.allocs, a.deallocs, a.live.len()),
                );
            }
            for e in &a.errors {
                fail(self.ex, &self.tainted, "C07:alloc", e.clone());
            }
        });
        self.sys = None;
    }

    fn obtainable(&mut self) {
        let sys = self.sys.as_mut().unwrap();
        let n = sys.n;
        if !sys.ring {
            let pool = sys.pool.as_ref().unwrap();
            let mut got = vec![];
            let mut err = None;
            for _ in 0..n + 1 {
                match catch(|| pool.pop()) {
                    Ok(Ok(b)) => got.push(b),
                    Ok(Err(e)) => {
                        err = Some(err_name(&e));
                        break;
                    }
                    Err(p) => {
                        err = Some(format!("panic {p}"));
                        break;
                    }
                }
            }
            let mut ptrs: Vec<usize> = got.iter_mut().map(|b| b.as_uninit().as_ptr() as usize).collect();
            ptrs.sort();
            ptrs.dedup();
            if got.len() != n || ptrs.len() != n || err.as_deref() != Some("busy") {
                fail(self.ex, &self.tainted, 
                    "C07:shrink",
                    format!("fallback pool of {n}: {} buffers obtainable ({} distinct), then {:?}", got.len(), ptrs.len(), err),
                );
            }
            return;
        }
        // ring: n single-shot reads of one byte each on a fresh pipe give n distinct buffers, the next one ResourceBusy
        let idx = sys.srcs.len();
        let Ok(mut s) = make_src(sys, SrcKind::Pipe, idx, 0) else { return };
        if let Tx::Pipe(f) = &mut s.tx {
            let _ = f.write_all(&vec![0x5a; n + 1]);
        }
        let mut got: Vec<BufferRef> = vec![];
        let mut last = None;
        for k in 0..n + 1 {
            let mut fut = start_read(&mut s, 1, 0);
            let mut res = None;
            for _ in 0..200 {
                let mut cx = noop_cx();
                if let Poll::Ready(r) = sys.rt().enter(|| fut.as_mut().poll(&mut cx)) {
                    res = Some(r);
                    break;
                }
                sys.rt().poll_with(Some(Duration::from_millis(1)));
            }
            sys.rt().enter(|| drop(fut));
            match res {
                None => {
                    fail(self.ex, &self.tainted, "C07:hang", format!("read {k} of the obtainable-count probe did not finish within 200 polls"));
                    break;
                }
                Some(Ok(Some(b))) => got.push(b),
                Some(Ok(None)) => last = Some("none".to_string()),
                Some(Err(e)) => last = Some(err_name(&e)),
            }
        }
        let mut ptrs: Vec<usize> = got.iter_mut().map(|b| b.as_uninit().as_ptr() as usize).collect();
        ptrs.sort();
        ptrs.dedup();
        if got.len() != n || ptrs.len() != n || last.as_deref() != Some("busy") {
            fail(self.ex, &self.tainted, 
                "C07:shrink",
                format!("ring pool of {n}: {} buffers obtainable ({} distinct), then {:?}", got.len(), ptrs.len(), last),
            );
        }
        drop(got);
        sys.rt().enter(|| drop(s));
        sys.settle();
    }
}

// ---------------------------------------------------------------------------------------------
// generator
// ---------------------------------------------------------------------------------------------

const KINDS: [&str; 5] = ["pipe", "tcp", "unix", "udp", "file"];

struct GSrc {
    kind: &'static str,
    fut: bool,
    strm: bool,
    closed: bool,
    data: bool,
}

/// one structure-aware random program: mostly valid operations chosen with a rough idea of the state
fn gen_program(rng: &mut Rng, kind: &str, n: u64, len: u64, n_ops: usize) -> Vec<String> {
    let mut lines = vec![format!("init {kind} {n} {len}")];
    let ns = rng.range(1, 4) as usize;
    let mut srcs: Vec<GSrc> = vec![];
    for i in 0..ns {
        let k = if rng.chance(1, 8) { "file" } else { *rng.pick(&KINDS[..4]) };
        let size = if k == "file" { rng.range(0, 3 * len) } else { 0 };
        lines.push(format!("src {i} {k} {size}"));
        srcs.push(GSrc { kind: k, fut: false, strm: false, closed: false, data: false });
    }
    let lens = [0, 0, 0, 1, len / 2, len, len + 5, 3];
    let mut released = false;
    for _ in 0..n_ops {
        let i = rng.below(ns as u64) as usize;
        let s = &mut srcs[i];
        let r = rng.below(100);
        if released {
            // after the runtime is gone only handles remain
            if r < 80 {
                lines.push(format!("dropn {}", rng.below(16)));
            } else {
                lines.push(format!("write {i} 1"));
            }
            continue;
        }
        if s.kind == "file" {
            if r < 60 {
                let size = 3 * len;
                lines.push(format!("readat {i} {} {}", rng.pick(&lens), rng.below(size + 4)));
            } else {
                lines.push(format!("dropn {}", rng.below(16)));
            }
            continue;
        }
        if r < 22 {
            if !s.closed {
                let k = if rng.chance(1, 3) { rng.range(1, 3 * len) } else { rng.range(1, len + 2) };
                lines.push(format!("write {i} {}", k.min(1024)));
                s.data = true;
            }
        } else if r < 34 {
            if !s.fut && !s.strm {
                lines.push(format!("read {i} {}", rng.pick(&lens)));
                s.fut = true;
            } else if s.fut {
                lines.push(format!("await {i}"));
                if s.data || s.closed {
                    s.fut = false;
                    s.data = rng.chance(1, 2);
                }
            }
        } else if r < 44 {
            if s.fut {
                lines.push(format!("await {i}"));
                if s.data || s.closed {
                    s.fut = false;
                    s.data = rng.chance(1, 2);
                }
            }
        } else if r < 49 {
            if s.fut {
                if rng.chance(1, 2) && !s.closed {
                    lines.push(format!("wcancel {i} {}", rng.range(1, len + 2)));
                } else {
                    lines.push(format!("cancel {i}"));
                }
                s.fut = false;
            }
        } else if r < 57 {
            if !s.fut && !s.strm {
                lines.push(format!("open {i} {}", rng.pick(&lens)));
                s.strm = true;
            }
        } else if r < 77 {
            if s.strm {
                lines.push(format!("{} {i}", if rng.chance(1, 3) { "nextw" } else { "next" }));
                if rng.chance(1, 3) {
                    s.data = false;
                }
            }
        } else if r < 82 {
            if s.strm {
                if rng.chance(1, 2) && !s.closed {
                    lines.push(format!("wdstream {i} {}", rng.range(1, 2 * len + 2)));
                } else {
                    lines.push(format!("dstream {i}"));
                }
                s.strm = false;
            }
        } else if r < 95 {
            lines.push(format!("dropn {}", rng.below(16)));
        } else if r < 97 {
            if !s.closed && s.kind != "udp" {
                lines.push(format!("close {i}"));
                s.closed = true;
            }
        } else if r < 98 {
            if kind == "fb" {
                lines.push("pop".to_string());
            }
        } else if r < 99 {
            if rng.chance(1, 3) {
                lines.push("release".to_string());
                released = true;
            }
        } else {
            // an invalid / out-of-range operation now and then
            match rng.below(4) {
                0 => lines.push(format!("await {}", rng.below(10))),
                1 => lines.push(format!("take {}", 64 + rng.below(10))),
                2 => lines.push(format!("reset {}", 64 + rng.below(10))),
                _ => lines.push(format!("next {}", rng.below(10))),
            }
        }
    }
    lines
}

/// hold every buffer, then show that exhaustion is an error and that a returned buffer is usable again
fn gen_exhaust(rng: &mut Rng, kind: &str, n: u64, len: u64) -> Vec<String> {
    let sk = *rng.pick(&KINDS[..4]);
    let mut lines = vec![format!("init {kind} {n} {len}"), format!("src 0 {sk} 0"), "src 1 pipe 0".to_string()];
    let np = n.next_power_of_two();
    let multi = rng.chance(1, 2);
    if multi {
        lines.push("open 0 1".into());
        lines.push("next 0".into());
        for _ in 0..np + 1 {
            lines.push("write 0 1".into());
        }
        let nx = if rng.chance(1, 2) { "nextw 0" } else { "next 0" };
        for _ in 0..np + 2 {
            lines.push(nx.into());
        }
        lines.push(nx.into());
        lines.push(nx.into());
    } else {
        for _ in 0..np + 1 {
            lines.push("write 0 1".into());
            lines.push("read 0 1".into());
            lines.push("await 0".into());
        }
    }
    lines.push("write 1 3".into());
    lines.push("read 1 0".into());
    lines.push("await 1".into());
    lines.push(format!("dropn {}", rng.below(16)));
    lines.push("read 1 0".into());
    lines.push("await 1".into());
    lines.push("next 0".into());
    lines.push("next 0".into());
    if rng.chance(1, 2) {
        lines.push("release".into());
    }
    for _ in 0..np {
        lines.push(format!("dropn {}", rng.below(16)));
    }
    lines
}

/// completions that arrive after the user dropped the future / the stream: a read is pending in the
/// kernel, the peer writes (the kernel completes the read into a pool buffer), the future is dropped
/// before the driver reaps the completion; repeated more often than the pool has buffers
fn gen_cancel_race(rng: &mut Rng, kind: &str, n: u64, len: u64, sk: &str) -> Vec<String> {
    let mut lines = vec![format!("init {kind} {n} {len}"), format!("src 0 {sk} 0")];
    let np = n.next_power_of_two();
    let rounds = np + 1 + rng.below(3);
    let multi = rng.chance(1, 3);
    for r in 0..rounds {
        if multi {
            lines.push(format!("open 0 {}", if sk == "pipe" { 0 } else { *rng.pick(&[0, 1, len]) }));
            lines.push("next 0".into());
            lines.push(format!("wdstream 0 {}", rng.range(1, len + 1)));
        } else {
            lines.push(format!("read 0 {}", rng.pick(&[0, 1, len])));
            if rng.chance(1, 6) {
                lines.push("await 0".into());
            }
            lines.push(format!("wcancel 0 {}", rng.range(1, len + 1)));
        }
        if r % 3 == 2 && rng.chance(1, 2) {
            // a normal read in between: the data of the cancelled reads may or may not be there
            lines.push("write 0 2".into());
            lines.push("read 0 0".into());
            lines.push("await 0".into());
            lines.push("dropn 0".into());
        }
    }
    // afterwards the pool must still hand out buffers
    lines.push("write 0 3".into());
    lines.push("read 0 0".into());
    lines.push("await 0".into());
    lines
}

/// a multishot stream whose consumer holds every buffer of the pool while more data is pending: the next
/// item must be `Err(ResourceBusy)` (not a hang), again and again, and after a buffer was dropped the
/// stream must continue
fn gen_stream_exhaust(rng: &mut Rng, kind: &str, n: u64, len: u64, sk: &str) -> Vec<String> {
    let mut lines = vec![format!("init {kind} {n} {len}"), format!("src 0 {sk} 0")];
    let np = n.next_power_of_two();
    let l = if sk == "pipe" { 0 } else { *rng.pick(&[0, len]) };
    lines.push(format!("open 0 {l}"));
    lines.push("nextw 0".into());
    // more chunks than the pool has buffers
    let chunks = np + 2 + rng.below(3);
    for _ in 0..chunks {
        lines.push(format!("write 0 {len}"));
    }
    let nx = |rng: &mut Rng| if rng.chance(2, 3) { "nextw 0" } else { "next 0" };
    for _ in 0..np {
        lines.push("nextw 0".into());
    }
    // every buffer is held, data is pending
    for _ in 0..rng.range(2, 5) {
        lines.push(nx(rng).into());
    }
    // give one buffer back: the stream continues
    lines.push(format!("dropn {}", rng.below(16)));
    lines.push("nextw 0".into());
    lines.push("nextw 0".into());
    lines.push(nx(rng).into());
    lines.push(format!("dropn {}", rng.below(16)));
    lines.push(format!("dropn {}", rng.below(16)));
    for _ in 0..4 {
        lines.push("nextw 0".into());
    }
    lines
}

/// k concurrent managed reads on ONE fd (aliases of source 0), the `ci`-th is cancelled by the given route
/// while the others keep waiting; the cancelled op must release its buffer whatever its position in the
/// driver's wait queue, a fresh read must get a buffer, and data sent afterwards must reach the live readers
/// (polling driver: in FIFO order; io_uring: after all but one were cancelled, the survivor)
fn gen_concurrent(rng: &mut Rng, kind: &str, sk: &str, k: usize, ci: usize, token: bool, exact_pool: bool) -> Vec<String> {
    let len = *rng.pick(&[8u64, 16, 32]);
    let n = if exact_pool { k as u64 } else { k as u64 + 1 + rng.below(4) };
    let mut lines = vec![format!("init {kind} {n} {len}"), format!("src 0 {sk} 0")];
    for a in 1..=k {
        lines.push(format!("alias {a} 0"));
    }
    // one of the waiters may be a multishot stream (polling driver only: there it is an ordinary waiter)
    let mpos = if kind == "fb" && rng.chance(1, 3) { Some(rng.below(k as u64) as usize) } else { None };
    let is_stream = |r: usize| mpos == Some(r);
    for r in 0..k {
        if is_stream(r) {
            lines.push(format!("open {r} 0"));
            lines.push(format!("next {r}"));
        } else {
            lines.push(format!("read {r} 0"));
        }
    }
    let mut live: Vec<usize> = (0..k).collect();
    let cancel_one = |lines: &mut Vec<String>, rng: &mut Rng, r: usize, token: bool| {
        if is_stream(r) {
            lines.push(format!("dstream {r}"));
        } else if token {
            lines.push(format!("tcancel {r}"));
            if rng.chance(1, 2) {
                lines.push(format!("tcancel {r}"));
            }
            lines.push(format!("await {r}"));
        } else {
            lines.push(format!("cancel {r}"));
        }
    };
    cancel_one(&mut lines, rng, ci, token);
    live.retain(|x| *x != ci);
    // a fresh read must obtain a buffer (with `exact_pool` it is the one the cancelled op gave back)
    lines.push(format!("read {k} 0"));
    live.push(k);
    if kind == "ring" {
        // which of several waiters io_uring serves first is not specified: leave one
        while live.len() > 1 {
            let j = rng.below(live.len() as u64) as usize;
            let r = live.remove(j);
            let t = rng.chance(1, 2);
            cancel_one(&mut lines, rng, r, t);
        }
    }
    for r in live.clone() {
        lines.push(format!("write {r} {}", rng.range(1, len)));
        if is_stream(r) {
            lines.push(format!("nextw {r}"));
            lines.push(format!("dstream {r}"));
        } else {
            lines.push(format!("await {r}"));
        }
    }
    for _ in 0..live.len() {
        lines.push(format!("dropn {}", rng.below(4)));
    }
    // the endpoint still works
    lines.push("read 0 0".into());
    lines.push("write 0 2".into());
    lines.push("await 0".into());
    lines
}

/// the u16 tail of the ring wraps around while buffers are held and streams are open
fn gen_wrap(rng: &mut Rng, n: u64, len: u64) -> Vec<String> {
    let mut lines = vec![format!("init ring {n} {len}"), "src 0 pipe 0".to_string(), "src 1 pipe 0".to_string()];
    let np = n.next_power_of_two();
    // hold a few buffers across the wrap
    let hold = rng.below(np);
    for _ in 0..hold {
        lines.push("write 1 1".into());
        lines.push("read 1 1".into());
        lines.push("await 1".into());
    }
    let before = 65536 - np - rng.below(2 * np + 2);
    lines.push(format!("spin 0 {before}"));
    let mut p = gen_program(rng, "ring", n, len, 40);
    p.drain(..1);
    // keep only operations on sources 0 and 1 that exist here
    for l in p {
        if l.starts_with("src ") {
            continue;
        }
        let w: Vec<&str> = l.split_whitespace().collect();
        let ok = match w[0] {
            "dropn" | "pop" | "take" | "reset" => true,
            "release" => false,
            _ => w.get(1).and_then(|x| x.parse::<u64>().ok()).is_some_and(|x| x < 2),
        };
        if ok && !l.starts_with("readat") {
            lines.push(l);
        }
    }
    lines
}

/// the raw `take` / `reset` API applied to buffers the pool still owns (finding C07a)
fn gen_raw(rng: &mut Rng, kind: &str, n: u64, len: u64) -> Vec<String> {
    let mut lines = vec![format!("init {kind} {n} {len}"), "src 0 pipe 0".to_string()];
    let np = n.next_power_of_two();
    let id = rng.below(np);
    match rng.below(3) {
        0 => {
            lines.push(format!("take {id}"));
            lines.push(format!("dropn 0"));
            for _ in 0..np + 1 {
                lines.push(if kind == "fb" { "pop".to_string() } else { "write 0 1".to_string() });
                if kind == "ring" {
                    lines.push("read 0 1".into());
                    lines.push("await 0".into());
                }
            }
        }
        1 => {
            lines.push(format!("reset {id}"));
            for _ in 0..np + 1 {
                lines.push(if kind == "fb" { "pop".to_string() } else { "write 0 1".to_string() });
                if kind == "ring" {
                    lines.push("read 0 1".into());
                    lines.push("await 0".into());
                }
            }
        }
        _ => {
            // hold a pool-owned buffer while the kernel / the free queue hands it out again
            lines.push("take 0".into());
            lines.push("write 0 4".into());
            lines.push("read 0 0".into());
            lines.push("await 0".into());
        }
    }
    lines
}

/// does this kernel give us an io_uring driver with a registered buffer ring, `PBUF_STATUS` and a
/// working managed read? (if not, only the fallback pool is exercised and the evidence says so)
fn ring_available() -> Result<(), String> {
    let mut sys = build_sys(true, 2, 8)?;
    pbuf_head(sys.ring_fd).ok_or("IORING_REGISTER_PBUF_STATUS is not supported")?;
    let mut s = make_src(&sys, SrcKind::Pipe, 0, 0).map_err(|e| e.to_string())?;
    if let Tx::Pipe(f) = &mut s.tx {
        f.write_all(b"x").map_err(|e| e.to_string())?;
    }
    let mut fut = start_read(&mut s, 0, 0);
    let mut ok = false;
    for _ in 0..100 {
        let mut cx = noop_cx();
        if let Poll::Ready(r) = sys.rt().enter(|| fut.as_mut().poll(&mut cx)) {
            ok = matches!(r, Ok(Some(_)));
            break;
        }
        sys.rt().poll_with(Some(Duration::from_millis(1)));
    }
    sys.rt().enter(|| {
        drop(fut);
        drop(s);
    });
    sys.pool = None;
    sys.rt = None;
    if ok { Ok(()) } else { Err("a managed read through the buffer ring did not work".into()) }
}

/// managed ops in flight (pending reads, cancelled-but-unreaped reads, a multishot stream, held handles or none), then
/// the Proactor is dropped at once; afterwards the handles are dropped.  Every buffer must be deallocated exactly once.
fn gen_abrupt_release(rng: &mut Rng, kind: &str, n: u64, len: u64, sk: &str) -> Vec<String> {
    let mut lines = vec![format!("init {kind} {n} {len}"), format!("src 0 {sk} 0"), "src 1 pipe 0".to_string()];
    let hold = rng.chance(1, 2) && n >= 2;
    if hold {
        // a user handle that outlives the Proactor
        lines.push("write 1 1".into());
        lines.push("read 1 1".into());
        lines.push("await 1".into());
    }
    match rng.below(3) {
        0 => {
            lines.push(format!("read 0 {}", rng.pick(&[0, 1, len])));
        }
        1 => {
            lines.push(format!("open 0 {}", if sk == "pipe" { 0 } else { *rng.pick(&[0, len]) }));
            lines.push("next 0".into());
        }
        _ => {
            lines.push(format!("read 0 {}", rng.pick(&[0, 1, len])));
            if n >= 3 || !hold && n >= 2 {
                lines.push("alias 2 0".into());
                lines.push(format!("read 2 {}", rng.pick(&[0, 1, len])));
            }
        }
    }
    lines.push("arelease".into());
    if hold {
        lines.push(format!("dropn {}", rng.below(16)));
    }
    lines
}

/// UDP `recv_from_multi`: the user keeps every received datagram while more datagrams arrive than the pool has buffers:
/// held contents must not change (canary), the (np+1)-th item is `ResourceBusy`, after a drop the stream continues
fn gen_dgram_multi_hold(rng: &mut Rng, kind: &str, n: u64) -> Vec<String> {
    let mut lines = vec![format!("init {kind} {n} 256"), "src 0 udpf 0".to_string(), "open 0 0".to_string(), "nextw 0".to_string()];
    let np = n.next_power_of_two();
    let one_by_one = rng.chance(1, 2);
    let total = np + 1 + rng.below(3);
    if one_by_one {
        for _ in 0..total {
            lines.push(format!("write 0 {}", rng.range(1, 33)));
            lines.push("nextw 0".into());
        }
    } else {
        for _ in 0..total {
            lines.push(format!("write 0 {}", rng.range(1, 33)));
        }
        for _ in 0..total {
            lines.push("nextw 0".into());
        }
    }
    lines.push("nextw 0".into());
    lines.push(format!("dropn {}", rng.below(16)));
    lines.push("nextw 0".into());
    lines.push("nextw 0".into());
    lines.push(format!("dropn {}", rng.below(16)));
    lines.push(format!("write 0 {}", rng.range(1, 33)));
    lines.push("nextw 0".into());
    if rng.chance(1, 2) {
        lines.push("dstream 0".into());
    }
    lines
}

fn generate(tier: &str, rng: &mut Rng) -> Vec<Case> {
    let thorough = tier == "thorough";
    let mut cases = vec![];
    let ring_ok = match catch(ring_available) {
        Ok(Ok(())) => true,
        Ok(Err(e)) | Err(e) => {
            eprintln!("C07: io_uring buffer ring unavailable ({e}); only the fallback pool is exercised");
            false
        }
    };
    RING_OK.with(|r| r.set(ring_ok));
    let n_random = if thorough { 12000 } else { 1000 };
    let lens = [8u64, 16, 32, 64, 1, 3, 24];
    for c in 0..n_random {
        let kind = if c % 2 == 0 && ring_ok { "ring" } else { "fb" };
        let n = rng.range(1, 16);
        let len = *rng.pick(&lens);
        let n_ops = rng.range(8, if thorough { 90 } else { 60 }) as usize;
        cases.push(Case { name: format!("rand-{kind}-{c}"), lines: gen_program(rng, kind, n, len, n_ops) });
    }
    // exhaustion for every pool size, both pools
    for n in 1..=16u64 {
        for kind in ["ring", "fb"] {
            if kind == "ring" && !ring_ok {
                continue;
            }
            for rep in 0..(if thorough { 6 } else { 1 }) {
                let len = *rng.pick(&lens);
                cases.push(Case { name: format!("exhaust-{kind}-{n}-{rep}"), lines: gen_exhaust(rng, kind, n, len) });
            }
        }
    }
    // u16 wrap-around of the ring tail
    let wraps: Vec<u64> = if !ring_ok {
        vec![]
    } else if thorough {
        (1..=16).collect()
    } else {
        vec![3, 16]
    };
    for n in wraps {
        let len = *rng.pick(&lens[..4]);
        cases.push(Case { name: format!("wrap-{n}"), lines: gen_wrap(rng, n, len) });
    }
    // completions arriving after the future / stream was dropped, every pool kind and source kind
    for (c, sk) in ["tcp", "unix", "udp", "pipe"].iter().enumerate() {
        for kind in ["ring", "fb"] {
            if kind == "ring" && !ring_ok {
                continue;
            }
            for rep in 0..(if thorough { 16 } else { 3 }) {
                let n = if rep == 0 { [1, 2, 4, 8][c] } else { rng.range(1, 16) };
                let len = *rng.pick(&lens[..4]);
                cases.push(Case { name: format!("cancel-race-{kind}-{sk}-{rep}"), lines: gen_cancel_race(rng, kind, n, len, sk) });
            }
        }
    }
    // concurrent managed reads on one fd, one of them cancelled at every queue position by every route
    let mut cc = 0;
    for kind in ["fb", "ring"] {
        if kind == "ring" && !ring_ok {
            continue;
        }
        for sk in ["tcp", "unix", "udp", "pipe"] {
            for k in [2usize, 3] {
                for ci in 0..k {
                    for token in [false, true] {
                        let reps = if thorough { 4 } else { 1 };
                        for rep in 0..reps {
                            // quick: every (driver, k, position, route) once per two source kinds
                            if !thorough && (cc + sk.len()) % 2 == 0 && kind == "ring" {
                                cc += 1;
                                continue;
                            }
                            cc += 1;
                            let exact = k == 2 && rep % 2 == 0;
                            cases.push(Case {
                                name: format!("concurrent-{kind}-{sk}-k{k}-c{ci}-{}-{rep}", if token { "token" } else { "drop" }),
                                lines: gen_concurrent(rng, kind, sk, k, ci, token, exact),
                            });
                        }
                    }
                }
            }
        }
    }
    // exhaustion of a multishot stream is an error, not a hang; the stream continues afterwards
    for (c, sk) in ["tcp", "unix", "udp", "pipe"].iter().enumerate() {
        for kind in ["ring", "fb"] {
            if kind == "ring" && !ring_ok {
                continue;
            }
            for rep in 0..(if thorough { 16 } else { 3 }) {
                let n = if rep == 0 { [2, 1, 8, 4][c] } else { rng.range(1, 16) };
                let len = *rng.pick(&lens[..4]);
                cases.push(Case { name: format!("stream-exhaust-{kind}-{sk}-{rep}"), lines: gen_stream_exhaust(rng, kind, n, len, sk) });
            }
        }
    }
    // session 3, seed C07-5a: Proactor dropped while the driver owns ops that hold pool buffers
    for kind in ["fb", "ring"] {
        if kind == "ring" && !ring_ok {
            continue;
        }
        for (c, sk) in ["udp", "tcp", "unix", "pipe"].iter().enumerate() {
            for rep in 0..(if thorough { 8 } else { 2 }) {
                let n = if rep == 0 { [4, 2, 1, 8][c] } else { rng.range(1, 16) };
                let len = *rng.pick(&lens[..4]);
                cases.push(Case { name: format!("abrupt-release-{kind}-{sk}-{rep}"), lines: gen_abrupt_release(rng, kind, n, len, sk) });
            }
        }
    }
    // session 3, seed C07-5b: UDP `recv_from_multi` (multishot recvmsg) with the user holding buffers while the ring wraps
    for kind in ["ring", "fb"] {
        if kind == "ring" && !ring_ok {
            continue;
        }
        for rep in 0..(if thorough { 32 } else { 6 }) {
            let n = if rep < 3 { [2, 1, 4][rep as usize] } else { rng.range(1, 16) };
            cases.push(Case { name: format!("dgram-multi-hold-{kind}-{rep}"), lines: gen_dgram_multi_hold(rng, kind, n) });
        }
    }
    // (the raw `take` / `reset` API applied to pool-owned ids is outside the programs C07 quantifies over:
    // `gen_raw` is kept for the documented observation in notes/C07.md, not generated here)
    let _ = gen_raw;
    cases
}

fn main() {
    run_harness(generate, exec, "a pool was built and at least one buffer left the pool (some slot was empty after some operation)");
}
