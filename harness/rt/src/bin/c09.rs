//! C09 correspondence harness: the timer wheel (`compio-runtime/src/time/runtime.rs`, included
//! UNMODIFIED with `#[path]`), and `Sleep` / `Timeout` / `Interval` on a real `compio_runtime::Runtime`.
//! Text operations, see lean/Drivers/C09.lean for the model side.
//!
//! Wheel level. The wheel reads `Instant::now()` itself. A case fixes a base instant `B` and a grid
//! `G`; logical time `x` is the real instant `B + x*G`, deadlines are grid points, and every call is
//! made while the real clock is strictly inside the cell `(B + t*G + G/8, B + (t+1)*G - G/8)` of the
//! current logical time `t` (checked before and after the call; a case whose bracket is broken by a
//! scheduling hiccup is re-run on a coarser grid). So `deadline <= now` in the code is `d <= t` in
//! the model, for every deadline.
#![allow(dead_code)]

use std::{
    cell::{Cell, RefCell},
    collections::HashMap,
    future::Future,
    rc::Rc,
    sync::{
        Arc, Mutex,
        atomic::{AtomicBool, Ordering},
    },
    task::{Context, Poll, RawWaker, RawWakerVTable, Waker},
    time::{Duration, Instant},
};

use hx_common::*;

#[path = "/repo/compio-runtime/src/time/runtime.rs"]
mod timer_runtime;
use timer_runtime::{TimerKey, TimerRuntime};

// ---------------------------------------------------------------------------------------------
// counting wakers (hand-written vtable: one static, so `will_wake` is exactly "same id")
// ---------------------------------------------------------------------------------------------

struct WakeRec {
    id: usize,
    log: Arc<Mutex<Vec<usize>>>,
}

static VT: RawWakerVTable = RawWakerVTable::new(w_clone, w_wake, w_wake_by_ref, w_drop);

unsafe fn w_clone(p: *const ()) -> RawWaker {
    unsafe { Arc::increment_strong_count(p as *const WakeRec) };
    RawWaker::new(p, &VT)
}
unsafe fn w_wake(p: *const ()) {
    let a = unsafe { Arc::from_raw(p as *const WakeRec) };
    a.log.lock().unwrap().push(a.id);
}
unsafe fn w_wake_by_ref(p: *const ()) {
    let a = unsafe { &*(p as *const WakeRec) };
    a.log.lock().unwrap().push(a.id);
}
unsafe fn w_drop(p: *const ()) {
    drop(unsafe { Arc::from_raw(p as *const WakeRec) });
}

fn mk_waker(a: &Arc<WakeRec>) -> Waker {
    let p = Arc::into_raw(a.clone()) as *const ();
    unsafe { Waker::from_raw(RawWaker::new(p, &VT)) }
}

const N_WAKERS: usize = 4;

// ---------------------------------------------------------------------------------------------
// locating the private `generation` field (only to reach the overflow branch of `insert`)
// ---------------------------------------------------------------------------------------------

fn words_of(rt: &TimerRuntime) -> Vec<u64> {
    let n = std::mem::size_of::<TimerRuntime>() / 8;
    let p = rt as *const TimerRuntime as *const u64;
    (0..n).map(|i| unsafe { std::ptr::read_volatile(p.add(i)) }).collect()
}

/// index of the 8-byte word of `TimerRuntime` holding `generation`, found by behaviour:
/// after 5 inserts and 2 cancels it is the only word equal to 5, and one more insert makes it 6.
fn gen_word_index() -> Option<usize> {
    thread_local!(static IDX: Cell<Option<Option<usize>>> = const { Cell::new(None) });
    if let Some(i) = IDX.with(|c| c.get()) {
        return i;
    }
    let r = catch(locate_gen_word).ok().flatten();
    IDX.with(|c| c.set(Some(r)));
    r
}

fn locate_gen_word() -> Option<usize> {
    if std::mem::size_of::<TimerRuntime>() % 8 != 0 {
        return None;
    }
    let mut rt = TimerRuntime::new();
    let far = Instant::now() + Duration::from_secs(3600);
    let ks: Vec<TimerKey> = (0..5).map(|i| rt.insert(far + Duration::from_secs(i)).unwrap()).collect();
    rt.cancel(&ks[1]);
    rt.cancel(&ks[3]);
    let w5 = words_of(&rt);
    rt.insert(far).unwrap();
    let w6 = words_of(&rt);
    let cand: Vec<usize> = (0..w5.len()).filter(|&i| w5[i] == 5 && w6[i] == 6).collect();
    if cand.len() != 1 || !format!("{rt:?}").contains("generation: 6,") {
        return None;
    }
    Some(cand[0])
}

/// `false`: the field could not be located (the counter does not behave as in the pinned source)
fn poke_generation(rt: &mut TimerRuntime, v: u64) -> bool {
    let Some(i) = gen_word_index() else { return false };
    let p = rt as *mut TimerRuntime as *mut u64;
    unsafe { std::ptr::write_volatile(p.add(i), v) };
    format!("{rt:?}").contains(&format!("TimerRuntime {{ generation: {v},"))
}

// ---------------------------------------------------------------------------------------------
// parsing the derived Debug output of the wheel (the only window onto the private map)
// ---------------------------------------------------------------------------------------------

fn num_after<'a>(s: &'a str, pat: &str) -> Option<(i128, &'a str)> {
    let i = s.find(pat)?;
    let rest = &s[i + pat.len()..];
    let end = rest.find(|c: char| !(c.is_ascii_digit() || c == '-')).unwrap_or(rest.len());
    Some((rest[..end].parse().ok()?, &rest[end..]))
}

fn instant_ns(i: Instant) -> i128 {
    let s = format!("{i:?}");
    let (sec, rest) = num_after(&s, "tv_sec: ").expect("Instant debug");
    let (ns, _) = num_after(rest, "tv_nsec: ").expect("Instant debug");
    sec * 1_000_000_000 + ns
}

struct DumpEntry {
    deadline_ns: i128,
    generation: u64,
    waker: Option<usize>, // data pointer
}

/// The generation counter is reported when the struct has such a field (`None` otherwise: the
/// harness does not depend on HOW `insert` makes its keys distinct — the monitors judge the keys
/// themselves; the correspondence line then shows `g=?`).
fn parse_wheel(rt: &TimerRuntime) -> (Option<u64>, Vec<DumpEntry>) {
    let s = format!("{rt:?}");
    let (g, mut rest) = match num_after(&s, "TimerRuntime { generation: ") {
        Some((g, rest)) => (Some(g as u64), rest),
        None => (None, &s[..]),
    };
    let mut out = vec![];
    while let Some((sec, r)) = num_after(rest, "TimerKey { deadline: Instant { tv_sec: ") {
        let (ns, r) = num_after(r, "tv_nsec: ").unwrap();
        let (kg, r) = num_after(r, " }, generation: ").unwrap();
        let r = r.strip_prefix(" }: ").expect("map entry");
        let (waker, r) = if let Some(r) = r.strip_prefix("None") {
            (None, r)
        } else {
            let i = r.find("data: 0x").expect("waker debug");
            let h = &r[i + 8..];
            let end = h.find(|c: char| !c.is_ascii_hexdigit()).unwrap();
            (Some(usize::from_str_radix(&h[..end], 16).unwrap()), &h[end..])
        };
        out.push(DumpEntry { deadline_ns: sec * 1_000_000_000 + ns, generation: kg as u64, waker });
        rest = r;
    }
    (g, out)
}

fn key_generation(k: &TimerKey) -> u64 {
    let s = format!("{k:?}");
    num_after(&s, " }, generation: ").expect("key debug").0 as u64
}

// ---------------------------------------------------------------------------------------------
// wheel-level interpreter
// ---------------------------------------------------------------------------------------------

struct BracketBroken;

struct WheelRun {
    rt: TimerRuntime,
    base: Instant,
    base_ns: i128,
    g: u64, // grid in ns
    t: u64,
    handles: Vec<(TimerKey, u64)>, // key, logical deadline
    recs: Vec<Arc<WakeRec>>,
    wakers: Vec<Waker>,
    log: Arc<Mutex<Vec<usize>>>,
    /// harness-side bookkeeping for the monitors: handle -> (live, last waker id set while live)
    live: Vec<bool>,
    wk_of: Vec<Option<usize>>,
    panicked: bool,
}

impl WheelRun {
    fn at(&self, x: u64) -> Instant {
        self.base + Duration::from_nanos(self.g * x)
    }

    /// wait until the clock is inside the cell of logical time `t`
    fn enter(&self) -> Result<Instant, BracketBroken> {
        let lo = self.at(self.t) + Duration::from_nanos(self.g / 8);
        let hi = self.at(self.t + 1) - Duration::from_nanos(self.g / 8);
        loop {
            let n = Instant::now();
            if n >= hi {
                return Err(BracketBroken);
            }
            if n > lo {
                return Ok(n);
            }
            std::hint::spin_loop();
        }
    }

    fn leave(&self) -> Result<Instant, BracketBroken> {
        let hi = self.at(self.t + 1) - Duration::from_nanos(self.g / 8);
        let n = Instant::now();
        if n >= hi { Err(BracketBroken) } else { Ok(n) }
    }

    fn dump(&self, ex: &mut Exec) -> String {
        let (g, es) = parse_wheel(&self.rt);
        let mut parts = vec![];
        let mut prev: Option<(i128, u64)> = None;
        for e in &es {
            let off = e.deadline_ns - self.base_ns;
            let d = if off >= 0 && off % self.g as i128 == 0 { (off / self.g as i128).to_string() } else { format!("?{off}") };
            let w = match e.waker {
                None => "-".to_string(),
                Some(p) => match self.recs.iter().position(|r| Arc::as_ptr(r) as usize == p) {
                    Some(i) => format!("w{i}"),
                    None => "w?".into(),
                },
            };
            // monitor: the map is iterated in strictly increasing (deadline, generation) order
            if let Some(p) = prev {
                if p >= (e.deadline_ns, e.generation) {
                    ex.fail("C09:wheel-order", format!("{p:?} before {:?}", (e.deadline_ns, e.generation)));
                }
            }
            prev = Some((e.deadline_ns, e.generation));
            parts.push(format!("{d}:{}:{w}", e.generation));
        }
        let rc: Vec<String> = self.recs.iter().map(|r| (Arc::strong_count(r) - 2).to_string()).collect();
        let g = g.map_or("?".to_string(), |g| g.to_string());
        format!("g={g} {} rc={}", if parts.is_empty() { ".".into() } else { parts.join(",") }, rc.join(","))
    }

    fn completed(&self) -> Vec<bool> {
        self.handles.iter().map(|(k, _)| self.rt.is_completed(k)).collect()
    }
}

fn run_wheel(lines: &[String], grid_ns: u64, ex: &mut Exec) -> Result<Vec<String>, BracketBroken> {
    let log = Arc::new(Mutex::new(vec![]));
    let recs: Vec<Arc<WakeRec>> = (0..N_WAKERS).map(|id| Arc::new(WakeRec { id, log: log.clone() })).collect();
    let wakers: Vec<Waker> = recs.iter().map(mk_waker).collect();
    let base = Instant::now();
    let mut r = WheelRun {
        rt: TimerRuntime::new(),
        base,
        base_ns: instant_ns(base),
        g: grid_ns,
        t: 0,
        handles: vec![],
        recs,
        wakers,
        log,
        live: vec![],
        wk_of: vec![],
        panicked: false,
    };
    let mut out = vec![];
    for line in lines {
        let w: Vec<&str> = line.split_whitespace().collect();
        let o = match w.as_slice() {
            ["wheel", t0] => {
                let t0: u64 = t0.parse().unwrap();
                // logical t0 starts now: B = now - t0*G
                let now = Instant::now();
                r.base = now - Duration::from_nanos(grid_ns * t0);
                r.base_ns = instant_ns(r.base);
                r.t = t0;
                r.rt = TimerRuntime::new();
                r.handles.clear();
                r.live.clear();
                r.wk_of.clear();
                "ok".to_string()
            }
            ["adv", n] => {
                r.t += n.parse::<u64>().unwrap();
                r.enter()?;
                format!("t={}", r.t)
            }
            ["setgen", v] => {
                ex.tag("w:setgen");
                if poke_generation(&mut r.rt, v.parse().unwrap()) { "ok".to_string() } else { "generation-counter-not-found".to_string() }
            }
            ["ins", d] => {
                let d: u64 = d.parse().unwrap();
                let deadline = r.at(d);
                r.enter()?;
                let before = r.completed();
                let res = catch(|| r.rt.insert(deadline));
                r.leave()?;
                let head = match res {
                    Ok(None) => {
                        ex.tag("w:ins-due");
                        if d > r.t {
                            ex.fail("C09:insert-refused-future", format!("deadline {d} > now {}", r.t));
                        }
                        "none".to_string()
                    }
                    Ok(Some(k)) => {
                        ex.tag("w:ins");
                        if d <= r.t {
                            ex.fail("C09:insert-registered-due", format!("deadline {d} <= now {}", r.t));
                        }
                        if r.handles.iter().any(|(h, _)| *h == k) {
                            ex.fail("C09:key-reused", format!("{k:?}"));
                        }
                        r.handles.push((k, d));
                        r.live.push(true);
                        r.wk_of.push(None);
                        format!("key {}", key_generation(&k))
                    }
                    Err(_) => {
                        ex.tag("w:ins-panic");
                        r.panicked = true;
                        "panic".to_string()
                    }
                };
                // others untouched
                let after = r.completed();
                if before[..] != after[..before.len()] {
                    ex.fail("C09:insert-disturbed", format!("{before:?} -> {after:?}"));
                }
                format!("{head} | {}", r.dump(ex))
            }
            ["upd", h, wk] => {
                let (h, wk): (usize, usize) = (h.parse().unwrap(), wk.parse().unwrap());
                let k = r.handles[h].0;
                r.enter()?;
                r.rt.update_waker(&k, &r.wakers[wk]);
                r.leave()?;
                if !r.rt.is_completed(&k) {
                    r.wk_of[h] = Some(wk);
                    ex.tag("w:upd-live");
                } else {
                    ex.tag("w:upd-stale");
                }
                format!("ok | {}", r.dump(ex))
            }
            ["can", h] => {
                let h: usize = h.parse().unwrap();
                let k = r.handles[h].0;
                let before = r.completed();
                r.enter()?;
                r.rt.cancel(&k);
                r.leave()?;
                let after = r.completed();
                ex.tag(if before[h] { "w:cancel-stale" } else { "w:cancel-live" });
                for i in 0..before.len() {
                    if i == h && !after[i] {
                        ex.fail("C09:cancel-left-key", format!("handle {h}"));
                    }
                    if i != h && before[i] != after[i] {
                        ex.fail("C09:cancel-removed-other", format!("cancel {h} changed {i}"));
                    }
                }
                r.live[h] = false;
                format!("ok | {}", r.dump(ex))
            }
            ["wake"] => {
                let before = r.completed();
                r.log.lock().unwrap().clear();
                let n0 = r.enter()?;
                r.rt.wake();
                let n1 = r.leave()?;
                let after = r.completed();
                let fired: Vec<usize> = r.log.lock().unwrap().clone();
                let mut expect_wakers = vec![];
                let mut order: Vec<(u64, u64, usize)> = vec![];
                for i in 0..before.len() {
                    let dl = r.at(r.handles[i].1);
                    if !before[i] && after[i] {
                        // left through wake: never early
                        if dl > n1 {
                            ex.fail("C09:early-fire", format!("handle {i} deadline {} left at t={}", r.handles[i].1, r.t));
                        }
                        if let Some(w) = r.wk_of[i] {
                            order.push((r.handles[i].1, key_generation(&r.handles[i].0), w));
                        }
                        r.live[i] = false;
                        ex.tag("w:fired");
                    }
                    if !after[i] && dl <= n0 {
                        ex.fail("C09:missed-fire", format!("handle {i} deadline {} still pending after wake at t={}", r.handles[i].1, r.t));
                    }
                    if before[i] && !after[i] {
                        ex.fail("C09:resurrected", format!("handle {i}"));
                    }
                }
                order.sort();
                for o in &order {
                    expect_wakers.push(o.2);
                }
                if expect_wakers != fired {
                    ex.fail("C09:wakers", format!("expected {expect_wakers:?} got {fired:?}"));
                }
                let f: Vec<String> = fired.iter().map(|i| i.to_string()).collect();
                format!("fired {} | {}", if f.is_empty() { ".".into() } else { f.join(",") }, r.dump(ex))
            }
            ["mt"] => {
                let n0 = r.enter()?;
                let mt = r.rt.min_timeout();
                r.leave()?;
                let done = r.completed();
                let pending: Vec<Instant> =
                    (0..done.len()).filter(|&i| !done[i]).map(|i| r.at(r.handles[i].1)).collect();
                match mt {
                    None => {
                        if !pending.is_empty() {
                            ex.fail("C09:min-timeout-none", format!("{} timers pending", pending.len()));
                        }
                        "mt none".to_string()
                    }
                    Some(d) => {
                        // an idle runtime sleeps no longer than the nearest deadline
                        for p in &pending {
                            if d > p.saturating_duration_since(n0) {
                                ex.fail("C09:oversleep", format!("min_timeout {d:?} beyond a pending deadline at t={}", r.t));
                            }
                        }
                        if pending.is_empty() && !r.panicked {
                            ex.fail("C09:min-timeout-ghost", format!("{d:?} with no pending timer"));
                        }
                        ex.tag(if d.is_zero() { "w:mt-due" } else { "w:mt-pos" });
                        let ns = d.as_nanos() as u64;
                        format!("mt {}", ns.div_ceil(r.g))
                    }
                }
            }
            ["done", h] => {
                let h: usize = h.parse().unwrap();
                format!("{}", r.rt.is_completed(&r.handles[h].0))
            }
            ["poll", h, wk] => {
                let (h, wk): (usize, usize) = (h.parse().unwrap(), wk.parse().unwrap());
                let k = r.handles[h].0;
                r.enter()?;
                let mut cx = Context::from_waker(&r.wakers[wk]);
                let p = r.rt.poll_timer(&mut cx, &k);
                r.leave()?;
                if p.is_pending() {
                    r.wk_of[h] = Some(wk);
                }
                if p.is_ready() != r.rt.is_completed(&k) {
                    ex.fail("C09:poll-timer", format!("handle {h}: {p:?}"));
                }
                ex.tag(if p.is_ready() { "w:poll-ready" } else { "w:poll-pending" });
                format!("{} | {}", if p.is_ready() { "ready" } else { "pending" }, r.dump(ex))
            }
            _ => "bad-op".to_string(),
        };
        // never early, whatever happened around it: a timer that was neither cancelled nor expired by
        // a `wake` and whose deadline lies in a later cell than the clock is not completed
        for h in 0..r.handles.len() {
            if r.live[h] && r.handles[h].1 > r.t && r.rt.is_completed(&r.handles[h].0) {
                ex.fail(
                    "C09:completed-early",
                    format!("handle {h} (deadline {}) reported completed at t={} after `{line}` without having been cancelled", r.handles[h].1, r.t),
                );
                r.live[h] = false;
            }
        }
        // no lost wake: the waker registered last for a pending timer is still the one in the map
        if !r.panicked {
            let (_, es) = parse_wheel(&r.rt);
            for h in 0..r.handles.len() {
                if !r.live[h] || r.rt.is_completed(&r.handles[h].0) {
                    continue;
                }
                let Some(wk) = r.wk_of[h] else { continue };
                let kg = key_generation(&r.handles[h].0);
                let dl = instant_ns(r.at(r.handles[h].1));
                let want = Arc::as_ptr(&r.recs[wk]) as usize;
                if let Some(e) = es.iter().find(|e| e.generation == kg && e.deadline_ns == dl) {
                    if e.waker != Some(want) {
                        ex.fail("C09:waker-lost", format!("handle {h}: registered waker w{wk} no longer in the map after `{line}`"));
                        r.wk_of[h] = None;
                    }
                }
            }
        }
        out.push(o);
    }
    // a dropped timer leaves nothing behind: cancel every key, the map and the waker clones are gone
    if !r.panicked {
        for (k, _) in r.handles.clone() {
            r.rt.cancel(&k);
        }
        let (_, es) = parse_wheel(&r.rt);
        let rcs: Vec<usize> = r.recs.iter().map(|a| Arc::strong_count(a) - 2).collect();
        if !es.is_empty() || rcs.iter().any(|&c| c != 0) || r.rt.min_timeout().is_some() {
            ex.fail("C09:residue", format!("{} entries, waker clones {rcs:?} after cancelling everything", es.len()));
        }
    }
    Ok(out)
}

// ---------------------------------------------------------------------------------------------
// runtime-level scenarios
// ---------------------------------------------------------------------------------------------

use compio_driver::{DriverType, ProactorBuilder};
use compio_runtime::{
    Runtime,
    time::{interval_at, sleep_until, timeout_at},
};

const TOL: Duration = Duration::from_millis(200);
/// lateness above which a scenario is re-run (the `elapsed` verdicts keep a margin of 150 ms and more)
const DISTURBED: Duration = Duration::from_millis(100);

/// Stall canary: a thread that sleeps 500 us at a time and records every window in which it was
/// itself held up by more than 2 ms (CPU quota throttling, an overloaded machine). A lateness that
/// coincides with such a window says nothing about the timers: the scenario is re-run instead.
static STALLS: Mutex<Vec<(Instant, Instant)>> = Mutex::new(Vec::new());

fn start_canary() {
    static STARTED: AtomicBool = AtomicBool::new(false);
    if STARTED.swap(true, Ordering::SeqCst) {
        return;
    }
    std::thread::spawn(|| {
        try_realtime();
        loop {
            let a = Instant::now();
            std::thread::sleep(Duration::from_micros(500));
            let b = Instant::now();
            if b - a > Duration::from_micros(2500) {
                let mut v = STALLS.lock().unwrap();
                v.push((a, b));
                let n = v.len();
                if n > 4096 {
                    v.drain(..n - 2048);
                }
            }
        }
    });
}

/// total stalled time the canary saw inside `[from, to]`
fn stalled_within(from: Instant, to: Instant) -> Duration {
    let v = STALLS.lock().unwrap();
    let mut total = Duration::ZERO;
    for (a, b) in v.iter() {
        let lo = (*a).max(from);
        let hi = (*b).min(to);
        if hi > lo {
            total += hi - lo;
        }
    }
    total
}

#[derive(Clone, Default)]
struct RtOut {
    line: String,
    failures: Vec<(String, String)>,
    tags: Vec<String>,
    disturbed: bool,
}

struct Shared {
    t0: Instant,
    tokens: RefCell<Vec<Option<String>>>,
    failures: RefCell<Vec<(String, String)>>,
    /// deadlines the tasks are currently waiting for (task id -> instant)
    waiting: RefCell<HashMap<usize, Instant>>,
    max_late: Cell<Duration>,
    /// iterations made by the busy loops (main future yielding, `z` tasks, pre-notified polls)
    iters: Cell<u64>,
    /// task id -> (deadline seen overdue, iteration count at that moment)
    overdue: RefCell<HashMap<usize, (Instant, u64)>>,
    /// set once starvation was reported (or the watchdog ran out): the busy loops stop keeping the runtime busy
    stop_busy: Cell<bool>,
    give_up: Cell<Option<Instant>>,
    /// ids of the `z` tasks (they wait for all the others)
    busy_ids: RefCell<Vec<usize>>,
}

/// a timer is reported as starved when its deadline passed more than this ago …
const STARVED_AFTER: Duration = Duration::from_millis(500);
/// … AND the runtime loop went round at least this often since the deadline was seen overdue
/// (every round contains a `poll_with`, which has to sweep the wheel): independent of machine load
const STARVED_ITERS: u64 = 2000;

impl Shared {
    /// One round of a loop that keeps the runtime from idling in the driver. Returns `false` when
    /// the loop should stop doing so. Monitor `C09:timer-starved`.
    fn busy_iteration(&self) -> bool {
        if self.stop_busy.get() {
            return false;
        }
        let it = self.iters.get() + 1;
        self.iters.set(it);
        let now = Instant::now();
        let mut starved = None;
        {
            let waiting = self.waiting.borrow();
            let mut overdue = self.overdue.borrow_mut();
            overdue.retain(|id, (dl, _)| waiting.get(id) == Some(dl));
            for (id, dl) in waiting.iter() {
                if now > *dl {
                    let (_, since) = *overdue.entry(*id).or_insert((*dl, it));
                    if now - *dl > STARVED_AFTER && it - since >= STARVED_ITERS {
                        starved = Some((*id, now - *dl, it - since));
                    }
                }
            }
        }
        if let Some((id, late, rounds)) = starved {
            self.fail(
                "C09:timer-starved",
                format!("task {id}: deadline passed {late:?} ago, the runtime loop went round {rounds} times since, the timer has not fired"),
            );
            self.stop_busy.set(true);
            return false;
        }
        if self.give_up.get().is_some_and(|g| now > g) {
            self.stop_busy.set(true);
            return false;
        }
        true
    }

    fn fail(&self, sig: &str, detail: String) {
        self.failures.borrow_mut().push((sig.into(), detail));
    }

    fn off(&self, ms: i64) -> Instant {
        if ms >= 0 { self.t0 + Duration::from_millis(ms as u64) } else { self.t0 - Duration::from_millis((-ms) as u64) }
    }

    /// judge one completed wait for `deadline`
    fn judge(&self, what: &str, deadline: Instant) {
        let n = Instant::now();
        if n < deadline {
            self.fail("C09:early-fire", format!("{what}: completed {:?} before its deadline", deadline - n));
        } else {
            let late = n - deadline;
            // a deadline already in the past at creation is "late" by construction
            if deadline > self.t0 {
                // (not when the whole process was demonstrably stalled for a good part of that time)
                if late > TOL && stalled_within(deadline, n + Duration::from_millis(3)) < late / 4 {
                    self.fail("C09:late-fire", format!("{what}: completed {late:?} after its deadline"));
                }
                if late > self.max_late.get() {
                    self.max_late.set(late);
                }
            }
        }
    }

    /// `sleep_until(deadline).await` with bookkeeping and the timing monitors
    async fn sleep(&self, id: usize, what: &str, deadline: Instant) {
        let s = sleep_until(deadline);
        self.waiting.borrow_mut().insert(id, deadline);
        s.await;
        self.waiting.borrow_mut().remove(&id);
        self.judge(what, deadline);
    }
}

fn parse_off(s: &str) -> i64 {
    s.parse().expect("offset")
}

async fn run_task(sh: Rc<Shared>, id: usize, spec: String) {
    let p: Vec<&str> = spec.split(',').collect();
    let token = match p.as_slice() {
        ["s", d] => {
            sh.sleep(id, &spec, sh.off(parse_off(d))).await;
            "fired".to_string()
        }
        ["d", d, polled] => {
            let mut s = std::pin::pin!(sleep_until(sh.off(parse_off(d))));
            if *polled == "1" {
                let _ = futures_util::poll!(s.as_mut());
            }
            "dropped".to_string()
        }
        ["t", inner, limit] => {
            let limit = sh.off(parse_off(limit));
            let inner_done = Rc::new(Cell::new(false));
            let res = match *inner {
                "n" => {
                    sh.waiting.borrow_mut().insert(id, limit);
                    let r = timeout_at(limit, std::future::pending::<()>()).await;
                    sh.waiting.borrow_mut().remove(&id);
                    r
                }
                "r" => {
                    inner_done.set(true);
                    timeout_at(limit, std::future::ready(())).await
                }
                a => {
                    let a = sh.off(parse_off(a));
                    let s = sleep_until(a); // the inner timer is created first
                    let flag = inner_done.clone();
                    let sh2 = sh.clone();
                    let spec2 = spec.clone();
                    let fut = async move {
                        s.await;
                        sh2.judge(&spec2, a);
                        flag.set(true);
                    };
                    sh.waiting.borrow_mut().insert(id, a.min(limit));
                    let to = timeout_at(limit, fut);
                    // (session 3) the verdict below presupposes that the limit had not passed yet when
                    // the timeout was created: a thread descheduled between `sleep_until(a)` and
                    // `timeout_at(limit, ..)` until after `limit` (seen once, rt59 `t,16,16`, on a machine
                    // with load 30+) leaves the inner timer registered but not yet swept and the limit
                    // already reached — Elapsed is then what the code must answer. Such a run is re-run.
                    let created = Instant::now();
                    let r = to.await;
                    sh.waiting.borrow_mut().remove(&id);
                    if r.is_err() && a <= limit {
                        if created < limit {
                            sh.fail("C09:timeout-lost-inner", format!("{spec}: Elapsed although the inner deadline is not later"));
                        } else {
                            sh.max_late.set(sh.max_late.get().max(DISTURBED + Duration::from_millis(1)));
                        }
                    }
                    r
                }
            };
            match res {
                Ok(()) => {
                    if !inner_done.get() {
                        sh.fail("C09:timeout-result", format!("{spec}: Ok without the inner future having finished"));
                    }
                    "ok".to_string()
                }
                Err(_) => {
                    if inner_done.get() {
                        sh.fail("C09:timeout-result", format!("{spec}: Elapsed although the inner future finished"));
                    }
                    sh.judge(&spec, limit);
                    "elapsed".to_string()
                }
            }
        }
        ["ic", start, period, pattern] => {
            // an interval whose `tick()` futures are cancelled at their await: `d` = awaited to
            // completion, `p` = polled once and dropped (the losing branch of a select), `t` = wrapped
            // in a 2 ms timeout. Every instant that is delivered, by whichever call, is judged with
            // exact arithmetic: not before `start`, on the `start + k * period` grid, increasing, the
            // first one `start` itself.
            let start = sh.off(parse_off(start));
            let period = Duration::from_millis(period.parse().unwrap());
            let mut iv = interval_at(start, period);
            let mut delivered: Vec<Instant> = vec![];
            let mut n_d = 0;
            for (j, c) in pattern.chars().enumerate() {
                let got: Option<Instant> = match c {
                    'd' => {
                        n_d += 1;
                        Some(iv.tick().await)
                    }
                    'p' => {
                        let mut f = std::pin::pin!(iv.tick());
                        match futures_util::poll!(f.as_mut()) {
                            Poll::Ready(v) => Some(v),
                            Poll::Pending => None,
                        }
                    }
                    _ => compio_runtime::time::timeout(Duration::from_millis(2), iv.tick()).await.ok(),
                };
                let Some(v) = got else { continue };
                let what = format!("{spec} call {j} ({c})");
                sh.judge(&what, v);
                if v < start {
                    sh.fail("C09:interval-early", format!("{what}: tick delivered {:?} before the interval's start", start - v));
                } else if (v - start).as_nanos() % period.as_nanos() != 0 {
                    sh.fail("C09:interval-misaligned", format!("{what}: {:?} after start, off the start + k * period grid", v - start));
                }
                if delivered.is_empty() && v != start {
                    sh.fail("C09:interval-first", format!("{what}: the first tick delivered is not `start`"));
                }
                if delivered.last().is_some_and(|p| v <= *p) {
                    sh.fail("C09:interval-monotone", format!("{what}"));
                }
                delivered.push(v);
            }
            format!("ticks#{n_d}")
        }
        ["e", d, keep] => {
            // timers sharing ONE deadline `Instant`: create A(d), B(d), poll B once (its waker is
            // registered), drop A, create C(d), then drop C (keep = 0) or keep it unpolled until B is done
            // (keep = 1). B must not complete before d, and its task must be woken at d.
            let deadline = sh.off(parse_off(d));
            let a = sleep_until(deadline);
            let mut b = std::pin::pin!(sleep_until(deadline));
            let first = futures_util::poll!(b.as_mut());
            drop(a);
            let c = sleep_until(deadline);
            let c = if *keep == "1" { Some(c) } else { drop(c); None };
            if first.is_pending() {
                if futures_util::poll!(b.as_mut()).is_ready() && Instant::now() < deadline {
                    sh.fail("C09:early-fire", format!("{spec}: the surviving sleep is ready before the shared deadline after a sibling was dropped"));
                }
                sh.waiting.borrow_mut().insert(id, deadline);
                // (polling a completed TimerFuture again is allowed: it asks the wheel `is_completed`)
                b.as_mut().await;
                sh.waiting.borrow_mut().remove(&id);
            }
            sh.judge(&spec, deadline);
            drop(c);
            "fired".to_string()
        }
        ["y"] => {
            // a task that is runnable again at the end of every executor tick (it yields by waking
            // itself) until every other task is done: `Executor::tick` keeps reporting remaining tasks,
            // the loop of `block_on` never reaches an idle driver poll. Timers must be swept all the same.
            loop {
                let others_done = {
                    let toks = sh.tokens.borrow();
                    toks.iter().enumerate().all(|(i, t)| i == id || t.is_some() || sh.busy_ids.borrow().contains(&i))
                };
                if others_done || !sh.busy_iteration() {
                    break;
                }
                let mut yielded = false;
                std::future::poll_fn(|cx| {
                    if yielded {
                        Poll::Ready(())
                    } else {
                        yielded = true;
                        cx.waker().wake_by_ref();
                        Poll::Pending
                    }
                })
                .await;
            }
            "busy".to_string()
        }
        ["z"] => {
            // a task that keeps completing cheap I/O (1-byte reads of /dev/zero) until every other
            // task is done: each driver poll has a completion to reap and returns Ok(())
            use compio_io::AsyncReadAt;
            match compio_fs::File::open("/dev/zero").await {
                Err(e) => format!("busy-open-failed:{:?}", e.kind()),
                Ok(file) => {
                    let mut buf = Vec::with_capacity(1);
                    loop {
                        let others_done = {
                            let toks = sh.tokens.borrow();
                            toks.iter().enumerate().all(|(i, t)| i == id || t.is_some() || sh.busy_ids.borrow().contains(&i))
                        };
                        if others_done || !sh.busy_iteration() {
                            break;
                        }
                        let compio_buf::BufResult(r, b) = file.read_at(buf, 0).await;
                        buf = b;
                        buf.clear();
                        if r.is_err() {
                            break;
                        }
                    }
                    let _ = file.close().await;
                    "busy".to_string()
                }
            }
        }
        ["n", count, every] => {
            // wake-ups from another thread: the driver returns from `poll` before the timeout, the
            // timers of the other tasks must not fire because of that
            let count: usize = count.parse().unwrap();
            let every = Duration::from_micros(every.parse::<u64>().unwrap() * 100);
            let hits = Arc::new(std::sync::atomic::AtomicUsize::new(0));
            let slot: Arc<Mutex<Option<Waker>>> = Arc::new(Mutex::new(None));
            let th = {
                let (hits, slot) = (hits.clone(), slot.clone());
                std::thread::spawn(move || {
                    for _ in 0..count {
                        std::thread::sleep(every);
                        hits.fetch_add(1, Ordering::SeqCst);
                        if let Some(w) = slot.lock().unwrap().as_ref() {
                            w.wake_by_ref();
                        }
                    }
                })
            };
            std::future::poll_fn(|cx| {
                *slot.lock().unwrap() = Some(cx.waker().clone());
                if hits.load(Ordering::SeqCst) >= count { Poll::Ready(()) } else { Poll::Pending }
            })
            .await;
            th.join().unwrap();
            "noise".to_string()
        }
        ["i", start, period, n, work] => {
            let start = sh.off(parse_off(start));
            let period = Duration::from_millis(period.parse().unwrap());
            let n: usize = n.parse().unwrap();
            let work = Duration::from_millis(work.parse().unwrap());
            let mut iv = interval_at(start, period);
            let mut ks = vec![];
            let mut prev: Option<Instant> = None;
            let mut expected_call = sh.t0;
            for j in 0..n {
                let c0 = Instant::now();
                // a call delayed by a scheduling stall may land in another period: have the scenario re-run
                if j > 0 && c0.saturating_duration_since(expected_call) > sh.max_late.get() {
                    sh.max_late.set(c0.saturating_duration_since(expected_call));
                }
                let mut f = std::pin::pin!(iv.tick());
                let first = futures_util::poll!(f.as_mut());
                let c1 = Instant::now();
                let v = match first {
                    Poll::Ready(v) => v,
                    Poll::Pending => {
                        if j == 0 {
                            sh.waiting.borrow_mut().insert(id, start);
                        }
                        let v = f.await;
                        sh.waiting.borrow_mut().remove(&id);
                        v
                    }
                };
                sh.judge(&format!("{spec} tick {j}"), v);
                // aligned to start + k * period, exactly
                let rel = v.saturating_duration_since(start);
                if v < start || rel.as_nanos() % period.as_nanos() != 0 {
                    sh.fail("C09:interval-misaligned", format!("{spec} tick {j}: {rel:?} after start"));
                }
                if j == 0 {
                    if v != start {
                        sh.fail("C09:interval-first", format!("{spec}: first tick is not start"));
                    }
                } else {
                    // the next aligned instant strictly after the call: now < next <= now + period
                    if !(v > c0 && v <= c1 + period) {
                        sh.fail("C09:interval-next", format!("{spec} tick {j}: not in (now, now+period]"));
                    }
                    if prev.is_some_and(|p| v <= p) {
                        sh.fail("C09:interval-monotone", format!("{spec} tick {j}"));
                    }
                }
                prev = Some(v);
                expected_call = if !work.is_zero() { (v + work).max(sh.t0) } else { v.max(sh.t0) };
                ks.push((rel.as_nanos() / period.as_nanos()).to_string());
                if !work.is_zero() && j + 1 < n {
                    sh.sleep(id, &format!("{spec} work {j}"), v + work).await;
                }
            }
            // which multiples of the period the ticks are depends on real-time jitter: the monitors
            // above judge them; the token is the number of ticks
            format!("ticks#{}", ks.len())
        }
        _ => "bad-spec".to_string(),
    };
    sh.tokens.borrow_mut()[id] = Some(token);
}

fn build_rt(drv: &str) -> std::io::Result<Runtime> {
    let mut pb = ProactorBuilder::new();
    pb.driver_type(if drv == "uring" { DriverType::IoUring } else { DriverType::Poll });
    Runtime::builder().with_proactor(pb).build()
}

fn horizon_ms(tasks: &[&str]) -> u64 {
    // latest instant anything in the scenario can be waiting for
    let mut h = 0i64;
    for t in tasks {
        let p: Vec<&str> = t.split(',').collect();
        match p.as_slice() {
            ["s", d] | ["d", d, _] | ["e", d, _] => h = h.max(parse_off(d)),
            ["t", a, l] => {
                h = h.max(parse_off(l));
                if let Ok(a) = a.parse::<i64>() {
                    h = h.max(a.min(parse_off(l)));
                }
            }
            ["n", c, e] => h = h.max(parse_off(c) * parse_off(e) / 10 + 1),
            ["ic", s, p, pat] => h = h.max(parse_off(s).max(0) + (pat.len() as i64 + 1) * (parse_off(p) + 2)),
            ["i", s, p, n, w] => {
                let (s, p, n, w) = (parse_off(s).max(0), parse_off(p), parse_off(n), parse_off(w));
                h = h.max(s + (n + 1) * (p + w + p));
            }
            _ => {}
        }
    }
    h as u64
}

fn run_rt_once(drv: &str, lp: &str, tasks_s: &str) -> RtOut {
    let tasks: Vec<&str> = tasks_s.split(';').collect();
    let mut out = RtOut::default();
    let rt = match build_rt(drv) {
        Ok(rt) => rt,
        Err(e) => {
            out.line = format!("no-driver:{:?}", e.kind());
            return out;
        }
    };
    let sh = Rc::new(Shared {
        t0: Instant::now(),
        tokens: RefCell::new(vec![None; tasks.len()]),
        failures: RefCell::new(vec![]),
        waiting: RefCell::new(HashMap::new()),
        max_late: Cell::new(Duration::ZERO),
        iters: Cell::new(0),
        overdue: RefCell::new(HashMap::new()),
        stop_busy: Cell::new(false),
        give_up: Cell::new(None),
        busy_ids: RefCell::new(tasks.iter().enumerate().filter(|(_, t)| **t == "z" || **t == "y").map(|(i, _)| i).collect()),
    });
    let give_up = sh.t0 + Duration::from_millis(horizon_ms(&tasks)) + TOL + Duration::from_millis(1500);
    sh.give_up.set(Some(give_up));
    let all_done = |sh: &Shared| sh.tokens.borrow().iter().all(|t| t.is_some());
    if lp == "manual" || lp == "spin" {
        // the loop of `block_on`, spelled out with the low-level API, with monitors between the steps
        rt.enter(|| {
            for (id, t) in tasks.iter().enumerate() {
                rt.spawn(run_task(sh.clone(), id, t.to_string())).detach();
            }
            loop {
                let remaining = rt.run();
                if all_done(&sh) {
                    break;
                }
                let n0 = Instant::now();
                let ct = rt.current_timeout();
                if !remaining {
                    let waiting = sh.waiting.borrow();
                    match ct {
                        None if !waiting.is_empty() => {
                            sh.fail("C09:lost-timer", format!("no poll timeout while {} tasks wait for a deadline", waiting.len()));
                            break;
                        }
                        // nothing waits for a timer (only for a wake-up from another thread)
                        None => {}
                        Some(d) => {
                            // an otherwise idle runtime sleeps no longer than the nearest deadline
                            for (id, dl) in waiting.iter() {
                                if d > dl.saturating_duration_since(n0) {
                                    sh.fail("C09:oversleep", format!("task {id}: poll timeout {d:?} beyond its deadline"));
                                }
                            }
                        }
                    }
                }
                if Instant::now() > give_up {
                    sh.fail("C09:never-fires", "watchdog".into());
                    break;
                }
                // `spin`: the driver's notifier is already woken before every poll, so the driver poll
                // returns at once with Ok(()) instead of timing out; the timers must be swept all the same
                if lp == "spin" && sh.busy_iteration() {
                    rt.waker().wake_by_ref();
                }
                if remaining {
                    rt.poll_with(Some(Duration::ZERO))
                } else if ct.is_none() {
                    rt.poll_with(Some(Duration::from_millis(500))) // bounded, for the watchdog's sake
                } else {
                    rt.poll()
                }
            }
        });
    } else {
        // plain `block_on`; an independent thread keeps waking the main future so that a lost
        // timer ends in a watchdog failure instead of a hang
        let stop = Arc::new(AtomicBool::new(false));
        let waker_slot: Arc<Mutex<Option<Waker>>> = Arc::new(Mutex::new(None));
        let th = {
            let (stop, slot) = (stop.clone(), waker_slot.clone());
            std::thread::spawn(move || {
                // (the period is well above the 200 ms tolerance: a runtime that only moves because
                // of these wake-ups is reported as firing late)
                while !stop.load(Ordering::Relaxed) {
                    std::thread::park_timeout(Duration::from_millis(500));
                    if let Some(w) = slot.lock().unwrap().as_ref() {
                        w.wake_by_ref();
                    }
                }
            })
        };
        let sh2 = sh.clone();
        let busy_main = lp == "busy";
        let tasks2: Vec<String> = tasks.iter().map(|s| s.to_string()).collect();
        rt.block_on(async move {
            let mut hs = vec![];
            for (id, t) in tasks2.into_iter().enumerate() {
                hs.push(compio_runtime::spawn(run_task(sh2.clone(), id, t)));
            }
            std::future::poll_fn(|cx| {
                *waker_slot.lock().unwrap() = Some(cx.waker().clone());
                if sh2.tokens.borrow().iter().all(|t| t.is_some()) {
                    return Poll::Ready(());
                }
                if Instant::now() > give_up {
                    sh2.fail("C09:never-fires", "watchdog".into());
                    return Poll::Ready(());
                }
                // `busy`: the main future yields by waking itself, the runtime never idles in the driver
                if busy_main && sh2.busy_iteration() {
                    cx.waker().wake_by_ref();
                }
                Poll::Pending
            })
            .await;
            drop(hs);
        });
        stop.store(true, Ordering::Relaxed);
        th.thread().unpark();
        th.join().unwrap();
    }
    // a dropped / finished timer leaves nothing behind
    let finished = all_done(&sh);
    let residue = rt.current_timeout();
    if finished && residue.is_some() {
        sh.fail("C09:residue", format!("all timer futures gone, wheel still reports {residue:?}"));
    }
    let toks: Vec<String> =
        sh.tokens.borrow().iter().map(|t| t.clone().unwrap_or_else(|| "unfinished".into())).collect();
    out.line = format!("{} residue={}", toks.join(" "), if residue.is_none() { "0" } else { "+" });
    out.failures = sh.failures.borrow().clone();
    std::thread::sleep(Duration::from_millis(1)); // let the canary close a stall window that is still open
    out.disturbed = sh.max_late.get() > DISTURBED || stalled_within(sh.t0, Instant::now()) > DISTURBED;
    out.tags.push(format!("rt:{drv}:{lp}"));
    for t in &tasks {
        out.tags.push(format!("rt:task-{}", t.split(',').next().unwrap()));
    }
    out
}

/// Timing-sensitive threads ask for the real-time scheduling class (best effort: needs privilege;
/// without it a loaded machine just causes more re-runs of disturbed cases).
fn try_realtime() {
    unsafe {
        let p = libc::sched_param { sched_priority: 10 };
        libc::sched_setscheduler(0, libc::SCHED_FIFO, &p);
    }
}

fn run_rt(drv: &str, lp: &str, tasks: &str) -> RtOut {
    start_canary();
    let mut last = RtOut::default();
    let mut all_failures = vec![];
    // "too late" verdicts (beyond the 200 ms tolerance / the watchdog) can be produced by the
    // environment (a descheduled thread); a defect of the timers is deterministic. They are reported
    // when they show in three attempts of the same scenario (or in every attempt made).
    let is_lateness = |sig: &str| sig == "C09:late-fire" || sig == "C09:never-fires";
    let mut late_attempts = 0;
    let mut attempts = 0;
    for attempt in 0..8 {
        if attempt > 2 {
            std::thread::sleep(Duration::from_millis(20 * attempt));
        }
        last = run_rt_once(drv, lp, tasks);
        attempts += 1;
        all_failures.extend(last.failures.clone());
        let late = last.failures.iter().any(|(s, _)| is_lateness(s));
        if late {
            late_attempts += 1;
            if late_attempts >= 3 {
                break;
            }
        }
        if !last.disturbed && !late {
            if attempt > 0 {
                last.tags.push("rt:rerun-after-stall".into());
            }
            break;
        }
        if attempt == 7 {
            last.tags.push("rt:gave-up-still-disturbed".into());
        }
    }
    // every other monitor failure counts, whichever attempt showed it
    let confirmed = late_attempts >= 3 || late_attempts == attempts;
    if late_attempts > 0 && !confirmed {
        last.tags.push("rt:unconfirmed-lateness".into());
    }
    last.failures = all_failures.into_iter().filter(|(s, _)| !is_lateness(s) || confirmed).collect();
    last
}

/// extreme interval parameters: start `s_ago` seconds in the past, period `p` seconds; observe the
/// deadline of the second tick through `Runtime::current_timeout`
fn run_ivx(drv: &str, s_ago: u64, p: u64) -> RtOut {
    let mut out = RtOut::default();
    let rt = match build_rt(drv) {
        Ok(rt) => rt,
        Err(e) => {
            out.line = format!("no-driver:{:?}", e.kind());
            return out;
        }
    };
    out.tags.push("rt:ivx".into());
    let line = rt.enter(|| {
        let w = Waker::noop();
        let mut cx = Context::from_waker(w);
        let now0 = Instant::now();
        let Some(start) = now0.checked_sub(Duration::from_secs(s_ago)) else {
            return "start-unrepresentable".to_string();
        };
        let period = Duration::from_secs(p);
        let Ok(mut iv) = catch(|| interval_at(start, period)) else {
            return "panic".to_string();
        };
        {
            let mut f = std::pin::pin!(iv.tick());
            match f.as_mut().poll(&mut cx) {
                Poll::Ready(v) if v == start => {}
                other => return format!("first-tick:{other:?}"),
            }
        }
        let mut f = std::pin::pin!(iv.tick());
        let c0 = Instant::now();
        let r = catch(|| f.as_mut().poll(&mut cx));
        match r {
            Err(_) => "panic".to_string(),
            Ok(Poll::Ready(v)) => format!("second-tick-ready:{:?}", v.saturating_duration_since(start)),
            Ok(Poll::Pending) => {
                let m0 = Instant::now();
                let ct = rt.current_timeout().expect("a timer is registered");
                // next = now_mt + ct with now_mt in [m0, m1]
                let next_rel = m0.saturating_duration_since(start) + ct;
                let secs = (next_rel.as_nanos() + 500_000_000) / 1_000_000_000;
                // monitor: aligned to start + k * period (within the measurement error), and in (now, now + period]
                let rem = next_rel.as_nanos() % period.as_nanos();
                let tol = 50_000_000u128;
                if !(rem <= tol || period.as_nanos() - rem <= tol) {
                    // is the offset a multiple of 2^64 ns (the `as u64` truncation of the remainder)?
                    let two64 = 1u128 << 64;
                    let r64 = rem % two64;
                    let trunc = rem >= two64 - tol && (r64 <= tol || two64 - r64 <= tol);
                    out.failures.push((
                        if trunc { "C09a:interval-u64-truncation".into() } else { "C09:interval-misaligned".into() },
                        format!("interval_at(now - {s_ago}s, {p}s): second tick {secs}s after start, not a multiple of the period{}", if trunc { " but off by a multiple of 2^64 ns" } else { "" }),
                    ));
                }
                if ct > period + Duration::from_millis(50) || m0 < c0 {
                    out.failures.push(("C09:interval-next".into(), format!("interval_at(now - {s_ago}s, {p}s): next tick {ct:?} away")));
                }
                format!("next {secs}")
            }
        }
    });
    out.line = line;
    out
}

/// `sleep(Duration::from_secs(secs))` and `timeout(same, pending)`: the registered deadline, seen
/// through `current_timeout`, or the documented overflow panic of `Instant + Duration`
fn run_dur(drv: &str, secs: u64) -> RtOut {
    let mut out = RtOut::default();
    let rt = match build_rt(drv) {
        Ok(rt) => rt,
        Err(e) => {
            out.line = format!("no-driver:{:?}", e.kind());
            return out;
        }
    };
    out.tags.push("rt:dur".into());
    let d = Duration::from_secs(secs);
    let probe = |make: &dyn Fn() -> Box<dyn FnMut(&mut Context<'_>) -> bool>| -> String {
        rt.enter(|| {
            let mut cx = Context::from_waker(Waker::noop());
            match catch(|| {
                let mut poll = make();
                let ready = poll(&mut cx);
                let ct = rt.current_timeout();
                drop(poll);
                (ready, ct)
            }) {
                Err(_) => "panic".to_string(),
                Ok((true, _)) => "ready".to_string(),
                Ok((false, None)) => "unregistered".to_string(),
                Ok((false, Some(ct))) => format!("after {}", (ct.as_nanos() + 500_000_000) / 1_000_000_000),
            }
        })
    };
    let a = probe(&|| {
        let mut s = Box::pin(compio_runtime::time::sleep(d));
        Box::new(move |cx| s.as_mut().poll(cx).is_ready())
    });
    let b = probe(&|| {
        let mut s = Box::pin(compio_runtime::time::timeout(d, std::future::pending::<()>()));
        Box::new(move |cx| s.as_mut().poll(cx).is_ready())
    });
    if a != b {
        out.failures.push(("C09:sleep-timeout-differ".into(), format!("sleep({secs}s): {a}, timeout({secs}s): {b}")));
    }
    if rt.current_timeout().is_some() {
        out.failures.push(("C09:residue".into(), format!("dropped sleep({secs}s) left a timer")));
    }
    out.line = a;
    out
}

// ---------------------------------------------------------------------------------------------
// case interpreter
// ---------------------------------------------------------------------------------------------

thread_local!(static RT_CACHE: RefCell<HashMap<String, RtOut>> = RefCell::new(HashMap::new()));

fn rt_line(line: &str) -> RtOut {
    if let Some(o) = RT_CACHE.with(|c| c.borrow().get(line).cloned()) {
        return o;
    }
    let w: Vec<&str> = line.split_whitespace().collect();
    let r = catch(|| match w.as_slice() {
        ["rt", drv, lp, tasks] => run_rt(drv, lp, tasks),
        ["ivx", drv, s, p] => run_ivx(drv, s.parse().unwrap(), p.parse().unwrap()),
        ["dur", drv, s] => run_dur(drv, s.parse().unwrap()),
        _ => RtOut { line: "bad-op".into(), ..Default::default() },
    });
    // no panic is expected outside the two documented ones, which are caught where they occur
    r.unwrap_or_else(|msg| RtOut {
        line: "unexpected-panic".into(),
        failures: vec![("C09:unexpected-panic".into(), msg)],
        ..Default::default()
    })
}

fn exec_case(case: &Case) -> Exec {
    let mut ex = Exec::new();
    let is_rt_line = |l: &str| l.starts_with("rt ") || l.starts_with("ivx ") || l.starts_with("dur ");
    let is_rt = case.lines.iter().any(|l| is_rt_line(l));
    if is_rt {
        for l in &case.lines {
            if is_rt_line(l) {
                let o = rt_line(l);
                for (s, d) in o.failures {
                    ex.fail(s, d);
                }
                for t in o.tags {
                    ex.tag(t);
                }
                ex.out.push(o.line);
            } else {
                ex.out.push("bad-op".into());
            }
        }
        ex.nontrivial = true;
        return ex;
    }
    // wheel-level case: re-run on a coarser grid when the clock bracket was broken
    let grids = [200_000u64, 200_000, 1_000_000, 1_000_000, 5_000_000, 5_000_000, 20_000_000, 20_000_000, 20_000_000];
    for (i, g) in grids.iter().enumerate() {
        let mut attempt = Exec::new();
        match run_wheel(&case.lines, *g, &mut attempt) {
            Ok(out) => {
                attempt.out = out;
                if i > 0 {
                    attempt.tag("w:rerun-coarser-grid");
                }
                attempt.nontrivial = attempt.tags.iter().any(|t| t == "w:fired" || t == "w:cancel-live" || t == "w:ins-panic");
                return attempt;
            }
            Err(BracketBroken) => continue,
        }
    }
    ex.out = case.lines.iter().map(|_| "bracket-broken".to_string()).collect();
    ex.tag("w:bracket-broken");
    ex
}

// ---------------------------------------------------------------------------------------------
// generators
// ---------------------------------------------------------------------------------------------

fn gen_wheel_case(rng: &mut Rng) -> Vec<String> {
    let t0 = rng.range(3, 8);
    let mut lines = vec![format!("wheel {t0}")];
    let mut t = t0;
    let mut n_handles = 0u64;
    let mut ops_in_cell = 0;
    let n_ops = rng.range(4, 28);
    // rarely: start next to the generation overflow
    let mut generation = 0u64;
    if rng.chance(1, 12) {
        generation = u64::MAX - rng.below(4);
        lines.push(format!("setgen {generation}"));
    }
    for _ in 0..n_ops {
        if ops_in_cell >= 6 {
            lines.push("adv 1".into());
            t += 1;
            ops_in_cell = 0;
            continue;
        }
        ops_in_cell += 1;
        match rng.below(20) {
            0..=6 => {
                // deadlines: past, now, next cell, near, far; collisions are frequent on purpose
                let d = match rng.below(8) {
                    0 => t.saturating_sub(rng.range(1, 3)),
                    1 => t,
                    2 => t + 1,
                    3..=5 => t + rng.range(1, 4),
                    6 => t + rng.range(4, 12),
                    _ => t + rng.range(100, 100_000),
                };
                lines.push(format!("ins {d}"));
                if d > t && generation < u64::MAX {
                    // (at u64::MAX the insert panics and hands out no key)
                    n_handles += 1;
                    generation += 1;
                }
            }
            7..=9 if n_handles > 0 => lines.push(format!("upd {} {}", rng.below(n_handles), rng.below(N_WAKERS as u64))),
            10..=11 if n_handles > 0 => lines.push(format!("can {}", rng.below(n_handles))),
            12..=13 if n_handles > 0 => lines.push(format!("poll {} {}", rng.below(n_handles), rng.below(N_WAKERS as u64))),
            14 if n_handles > 0 => lines.push(format!("done {}", rng.below(n_handles))),
            15..=16 => lines.push("mt".into()),
            17 => lines.push("wake".into()),
            _ => {
                let n = *rng.pick(&[1u64, 1, 1, 2, 2, 3, 5]);
                lines.push(format!("adv {n}"));
                t += n;
                ops_in_cell = 0;
                // the runtime's loop: after the driver returns, `wake`
                if rng.chance(2, 3) {
                    lines.push("wake".into());
                    ops_in_cell += 1;
                }
            }
        }
    }
    lines.push("mt".into());
    lines.push("adv 1".into());
    lines.push("wake".into());
    lines
}

/// Timers sharing one deadline with drops in between: `ins d` twice or more, wakers registered,
/// an older one cancelled, a new one for the same deadline inserted (and often cancelled again),
/// then the clock reaches `d` and `wake` must expire exactly the survivors and invoke their wakers.
fn gen_wheel_shared_case(rng: &mut Rng) -> Vec<String> {
    let t0 = rng.range(3, 8);
    let mut lines = vec![format!("wheel {t0}")];
    let d = t0 + rng.range(1, 3);
    let mut n = 0u64;
    let mut alive: Vec<u64> = vec![];
    let rounds = rng.range(1, 3);
    let first = rng.range(2, 4);
    for _ in 0..first {
        lines.push(format!("ins {d}"));
        alive.push(n);
        n += 1;
    }
    for h in alive.clone() {
        if rng.chance(3, 4) {
            let op = if rng.chance(1, 2) { "upd" } else { "poll" };
            lines.push(format!("{op} {h} {}", rng.below(N_WAKERS as u64)));
        }
    }
    for _ in 0..rounds {
        // drop one that is not the newest, create a new one for the same deadline
        if alive.len() >= 2 {
            let i = rng.below(alive.len() as u64 - 1) as usize;
            lines.push(format!("can {}", alive.remove(i)));
        }
        lines.push(format!("ins {d}"));
        let c = n;
        n += 1;
        match rng.below(3) {
            0 => alive.push(c),
            1 => {
                lines.push(format!("upd {c} {}", rng.below(N_WAKERS as u64)));
                alive.push(c);
            }
            _ => lines.push(format!("can {c}")),
        }
        for h in &alive {
            lines.push(format!("done {h}"));
        }
        if rng.chance(1, 3) {
            lines.push("mt".into());
        }
    }
    lines.push("mt".into());
    lines.push(format!("adv {}", d - t0));
    lines.push("wake".into());
    for h in 0..n {
        lines.push(format!("done {h}"));
    }
    lines.push("mt".into());
    lines
}

/// runtime-level scenarios of the two families added in session 3: timers sharing one deadline
/// `Instant` (`e`), and a task that keeps yielding past the deadlines of the others (`y`) under plain
/// `block_on` (the hand-driven loops of this harness do not go through `block_on_at`)
fn gen_rt_line_s3(rng: &mut Rng) -> String {
    let drv = *rng.pick(&["uring", "poll"]);
    let mut tasks = vec![];
    let yielding = rng.chance(1, 2);
    let lp = if yielding { *rng.pick(&["block", "block", "busy"]) } else { *rng.pick(&["block", "manual", "busy", "spin"]) };
    for _ in 0..rng.range(1, 4) {
        let d = rng.range(2, 40) as i64;
        let t = match rng.below(6) {
            0 | 1 => format!("e,{d},{}", rng.below(2)),
            2 => format!("s,{d}"),
            3 => format!("t,n,{d}"),
            4 => format!("t,{},{}", d, d + *rng.pick(&[0i64, 1, 5])),
            _ => format!("d,{d},{}", rng.below(2)),
        };
        tasks.push(t);
    }
    if !yielding && !tasks.iter().any(|t| t.starts_with("e,")) {
        tasks.push(format!("e,{},{}", rng.range(2, 40), rng.below(2)));
    }
    if yielding {
        if !tasks.iter().any(|t| t.starts_with("s,") || t.starts_with("t,") || t.starts_with("e,")) {
            tasks.push(format!("s,{}", rng.range(2, 40)));
        }
        let at = rng.below(tasks.len() as u64 + 1) as usize;
        tasks.insert(at, "y".to_string());
    }
    format!("rt {drv} {lp} {}", tasks.join(";"))
}

fn gen_rt_line(rng: &mut Rng) -> String {
    let drv = *rng.pick(&["uring", "poll"]);
    // `busy` / `spin`: the runtime never idles in the driver while the timers become due
    let lp = *rng.pick(&["manual", "block", "manual", "block", "busy", "spin"]);
    let n = rng.range(1, 8);
    let mut tasks = vec![];
    // deadlines on a 1..20 ms scale; `elapsed` verdicts, which depend on real time, keep a 150 ms margin
    let near = |rng: &mut Rng| -> i64 {
        match rng.below(6) {
            0 => -(rng.range(1, 30) as i64),
            1 => 0,
            2 => rng.range(1, 3) as i64,
            _ => rng.range(1, 20) as i64,
        }
    };
    for _ in 0..n {
        let t = match rng.below(12) {
            0..=3 => format!("s,{}", near(rng)),
            4 => format!("d,{},{}", if rng.chance(1, 2) { near(rng) } else { rng.range(50, 5000) as i64 }, rng.below(2)),
            5 => {
                // inner not later than the limit (equal included): always Ok
                let a = near(rng);
                let l = a + *rng.pick(&[0i64, 0, 1, 5, 20]);
                format!("t,{a},{l}")
            }
            6 => {
                // inner later than the limit by a margin: Elapsed
                let l = near(rng);
                // (the inner future is dropped at the limit: the margin costs no time)
                let a = l.max(0) + rng.range(150, 400) as i64;
                format!("t,{a},{l}")
            }
            7 => format!("t,n,{}", near(rng)),
            8 => format!("t,r,{}", near(rng)),
            9 if rng.chance(1, 2) => {
                // cancelled tick futures: the start lies in the future, the first call(s) are dropped
                // while pending, later ones too
                let start = rng.range(8, 40);
                let period = rng.range(5, 20);
                let mut pat = String::new();
                for _ in 0..rng.range(1, 3) {
                    pat.push(*rng.pick(&['p', 't']));
                }
                for _ in 0..rng.range(2, 5) {
                    pat.push(*rng.pick(&['d', 'd', 'd', 'p', 't']));
                }
                if !pat.contains('d') {
                    pat.push('d');
                }
                pat.push('d');
                format!("ic,{start},{period},{pat}")
            }
            9 => {
                // short periods: only the number of ticks is predicted, the monitors judge the instants
                format!("i,{},{},{},0", near(rng), rng.range(2, 12), rng.range(1, 5))
            }
            _ => {
                // periods of 20 ms and more: the tick indices are predicted. Every `tick()` call is kept
                // at least 10 ms before the next tick boundary: work is 0 or ends mid-period (so with
                // work longer than the period ticks are missed), and a start in the past leaves the
                // first call (at the scenario start) that far from a boundary as well
                let p = *rng.pick(&[20u64, 26, 30]);
                let work = *rng.pick(&[0, p / 2, p + p / 2]);
                let mut start = near(rng);
                while start < 0 && ((-start) as u64) % p > p - 10 {
                    start += 1;
                }
                format!("i,{start},{p},{},{work}", rng.range(2, 3))
            }
        };
        tasks.push(t);
    }
    // every sixth scenario: a task saturating the driver with cheap completions
    if rng.chance(1, 6) {
        let at = rng.below(tasks.len() as u64 + 1) as usize;
        tasks.insert(at, "z".to_string());
    }
    // every third scenario: cross-thread wake-ups at 0.3..2.5 ms intervals while the timers run
    if rng.chance(1, 3) {
        let at = rng.below(tasks.len() as u64 + 1) as usize;
        tasks.insert(at, format!("n,{},{}", rng.range(3, 30), rng.range(3, 25)));
    }
    format!("rt {drv} {lp} {}", tasks.join(";"))
}

fn gen_ivx_line(rng: &mut Rng) -> String {
    let drv = *rng.pick(&["uring", "poll"]);
    const Y: u64 = 31_536_000;
    let (s, p) = match rng.below(9) {
        // ordinary values, in seconds: start before / within / many periods ago (missed ticks)
        0 | 6 | 7 | 8 => (rng.below(3000), rng.range(10, 1000)),
        1 => (rng.below(100_000), 0),
        2 => (rng.below(100), (1u64 << 63) + rng.below(1u64 << 62)), // Instant overflow
        3 => (rng.below(100), (1u64 << 63) - rng.range(400, 4000) * Y),
        4 => (rng.range(1, 500) * Y, rng.range(1, 580) * Y),
        // period above 2^64 ns and a start more than 2^64 ns in the past: the `as u64` truncation
        _ => (rng.range(600, 3000) * Y, rng.range(600, 3000) * Y),
    };
    format!("ivx {drv} {s} {p}")
}

fn generate(tier: &str, rng: &mut Rng) -> Vec<Case> {
    let (n_wheel, n_rt, n_ivx) = if tier == "thorough" { (20_000, 1200, 240) } else { (3_000, 240, 60) };
    // the families added in session 3 draw from their own stream (the older cases stay what they were)
    let mut rng3 = Rng::new(rng.0.wrapping_add(0xC09_0003));
    let (n_shared, n_rt3) = if tier == "thorough" { (3000, 200) } else { (400, 40) };
    let mut cases = vec![];
    // runtime-level scenarios: generated first and executed right away on a pool of threads (each
    // scenario owns a runtime and mostly sleeps); `exec` finds the results in the cache
    let mut rt_lines = vec![];
    for _ in 0..n_rt {
        rt_lines.push(gen_rt_line(rng));
    }
    for _ in 0..n_rt3 {
        rt_lines.push(gen_rt_line_s3(&mut rng3));
    }
    for _ in 0..n_ivx {
        rt_lines.push(gen_ivx_line(rng));
    }
    for _ in 0..n_ivx / 2 {
        let drv = *rng.pick(&["uring", "poll"]);
        let secs = match rng.below(4) {
            0 => rng.range(1, 100_000),
            1 => rng.range(1, 1 << 40),
            2 => (1u64 << 63) - rng.range(400, 4000) * 31_536_000, // the largest that still fit
            _ => (1u64 << 63) + rng.below(1u64 << 63),            // Instant overflow: panic
        };
        rt_lines.push(format!("dur {drv} {secs}"));
    }
    let results: Arc<Mutex<HashMap<String, RtOut>>> = Arc::new(Mutex::new(HashMap::new()));
    let queue: Arc<Mutex<Vec<String>>> = Arc::new(Mutex::new(rt_lines.clone()));
    let n_threads = 4;
    let ths: Vec<_> = (0..n_threads)
        .map(|_| {
            let (queue, results) = (queue.clone(), results.clone());
            std::thread::spawn(move || {
                try_realtime();
                loop {
                    let Some(l) = queue.lock().unwrap().pop() else { break };
                    let o = rt_line(&l);
                    results.lock().unwrap().insert(l, o);
                }
            })
        })
        .collect();
    for t in ths {
        t.join().unwrap();
    }
    RT_CACHE.with(|c| *c.borrow_mut() = std::mem::take(&mut *results.lock().unwrap()));
    for (i, l) in rt_lines.into_iter().enumerate() {
        cases.push(Case { name: format!("rt{i}"), lines: vec![l] });
    }
    for i in 0..n_wheel {
        cases.push(Case { name: format!("w{i}"), lines: gen_wheel_case(rng) });
    }
    for i in 0..n_shared {
        cases.push(Case { name: format!("wsh{i}"), lines: gen_wheel_shared_case(&mut rng3) });
    }
    cases
}

fn main() {
    // expected panics (generation overflow, Instant overflow) are caught and reported per line
    std::panic::set_hook(Box::new(|_| {}));
    try_realtime();
    run_harness(
        generate,
        exec_case,
        "cases: (a) random programs of insert/update_waker/cancel/poll_timer/wake/min_timeout/is_completed on the real TimerRuntime with grid deadlines (past, now, equal, near, far) under a bracketed clock, incl. the generation-overflow corner; (b) sets of sleeps/timeouts/intervals/dropped timers on a real Runtime (io-uring and polling drivers, block_on and a hand-driven loop); (c) extreme interval parameters. distinct by case text; non-trivial = a timer fired through wake, a live timer was cancelled, the overflow panic was hit, or any runtime-level scenario",
    );
}
