//! Shared plumbing of the correspondence harnesses.
//!
//! A *case* is a list of text lines (one operation per line). A harness binary
//! provides a generator (seed -> cases) and an executor (case -> one output line
//! per operation line, plus property-monitor failures). The same lines are fed to
//! the Lean model driver by `/verif/check`, which diffs the two output streams.
//! Corpus files and replay files are plain case files, executed first.

use std::{
    collections::{BTreeMap, HashSet},
    fmt::Write as _,
    fs,
    io::Write as _,
    path::PathBuf,
};

/// SplitMix64: the only source of randomness, seeded from VERIF_SEED / --seed.
#[derive(Clone)]
pub struct Rng(pub u64);

impl Rng {
    pub fn new(seed: u64) -> Self {
        Rng(seed ^ 0x9E37_79B9_7F4A_7C15)
    }

    pub fn next(&mut self) -> u64 {
        self.0 = self.0.wrapping_add(0x9E37_79B9_7F4A_7C15);
        let mut z = self.0;
        z = (z ^ (z >> 30)).wrapping_mul(0xBF58_476D_1CE4_E5B9);
        z = (z ^ (z >> 27)).wrapping_mul(0x94D0_49BB_1331_11EB);
        z ^ (z >> 31)
    }

    /// uniform in 0..n (n > 0)
    pub fn below(&mut self, n: u64) -> u64 {
        self.next() % n
    }

    pub fn range(&mut self, lo: u64, hi_incl: u64) -> u64 {
        lo + self.below(hi_incl - lo + 1)
    }

    pub fn chance(&mut self, num: u64, den: u64) -> bool {
        self.below(den) < num
    }

    pub fn pick<'a, T>(&mut self, xs: &'a [T]) -> &'a T {
        &xs[self.below(xs.len() as u64) as usize]
    }

    pub fn bytes(&mut self, n: usize) -> Vec<u8> {
        (0..n).map(|_| self.next() as u8).collect()
    }

    /// bytes from a small alphabet (makes delimiter collisions likely)
    pub fn bytes_from(&mut self, n: usize, alphabet: &[u8]) -> Vec<u8> {
        (0..n).map(|_| *self.pick(alphabet)).collect()
    }

    /// `bytes_from` with a length drawn from 0..max
    pub fn bytes_from_upto(&mut self, max: u64, alphabet: &[u8]) -> Vec<u8> {
        let n = self.below(max) as usize;
        self.bytes_from(n, alphabet)
    }

    pub fn fork(&mut self) -> Rng {
        Rng(self.next())
    }
}

pub fn hex(bs: &[u8]) -> String {
    if bs.is_empty() {
        return "-".into();
    }
    let mut s = String::with_capacity(bs.len() * 2);
    for b in bs {
        write!(s, "{:02x}", b).unwrap();
    }
    s
}

pub fn unhex(s: &str) -> Vec<u8> {
    if s == "-" {
        return vec![];
    }
    (0..s.len() / 2)
        .map(|i| u8::from_str_radix(&s[2 * i..2 * i + 2], 16).expect("hex"))
        .collect()
}

/// Split `data` into fragments whose sizes are drawn by `rng` from 1..=max.
pub fn fragment(rng: &mut Rng, data: &[u8], max: usize) -> Vec<Vec<u8>> {
    let mut out = vec![];
    let mut i = 0;
    while i < data.len() {
        let n = (rng.range(1, max as u64) as usize).min(data.len() - i);
        out.push(data[i..i + n].to_vec());
        i += n;
    }
    out
}

/// All compositions of `n` (ordered ways to cut a string of length n), as size lists.
pub fn compositions(n: usize) -> Vec<Vec<usize>> {
    if n == 0 {
        return vec![vec![]];
    }
    let mut out = vec![];
    for mask in 0u32..(1 << (n - 1)) {
        let mut sizes = vec![];
        let mut cur = 1;
        for bit in 0..n - 1 {
            if mask & (1 << bit) != 0 {
                sizes.push(cur);
                cur = 1;
            } else {
                cur += 1;
            }
        }
        sizes.push(cur);
        out.push(sizes);
    }
    out
}

#[derive(Clone, Debug)]
pub struct Case {
    pub name: String,
    pub lines: Vec<String>,
}

/// A property-monitor failure: the implementation violated the property itself
/// (decided by an implementation-only oracle, independent of the Lean model).
#[derive(Clone, Debug)]
pub struct MonitorFailure {
    /// stable signature used to match known findings, e.g. `F6:uninit-second-fill`
    pub sig: String,
    pub detail: String,
}

pub struct Exec {
    /// one output line per input line
    pub out: Vec<String>,
    pub failures: Vec<MonitorFailure>,
    /// free-form tags describing which branches this case hit (for the distribution)
    pub tags: Vec<String>,
    /// whether the case is non-trivial by the harness' stated rule
    pub nontrivial: bool,
}

impl Exec {
    pub fn new() -> Self {
        Exec { out: vec![], failures: vec![], tags: vec![], nontrivial: false }
    }

    pub fn fail(&mut self, sig: impl Into<String>, detail: impl Into<String>) {
        self.failures.push(MonitorFailure { sig: sig.into(), detail: detail.into() });
    }

    pub fn tag(&mut self, t: impl Into<String>) {
        self.tags.push(t.into());
    }
}

impl Default for Exec {
    fn default() -> Self {
        Self::new()
    }
}

pub struct Args {
    pub tier: String,
    pub seed: u64,
    pub out: PathBuf,
    pub replay: Option<PathBuf>,
    pub corpus: Option<PathBuf>,
}

pub fn parse_args() -> Args {
    let mut tier = std::env::var("VERIF_TIER").unwrap_or_else(|_| "quick".into());
    let mut seed: u64 = std::env::var("VERIF_SEED").ok().and_then(|s| s.parse().ok()).unwrap_or(1);
    let mut out = PathBuf::from("out");
    let mut replay = None;
    let mut corpus = None;
    let mut it = std::env::args().skip(1);
    while let Some(a) = it.next() {
        match a.as_str() {
            "--tier" => tier = it.next().expect("tier"),
            "--seed" => seed = it.next().expect("seed").parse().expect("seed int"),
            "--out" => out = it.next().expect("out").into(),
            "--replay" => replay = Some(it.next().expect("replay").into()),
            "--corpus" => corpus = Some(it.next().expect("corpus").into()),
            other => panic!("unknown argument {other}"),
        }
    }
    Args { tier, seed, out, replay, corpus }
}

/// Read a case file: lines starting with `##` are comments, `#case <name>` starts a case.
pub fn read_cases(path: &std::path::Path) -> Vec<Case> {
    let text = fs::read_to_string(path).unwrap_or_else(|e| panic!("read {path:?}: {e}"));
    let mut cases: Vec<Case> = vec![];
    for line in text.lines() {
        let line = line.trim_end();
        if line.is_empty() || line.starts_with("##") {
            continue;
        }
        if let Some(name) = line.strip_prefix("#case ") {
            cases.push(Case { name: name.trim().to_string(), lines: vec![] });
        } else {
            if cases.is_empty() {
                cases.push(Case {
                    name: path.file_stem().unwrap().to_string_lossy().into_owned(),
                    lines: vec![],
                });
            }
            cases.last_mut().unwrap().lines.push(line.to_string());
        }
    }
    cases
}

fn json_str(s: &str) -> String {
    let mut o = String::from("\"");
    for c in s.chars() {
        match c {
            '"' => o.push_str("\\\""),
            '\\' => o.push_str("\\\\"),
            '\n' => o.push_str("\\n"),
            '\t' => o.push_str("\\t"),
            c if (c as u32) < 0x20 => write!(o, "\\u{:04x}", c as u32).unwrap(),
            c => o.push(c),
        }
    }
    o.push('"');
    o
}

/// Main loop shared by every harness binary.
///
/// * `gen(tier, rng)` produces the generated cases of this run;
/// * `exec(case)` runs one case on the implementation.
///
/// Writes into `--out`: `ops.txt` (`#case` + operation lines), `impl.txt`
/// (`#case` + implementation outputs, same line structure), `monitor.jsonl`
/// (property-monitor failures) and `stats.json`.
pub fn run_harness(
    generate: impl FnOnce(&str, &mut Rng) -> Vec<Case>,
    mut exec: impl FnMut(&Case) -> Exec,
    rule: &str,
) {
    let args = parse_args();
    fs::create_dir_all(&args.out).expect("mkdir out");
    let mut cases: Vec<Case> = vec![];
    let mut n_corpus = 0;
    if let Some(r) = &args.replay {
        cases.extend(read_cases(r));
    } else {
        if let Some(dir) = &args.corpus {
            if let Ok(rd) = fs::read_dir(dir) {
                let mut files: Vec<_> = rd.filter_map(|e| e.ok()).map(|e| e.path()).collect();
                files.sort();
                for f in files {
                    if f.extension().map(|e| e == "case").unwrap_or(false) {
                        let mut cs = read_cases(&f);
                        for c in &mut cs {
                            c.name = format!("corpus/{}", c.name);
                        }
                        cases.extend(cs);
                    }
                }
            }
        }
        n_corpus = cases.len();
        let mut rng = Rng::new(args.seed);
        cases.extend(generate(&args.tier, &mut rng));
    }

    let mut ops = std::io::BufWriter::new(fs::File::create(args.out.join("ops.txt")).unwrap());
    let mut imp = std::io::BufWriter::new(fs::File::create(args.out.join("impl.txt")).unwrap());
    let mut mon = std::io::BufWriter::new(fs::File::create(args.out.join("monitor.jsonl")).unwrap());
    let mut tags: BTreeMap<String, u64> = BTreeMap::new();
    let mut seen: HashSet<u64> = HashSet::new();
    let mut distinct_nontrivial = 0u64;
    let mut n_ops = 0u64;
    let mut n_fail = 0u64;
    let mut samples: Vec<String> = vec![];
    // silence the default panic message: panics inside `exec` are caught and reported per line
    std::panic::set_hook(Box::new(|_| {}));
    for (i, case) in cases.iter().enumerate() {
        let ex = exec(case);
        assert_eq!(
            ex.out.len(),
            case.lines.len(),
            "harness bug: case {} produced {} outputs for {} lines",
            case.name,
            ex.out.len(),
            case.lines.len()
        );
        writeln!(ops, "#case {}", case.name).unwrap();
        writeln!(imp, "#case {}", case.name).unwrap();
        for (l, o) in case.lines.iter().zip(&ex.out) {
            writeln!(ops, "{l}").unwrap();
            writeln!(imp, "{o}").unwrap();
            n_ops += 1;
        }
        for f in &ex.failures {
            n_fail += 1;
            writeln!(
                mon,
                "{{\"case\":{},\"sig\":{},\"detail\":{}}}",
                json_str(&case.name),
                json_str(&f.sig),
                json_str(&f.detail)
            )
            .unwrap();
        }
        for t in &ex.tags {
            *tags.entry(t.clone()).or_insert(0) += 1;
        }
        // distinctness: hash of the canonical case text
        let mut h: u64 = 0xcbf2_9ce4_8422_2325;
        for l in &case.lines {
            for b in l.bytes().chain(std::iter::once(b'\n')) {
                h ^= b as u64;
                h = h.wrapping_mul(0x1000_0000_01b3);
            }
        }
        if seen.insert(h) && ex.nontrivial {
            distinct_nontrivial += 1;
        }
        if samples.len() < 3 && ex.nontrivial && i >= n_corpus {
            let mut s = String::new();
            for (l, o) in case.lines.iter().zip(&ex.out).take(6) {
                let l: String = l.chars().take(160).collect();
                let o: String = o.chars().take(160).collect();
                write!(s, "{l} => {o}; ").unwrap();
            }
            samples.push(s);
        }
    }
    ops.flush().unwrap();
    imp.flush().unwrap();
    mon.flush().unwrap();
    let mut st = String::new();
    write!(
        st,
        "{{\"seed\":{},\"tier\":{},\"cases\":{},\"corpus_cases\":{},\"ops\":{},\"distinct_nontrivial\":{},\"monitor_failures\":{},\"rule\":{},\"tags\":{{",
        args.seed,
        json_str(&args.tier),
        cases.len(),
        n_corpus,
        n_ops,
        distinct_nontrivial,
        n_fail,
        json_str(rule)
    )
    .unwrap();
    let mut first = true;
    for (k, v) in &tags {
        if !first {
            st.push(',');
        }
        first = false;
        write!(st, "{}:{}", json_str(k), v).unwrap();
    }
    st.push_str("},\"samples\":[");
    for (i, s) in samples.iter().enumerate() {
        if i > 0 {
            st.push(',');
        }
        st.push_str(&json_str(s));
    }
    st.push_str("]}");
    fs::write(args.out.join("stats.json"), st).unwrap();
}

/// Run `f`, mapping a panic to `Err(message)`.
pub fn catch<T>(f: impl FnOnce() -> T) -> Result<T, String> {
    match std::panic::catch_unwind(std::panic::AssertUnwindSafe(f)) {
        Ok(v) => Ok(v),
        Err(e) => Err(if let Some(s) = e.downcast_ref::<&str>() {
            s.to_string()
        } else if let Some(s) = e.downcast_ref::<String>() {
            s.clone()
        } else {
            "panic".into()
        }),
    }
}
