//! loom scenarios on the real executor. Usage: c04_loom <scenario> ; exit 0 = no violation in any explored schedule.
use std::{
    future::Future,
    pin::Pin,
    sync::Arc,
    task::{Context, Poll, Wake, Waker},
};

use compio_executor::Executor;
use loom::{sync::atomic::{AtomicUsize, Ordering}, thread};

struct CountWaker(AtomicUsize);
impl Wake for CountWaker {
    fn wake(self: Arc<Self>) {
        self.0.fetch_add(1, Ordering::SeqCst);
    }
}

struct Once(bool);
impl Future for Once {
    type Output = usize;
    fn poll(mut self: Pin<&mut Self>, cx: &mut Context<'_>) -> Poll<usize> {
        if self.0 {
            Poll::Ready(7)
        } else {
            self.0 = true;
            cx.waker().wake_by_ref();
            Poll::Pending
        }
    }
}

/// F1: a handle polled once on another thread while the task completes must either get the
/// result or have its waker woken.
fn remote_join_wake(yields: bool) {
    loom::model(move || {
        let exe = Executor::new();
        let handle = exe.spawn(Once(!yields));
        let cw = Arc::new(CountWaker(AtomicUsize::new(0)));
        let cw2 = cw.clone();
        let t = thread::spawn(move || {
            let waker = Waker::from(cw2);
            let cx = &mut Context::from_waker(&waker);
            let mut h = handle;
            let r = Pin::new(&mut h).poll(cx);
            (r.is_ready(), h)
        });
        while exe.tick() {}
        let (ready, h) = t.join().unwrap();
        // the task has completed by now (tick returned false with nothing hot and it self-wakes at most once)
        if !ready {
            assert!(h.is_finished(), "task not finished after ticks");
            assert!(
                cw.0.load(Ordering::SeqCst) >= 1,
                "lost wake: handle returned Pending, task completed, waker never woken"
            );
        }
        drop(h);
    });
}

/// executor dropped while a remote handle is being polled: the handle must end up Ready(Cancelled) or be woken
fn remote_join_executor_drop() {
    loom::model(|| {
        let exe = Executor::new();
        let handle = exe.spawn(std::future::pending::<usize>());
        let cw = Arc::new(CountWaker(AtomicUsize::new(0)));
        let cw2 = cw.clone();
        let t = thread::spawn(move || {
            let waker = Waker::from(cw2);
            let cx = &mut Context::from_waker(&waker);
            let mut h = handle;
            let r = Pin::new(&mut h).poll(cx);
            (r.is_ready(), h)
        });
        exe.tick();
        drop(exe);
        let (ready, h) = t.join().unwrap();
        if !ready {
            assert!(h.is_finished(), "task not finished after executor drop");
            assert!(
                cw.0.load(Ordering::SeqCst) >= 1,
                "lost wake: handle Pending, executor dropped the task, waker never woken"
            );
        }
        drop(h);
    });
}

/// F040: a remote handle polled a SECOND time (same waker) while the task completes. If the second poll's
/// `load` precedes `finish_running`, its `start_setting_waker` follows it and the executor's `Task::drop`
/// (`set_dropped` clears HAS_WAKER, sees SETTING_WAKER and leaves the waker alone) falls inside that section,
/// the section is left through `finish_setting_waker::<false>` and nobody ever drops the waker in the slot.
/// Oracle: after handle, executor and the polling thread's own `Waker` are gone, we hold the only reference.
fn remote_join_waker_leak() {
    loom::model(|| {
        let exe = Executor::new();
        let handle = exe.spawn(Once(true));
        let cw = Arc::new(CountWaker(AtomicUsize::new(0)));
        let cw2 = cw.clone();
        let t = thread::spawn(move || {
            let waker = Waker::from(cw2);
            let cx = &mut Context::from_waker(&waker);
            let mut h = handle;
            let mut r = Pin::new(&mut h).poll(cx);
            if r.is_pending() {
                r = Pin::new(&mut h).poll(cx);
            }
            drop(r);
            h
        });
        while exe.tick() {}
        let h = t.join().unwrap();
        drop(h);
        drop(exe);
        assert_eq!(
            Arc::strong_count(&cw),
            1,
            "F040 join waker leaked: a Waker clone stored in the task's slot was never dropped"
        );
    });
}

fn main() {
    let which = std::env::args().nth(1).unwrap_or_else(|| "all".into());
    let run = |name: &str, f: &dyn Fn()| {
        if which == "all" || which == name {
            f();
            println!("loom {name}: ok");
        }
    };
    run("remote_join_wake", &|| remote_join_wake(false));
    run("remote_join_wake_yield", &|| remote_join_wake(true));
    run("remote_join_executor_drop", &|| remote_join_executor_drop());
    // known finding F040 (fails on the current code): only on request, not part of "all"
    if which == "remote_join_waker_leak" {
        remote_join_waker_leak();
        println!("loom remote_join_waker_leak: ok");
    }
}
