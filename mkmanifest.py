#!/usr/bin/env python3
"""regenerate MANIFEST.json from props.py (single source of truth for the claimed checks)"""
import json
from props import PROPS, HOOK_COMMITS
ids = [json.loads(l)["id"] for l in open("properties.jsonl")]
checks = []
for pid in ids:
    if pid not in PROPS or not PROPS[pid].get("ready"):
        continue
    p = PROPS[pid]
    checks.append({
        "property_id": pid,
        "quick_cmd": f"./check {pid} --tier quick",
        "thorough_cmd": f"./check {pid} --tier thorough",
        "evidence_file": f"evidence/{pid}.json",
        "replay_cmd_template": f"./check {pid} --replay {{path}}",
        "engine": "lean-models",
        "level_claimed": {"category": "proof", "text": p["level_text"], "design_ref": f"DESIGN.md section 6, {pid}"},
        "level_note": p["level_note"],
        "technique": p["technique"],
    })
na = [{"property_id": pid, "reason": "no check registered yet: the Lean model, theorems and correspondence harness for this property are still being built (plan in DESIGN.md section 6); machine-checked proof does apply to it"}
      for pid in ids if pid not in PROPS or not PROPS[pid].get("ready")]
m = {
    "version": 1,
    "setup_cmd": "./check --setup",
    "hooks": {
        "guard": "compio_verif",
        "enable": "RUSTFLAGS='--cfg compio_verif' (set in /verif/harness/.cargo/config.toml for every harness build)",
        "baseline_off_cmd": "cd /repo && cargo nextest run --workspace --no-fail-fast --tool-config-file pb:/w/lib/nextest.toml --profile pb --test-threads 8 --offline  (fallback: cargo test --workspace --no-fail-fast --offline)",
        "source_commits": HOOK_COMMITS,
        "add_only": False,  # one existing line changed: compio-executor check-cfg list gains cfg(compio_verif)
    },
    "engines": [
        {"name": "lean-models", "path": "lean", "serves_properties": sorted(PROPS),
         "kind_free_text": "Lean 4 project: executable models (Compio/Model), definitions regenerated from /repo sources (Compio/Gen), property theorems (Compio/Props), counter-example theorems (Compio/Cex), line-protocol model drivers (Drivers)"},
        {"name": "correspondence-harness", "path": "harness", "serves_properties": sorted(PROPS),
         "kind_free_text": "Rust workspace calling the real compio crates (path deps on /repo) on generated cases; outputs diffed against the Lean model driver; implementation-only property monitors"},
        {"name": "extractor", "path": "extract", "serves_properties": sorted(k for k, v in PROPS.items() if v.get("gen")),
         "kind_free_text": "syn-based translator regenerating Lean definitions (masks, tables, constants) from /repo sources on every run"},
    ],
    "checks": checks,
    "not_applicable": na,
    "notes": "All checks go through ./check (see its docstring). Known findings: known-findings.json. Seeded breakages used to test the checks: seeded/.",
}
json.dump(m, open("MANIFEST.json", "w"), indent=1)
print("claimed", [c["property_id"] for c in checks], "na", len(na))
