#!/usr/bin/env python3
"""print the per-property status table of DESIGN.md §11.3 from the committed evidence and propcfg"""
import json, glob, os
print("| prop | tier of committed evidence | theorems proved (Props+Cex) | cases | distinct non-trivial | regenerated from source | harness | detail |")
print("|---|---|---|---|---|---|---|---|")
for f in sorted(glob.glob("propcfg/C*.json")):
    pid = os.path.basename(f)[:-5]
    c = json.load(open(f))
    try:
        e = json.load(open(f"evidence/{pid}.json"))
    except Exception:
        continue
    cov = e.get("coverage", {})
    gen = ",".join(c.get("gen", [])) or "—"
    h = c.get("harness", {})
    print(f"| {pid} | {e.get('tier')} | {cov.get('discharged', '?')}/{cov.get('obligations', '?')} | {cov.get('evaluations', '?')} | {cov.get('distinct_nontrivial', '?')} | {gen} | {h.get('package')}/{h.get('bin')} | notes/{pid}.md |")
