"""Per-property configuration of ./check: one JSON file per property under propcfg/
(which Lean modules hold the theorems, which model driver and harness binary form the
correspondence tie, what is assumed, and the MANIFEST texts)."""
import glob, json, os

_here = os.path.dirname(os.path.abspath(__file__))
PROPS = {}
for _f in sorted(glob.glob(os.path.join(_here, "propcfg", "C*.json"))):
    PROPS[os.path.basename(_f)[:-5]] = json.load(open(_f))

# commits in /repo that add cfg(compio_verif) hooks (recorded in MANIFEST.hooks.source_commits)
HOOK_COMMITS = json.load(open(os.path.join(_here, "propcfg", "hook_commits.json")))
