"""Per-property configuration of ./check (which Lean modules hold the theorems, which model
driver and harness binary form the correspondence tie, what is assumed)."""

HOOK_COMMITS = []

PROPS = {
    "C13": {
        "props": ["Compio.Props.C13"],
        "cex": ["Compio.Cex.C13"],
        "driver": "c13d",
        "harness": {"package": "hx-pure", "bin": "c13"},
        "level_text": "Lean 4 theorems over an executable model of the framers, the Framed read loop and the cmsg builder/iterator: round trip for every frame list and every fragmentation (LengthDelimited 1..8 bytes both endiannesses, any non-empty delimiter), no panic / in-range frames / termination for arbitrary bytes, cmsg iterator in bounds and terminating, decode confined to the message. Model tied to the code by differential execution of the real compio-io on generated cases (hand model + correspondence).",
        "level_note": "Trusted: Lean kernel (axioms propext, Classical.choice, Quot.sound only), the hand-written model's faithfulness as far as the correspondence harness samples it, identity codec; serde_json codec and Windows cmsg macros not modelled.",
        "technique": "Lean 4 proof (induction over fragment lists, abstract framer contract) + differential correspondence harness",
        "trusted_base": [
            "hand model lean/Compio/Model/Frame.lean of compio-io/src/framed/{frame,read}.rs and Model/Cmsg.lean of ancillary/{mod,sys}.rs (Linux x86-64 cmsghdr layout, libc CMSG_* macros)",
        ],
        "assumptions": [
            "the codec is the identity on payload bytes (BytesCodec); serde_json codec not modelled",
            "control buffers handed to AncillaryIter have a valid layout (its unsafe contract); hostile bytes are explored for the header walk only",
            "usize is 64 bit",
        ],
    },
}
