//! compio-process/src/lib.rs `impl Command { .. }`  ->  Gen/CommandShape.lean
//!
//! `Command` is a reusable builder around `std::process::Command` (`self.0`). C20 needs: the stdio configuration a
//! child gets is the one the user set, for EVERY later `spawn` / `status` / `output` on the same builder. So for each
//! public method of `Command` the extractor records, in source order, every method it calls on the wrapped builder
//! (`self.0.<m>(..)`, also chained: `self.0.stdout(..).stderr(..)`), the argument kind of every
//! `stdin` / `stdout` / `stderr` call among them and the methods it calls on `self`.
//!
//! Recognised: `self.0` only as the root of a method-call chain; the argument of a stdio call is
//! `cfg.try_into()?` (the caller's value) or `process::Stdio::{null,piped,inherit}()`.
//! Anything else (`&mut self.0` handed to a helper, `self.0 = ..`, another argument expression) is an error.

use std::{fmt::Write as _, path::Path};

use syn::visit::Visit;

use crate::{Res, header, parse_file, tokens};

fn squash(s: &str) -> String {
    s.chars().filter(|c| !c.is_whitespace()).collect()
}

fn is_self0(e: &syn::Expr) -> bool {
    match e {
        syn::Expr::Field(f) => matches!(&f.member, syn::Member::Unnamed(i) if i.index == 0) && squash(&tokens(&*f.base)) == "self",
        syn::Expr::Paren(p) => is_self0(&p.expr),
        _ => false,
    }
}

/// the receiver chain of a method call ends in `self.0`
fn rooted(e: &syn::Expr) -> bool {
    match e {
        syn::Expr::MethodCall(m) => rooted(&m.receiver),
        syn::Expr::Paren(p) => rooted(&p.expr),
        e => is_self0(e),
    }
}

#[derive(Default)]
struct V {
    inner: Vec<String>,
    stdio: Vec<(String, String)>,
    self_calls: Vec<String>,
    self0_total: usize,
    self0_rooted: usize,
    err: Option<String>,
}

impl<'ast> Visit<'ast> for V {
    fn visit_expr_method_call(&mut self, m: &'ast syn::ExprMethodCall) {
        // receiver first: source order of a chain
        self.visit_expr(&m.receiver);
        if rooted(&m.receiver) {
            if is_self0(&m.receiver) {
                self.self0_rooted += 1;
            }
            let name = m.method.to_string();
            if ["stdin", "stdout", "stderr"].contains(&name.as_str()) {
                if m.args.len() != 1 {
                    self.err = Some(format!("self.0.{name} with {} arguments", m.args.len()));
                } else {
                    let a = squash(&tokens(&m.args[0]));
                    let kind = match a.as_str() {
                        "cfg.try_into()?" => "param",
                        "process::Stdio::null()" | "Stdio::null()" | "std::process::Stdio::null()" => "null",
                        "process::Stdio::piped()" | "Stdio::piped()" | "std::process::Stdio::piped()" => "piped",
                        "process::Stdio::inherit()" | "Stdio::inherit()" | "std::process::Stdio::inherit()" => "inherit",
                        other => {
                            self.err = Some(format!("self.0.{name}({other}): unrecognised argument"));
                            "param"
                        }
                    };
                    self.stdio.push((name.clone(), kind.to_string()));
                }
            }
            self.inner.push(name);
        } else if squash(&tokens(&*m.receiver)) == "self" {
            self.self_calls.push(m.method.to_string());
        }
        for a in &m.args {
            self.visit_expr(a);
        }
    }

    fn visit_expr_field(&mut self, f: &'ast syn::ExprField) {
        if matches!(&f.member, syn::Member::Unnamed(i) if i.index == 0) && squash(&tokens(&*f.base)) == "self" {
            self.self0_total += 1;
        }
        syn::visit::visit_expr_field(self, f);
    }

    fn visit_macro(&mut self, m: &'ast syn::Macro) {
        if squash(&m.tokens.to_string()).contains("self.0") {
            self.err = Some(format!("`self.0` inside the macro call {}", tokens(&m.path)));
        }
    }
}

fn cfg_of(attrs: &[syn::Attribute]) -> Option<String> {
    attrs.iter().find(|a| a.path().is_ident("cfg")).map(|a| squash(&tokens(&a.meta)))
}

pub fn generate(repo: &Path) -> Res<String> {
    let rel = "compio-process/src/lib.rs";
    let file = parse_file(&repo.join(rel))?;
    let mut rows: Vec<(String, V)> = vec![];
    for item in &file.items {
        let syn::Item::Impl(imp) = item else { continue };
        if imp.trait_.is_some() || squash(&tokens(&*imp.self_ty)) != "Command" {
            continue;
        }
        match cfg_of(&imp.attrs).as_deref() {
            None | Some("cfg(unix)") => {}
            Some("cfg(windows)") => continue,
            Some(other) => return Err(format!("impl Command under an unrecognised attribute {other}")),
        }
        for it in &imp.items {
            let syn::ImplItem::Fn(f) = it else { continue };
            let name = f.sig.ident.to_string();
            let mut v = V::default();
            v.visit_block(&f.block);
            if let Some(e) = v.err.take() {
                return Err(format!("Command::{name}: {e}"));
            }
            if v.self0_total != v.self0_rooted {
                return Err(format!(
                    "Command::{name}: `self.0` is used {} times but only {} times as the receiver of a method call (escapes / is assigned): shape not recognised",
                    v.self0_total, v.self0_rooted
                ));
            }
            if rows.iter().any(|(n, _)| *n == name) {
                return Err(format!("Command::{name} defined twice"));
            }
            rows.push((name, v));
        }
    }
    for need in ["new", "stdin", "stdout", "stderr", "spawn", "status", "output"] {
        if !rows.iter().any(|(n, _)| n == need) {
            return Err(format!("Command::{need} not found"));
        }
    }
    let list = |v: &[String]| format!("[{}]", v.iter().map(|x| format!("\"{x}\"")).collect::<Vec<_>>().join(", "));
    let mut s = header("CommandShape", &[rel]);
    writeln!(s, "namespace Compio.Gen.CommandShape\n").unwrap();
    writeln!(s, "/-- argument of a `self.0.stdin/stdout/stderr(..)` call: the caller's value or a constant -/").unwrap();
    writeln!(s, "inductive StdioArg where\n  | param | null | piped | inherit\n  deriving DecidableEq, Repr\n").unwrap();
    writeln!(s, "structure Method where\n  name : String\n  /-- methods called on the wrapped `std::process::Command`, in source order -/\n  inner : List String\n  /-- the stdio configuration calls among them -/\n  stdio : List (String × StdioArg)\n  /-- methods called on `self` -/\n  selfCalls : List String\n  deriving Repr\n").unwrap();
    writeln!(s, "/-- every method of `impl Command` (unconditional and `cfg(unix)` blocks) -/").unwrap();
    writeln!(s, "def methods : List Method := [").unwrap();
    for (i, (name, v)) in rows.iter().enumerate() {
        let stdio = v.stdio.iter().map(|(n, k)| format!("(\"{n}\", .{k})")).collect::<Vec<_>>().join(", ");
        writeln!(
            s,
            "  {{ name := \"{name}\", inner := {}, stdio := [{stdio}], selfCalls := {} }}{}",
            list(&v.inner),
            list(&v.self_calls),
            if i + 1 < rows.len() { "," } else { "" }
        )
        .unwrap();
    }
    writeln!(s, "]\n").unwrap();
    // stdio calls of a method including those of the `self` methods it calls (own calls first), no strings:
    fn closure(rows: &[(String, V)], name: &str, depth: usize) -> Res<Vec<(String, String)>> {
        if depth > 4 {
            return Err(format!("Command::{name}: recursive self calls"));
        }
        let Some((_, v)) = rows.iter().find(|(n, _)| n == name) else {
            return Err(format!("Command::{name}: called on self but not a method of Command"));
        };
        let mut out = v.stdio.clone();
        for c in &v.self_calls {
            out.extend(closure(rows, c, depth + 1)?);
        }
        Ok(out)
    }
    writeln!(s, "inductive Stream where\n  | stdin | stdout | stderr\n  deriving DecidableEq, Repr\n").unwrap();
    let mut others = vec![];
    for (name, _) in &rows {
        let cl = closure(&rows, name, 0)?;
        let text = cl.iter().map(|(n, k)| format!("(.{n}, .{k})")).collect::<Vec<_>>().join(", ");
        let lean_name = match name.as_str() {
            "spawn" => "stdioOfSpawn",
            "status" => "stdioOfStatus",
            "output" => "stdioOfOutput",
            "stdin" => "stdioOfStdin",
            "stdout" => "stdioOfStdout",
            "stderr" => "stdioOfStderr",
            _ => {
                if !cl.is_empty() {
                    others.push(name.clone());
                }
                continue;
            }
        };
        writeln!(s, "/-- stdio configuration calls made by `Command::{name}` (its own, then those of the `self` methods it calls) -/").unwrap();
        writeln!(s, "def {lean_name} : List (Stream × StdioArg) := [{text}]\n").unwrap();
    }
    writeln!(s, "/-- all OTHER methods of `Command` that touch the stdio configuration -/").unwrap();
    writeln!(s, "def otherStdioMutators : List String := {}\n", list(&others)).unwrap();
    writeln!(s, "end Compio.Gen.CommandShape").unwrap();
    Ok(s)
}
