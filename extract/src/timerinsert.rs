//! compio-runtime/src/time/runtime.rs `TimerRuntime::insert`  ->  Gen/TimerInsert.lean
//!
//! What makes two timers with the same deadline `Instant` distinct keys of the wheel is the
//! `generation` component of `TimerKey`. This target reads HOW `insert` derives it:
//!   * the statements of `fn insert`, classified, in source order
//!       `guardDue`     `if deadline <= Instant::now() { return None; }`
//!       `mkKey`        `let key = TimerKey { deadline, generation: <expr> };`
//!       `wheelInsert`  `self.wheel.insert(key, None);`
//!       `bumpChecked`  `self.generation = self.generation.checked_add(1).expect(..);`
//!       `retKey`       `Some(key)`
//!       `other`        anything else that does not mention `generation` or `wheel`
//!   * `<expr>`: `self.generation` -> `counter`, `self.wheel.len() as u64` -> `wheelLen`
//!   * the initial value of the counter in `new`, and the number of assignments to
//!     `self.generation` in the whole file (a second write could make the counter go back).
//! Fails closed on anything else.

use std::{fmt::Write as _, path::Path};

use crate::{Res, header, parse_file, tokens};

fn squash(s: &str) -> String {
    s.chars().filter(|c| !c.is_whitespace()).collect()
}

pub fn generate(repo: &Path) -> Res<String> {
    let rel = "compio-runtime/src/time/runtime.rs";
    let path = repo.join(rel);
    let file = parse_file(&path)?;
    let src = squash(&std::fs::read_to_string(&path).map_err(|e| e.to_string())?);
    let mut insert = None;
    let mut new_fn = None;
    for it in &file.items {
        let syn::Item::Impl(im) = it else { continue };
        if tokens(&im.self_ty) != "TimerRuntime" || im.trait_.is_some() {
            continue;
        }
        for ii in &im.items {
            let syn::ImplItem::Fn(f) = ii else { continue };
            if f.sig.ident == "insert" {
                if insert.is_some() {
                    return Err("two TimerRuntime::insert".into());
                }
                insert = Some(f);
            }
            if f.sig.ident == "new" {
                new_fn = Some(f);
            }
        }
    }
    let insert = insert.ok_or("TimerRuntime::insert not found")?;
    let new_fn = new_fn.ok_or("TimerRuntime::new not found")?;
    let mut kinds: Vec<&str> = vec![];
    let mut gen_src: Option<&str> = None;
    for st in &insert.block.stmts {
        let t = squash(&tokens(st));
        let kind = if t == "ifdeadline<=Instant::now(){returnNone;}" {
            "guardDue"
        } else if let Some(rest) = t.strip_prefix("letkey=TimerKey{deadline,generation:") {
            let e = rest.strip_suffix(",};").or_else(|| rest.strip_suffix("};")).ok_or_else(|| format!("insert: odd key literal `{t}`"))?;
            let s = match e {
                "self.generation" => "counter",
                "self.wheel.len()asu64" => "wheelLen",
                _ => return Err(format!("TimerRuntime::insert: unrecognised generation expression `{e}`")),
            };
            if gen_src.replace(s).is_some() {
                return Err("TimerRuntime::insert: two key literals".into());
            }
            "mkKey"
        } else if t == "self.wheel.insert(key,None);" {
            "wheelInsert"
        } else if t.starts_with("self.generation=self.generation.checked_add(1).expect(") && t.ends_with(");") {
            "bumpChecked"
        } else if t == "Some(key)" {
            "retKey"
        } else if t.contains("generation") || t.contains("wheel") || t.contains("return") {
            return Err(format!("TimerRuntime::insert: unsupported statement `{}`", tokens(st)));
        } else {
            "other"
        };
        kinds.push(kind);
    }
    let gen_src = gen_src.ok_or("TimerRuntime::insert: no `let key = TimerKey { .. }`")?;
    // initial value of the counter
    let new_t = squash(&tokens(&new_fn.block));
    let init: u64 = match new_t.find("generation:") {
        Some(i) => {
            let rest = &new_t[i + "generation:".len()..];
            let end = rest.find(|c: char| !c.is_ascii_digit()).unwrap_or(rest.len());
            rest[..end].parse().map_err(|_| format!("TimerRuntime::new: generation is not a literal: `{new_t}`"))?
        }
        None if gen_src != "counter" => 0,
        None => return Err("TimerRuntime::new does not initialise `generation`".into()),
    };
    let writes = src.matches("self.generation=").count()
        + src.matches("self.generation+=").count()
        + src.matches("self.generation-=").count()
        + src.matches("&mutself.generation").count();

    let mut s = header("TimerInsert", &[rel]);
    s.push_str("namespace Compio.Gen.TimerInsert\n\n");
    s.push_str("/-- where `insert` takes the `generation` of a new `TimerKey` from -/\ninductive GenSrc where\n  | counter    -- `self.generation`\n  | wheelLen   -- `self.wheel.len() as u64`\n  deriving DecidableEq, Repr\n\n");
    s.push_str("/-- kinds of top-level statements of `TimerRuntime::insert` -/\ninductive Stmt where\n  | guardDue      -- `if deadline <= Instant::now() { return None; }`\n  | mkKey         -- `let key = TimerKey { deadline, generation: <keyGeneration> };`\n  | wheelInsert   -- `self.wheel.insert(key, None);`\n  | bumpChecked   -- `self.generation = self.generation.checked_add(1).expect(..);`\n  | retKey        -- `Some(key)`\n  | other\n  deriving DecidableEq, Repr\n\n");
    writeln!(s, "def keyGeneration : GenSrc := .{gen_src}\n").unwrap();
    let lit = kinds.iter().map(|k| format!(".{k}")).collect::<Vec<_>>().join(", ");
    writeln!(s, "/-- the statements of `fn insert`, kinds in source order -/\ndef body : List Stmt := [{lit}]\n").unwrap();
    writeln!(s, "/-- `generation` in `TimerRuntime::new` -/\ndef counterInit : Nat := {init}\n").unwrap();
    writeln!(s, "/-- number of places in the file that write `self.generation` -/\ndef counterWrites : Nat := {writes}\n").unwrap();
    s.push_str("end Compio.Gen.TimerInsert\n");
    Ok(s)
}
