//! C14 — socket receive paths  ->  Gen/SockRecv.lean
//!
//! (A) compio-driver/src/sys/op/managed/iour.rs: `struct io_uring_recvmsg_out`, `const NLEN` and
//!     `impl RecvMsgMultiResultImpl { new, header, data, addr, ancillary, flags }` — the parser of the buffers the
//!     kernel fills for a multishot `recvmsg`. Regenerated: the field order / offsets of the header struct, the
//!     sum that `new` asserts against the buffer length, the offset expression of `data()`, the range of
//!     `ancillary()`, the `None` test / source offset / copy length of `addr()`, the field `flags()` returns.
//!     Every offset expression must be a sum of the terms `size_of::<io_uring_recvmsg_out>()`, `NLEN`,
//!     `clen` / `self.clen`, `header.<field> as usize` and (inside a range) the local `offset`.
//! (B) compio-driver/src/sys/op/socket/unix.rs: the value the polling `call()` of the five receive ops returns:
//!     the raw syscall result or `<raw>.min(self.buffer.{buf_capacity,total_capacity}())` (the clamp table).
//! (C) compio-net/src/socket/mod.rs: how the five single-shot `recv*` turn the completion into the caller's value:
//!     `[.map_addr()]` then `.map_advanced()` / `.map_vec_advanced()` (last two statements of the body), and that
//!     `recv_msg` is `recv_msg_vectored([buffer], ..)`.
//!
//! Fails closed: any other statement / term / method in these places is an error.

use std::{fmt::Write as _, path::Path};

use crate::{Res, header, parse_file, tokens};

fn squash(s: &str) -> String {
    s.chars().filter(|c| !c.is_whitespace()).collect()
}

const FIELDS: [&str; 4] = ["namelen", "controllen", "payloadlen", "flags"];

/// one term of an offset sum, rendered as Lean
fn term(e: &syn::Expr, allow_offset: Option<&str>) -> Res<String> {
    let t = squash(&tokens(e));
    if t == "size_of::<io_uring_recvmsg_out>()" {
        return Ok("HDR".into());
    }
    if t == "NLEN" {
        return Ok("NLEN".into());
    }
    if t == "clen" || t == "self.clen" {
        return Ok("clen".into());
    }
    if t == "offset" {
        return allow_offset.map(|s| format!("({s})")).ok_or_else(|| "`offset` used where it is not bound".to_string());
    }
    if let syn::Expr::Cast(c) = e {
        if squash(&tokens(&*c.ty)) == "usize" {
            let inner = squash(&tokens(&*c.expr));
            if let Some(f) = inner.strip_prefix("header.") {
                if FIELDS.contains(&f) {
                    return Ok(format!("h.{f}"));
                }
            }
        }
    }
    Err(format!("unrecognised term `{}` in an offset expression", tokens(e)))
}

/// `a + b + c` -> Lean sum
fn sum(e: &syn::Expr, allow_offset: Option<&str>) -> Res<String> {
    match e {
        syn::Expr::Binary(b) => match b.op {
            syn::BinOp::Add(_) => Ok(format!("{} + {}", sum(&b.left, allow_offset)?, term(&b.right, allow_offset)?)),
            _ => Err(format!("unsupported operator in offset expression `{}`", tokens(e))),
        },
        syn::Expr::Paren(p) => sum(&p.expr, allow_offset),
        syn::Expr::Group(g) => sum(&g.expr, allow_offset),
        _ => term(e, allow_offset),
    }
}

fn let_init<'a>(st: &'a syn::Stmt, name: &str, what: &str) -> Res<&'a syn::Expr> {
    if let syn::Stmt::Local(l) = st {
        if squash(&tokens(&l.pat)) == name {
            if let Some(i) = &l.init {
                if i.diverge.is_none() {
                    return Ok(&i.expr);
                }
            }
        }
    }
    Err(format!("{what}: expected `let {name} = ..;`, found `{}`", tokens(st)))
}

fn expect_stmt(st: &syn::Stmt, want: &str, what: &str) -> Res<()> {
    let got = squash(&tokens(st));
    if got == squash(want) { Ok(()) } else { Err(format!("{what}: expected `{want}`, found `{}`", tokens(st))) }
}

fn nstmts(b: &syn::Block, n: usize, what: &str) -> Res<()> {
    if b.stmts.len() == n { Ok(()) } else { Err(format!("{what}: expected {n} statements, found {}", b.stmts.len())) }
}

struct PartA {
    fields: Vec<String>,
    new_total: String,
    data_off: String,
    anc_start: String,
    anc_end: String,
    addr_off: String,
}

fn part_a(repo: &Path, rel: &str) -> Res<PartA> {
    let file = parse_file(&repo.join(rel))?;
    let mut fields = None;
    let mut nlen_ok = false;
    let mut methods: Vec<(String, &syn::Block)> = vec![];
    for item in &file.items {
        match item {
            syn::Item::Struct(s) if s.ident == "io_uring_recvmsg_out" => {
                if !s.attrs.iter().any(|a| squash(&tokens(a)) == "#[repr(C)]") {
                    return Err("io_uring_recvmsg_out is not #[repr(C)]".into());
                }
                let mut fs = vec![];
                for f in &s.fields {
                    let n = f.ident.as_ref().ok_or("tuple struct io_uring_recvmsg_out")?.to_string();
                    if squash(&tokens(&f.ty)) != "u32" {
                        return Err(format!("io_uring_recvmsg_out.{n} is not u32"));
                    }
                    fs.push(n);
                }
                let mut sorted = fs.clone();
                sorted.sort();
                let mut want: Vec<String> = FIELDS.iter().map(|s| s.to_string()).collect();
                want.sort();
                if sorted != want {
                    return Err(format!("io_uring_recvmsg_out fields {fs:?} are not {FIELDS:?}"));
                }
                fields = Some(fs);
            }
            syn::Item::Const(c) if c.ident == "NLEN" => {
                if squash(&tokens(&*c.expr)) != "size_of::<SockAddrStorage>()" || squash(&tokens(&*c.ty)) != "usize" {
                    return Err(format!("const NLEN is not `size_of::<SockAddrStorage>()`: {}", tokens(c)));
                }
                nlen_ok = true;
            }
            syn::Item::Impl(imp) if imp.trait_.is_none() && squash(&tokens(&*imp.self_ty)) == "RecvMsgMultiResultImpl" => {
                for it in &imp.items {
                    match it {
                        syn::ImplItem::Fn(f) => methods.push((f.sig.ident.to_string(), &f.block)),
                        other => return Err(format!("unexpected item in impl RecvMsgMultiResultImpl: {}", tokens(other))),
                    }
                }
            }
            _ => {}
        }
    }
    let fields = fields.ok_or("struct io_uring_recvmsg_out not found")?;
    if !nlen_ok {
        return Err("const NLEN not found".into());
    }
    let mut names: Vec<&str> = methods.iter().map(|m| m.0.as_str()).collect();
    names.sort();
    if names != ["addr", "ancillary", "data", "flags", "header", "new"] {
        return Err(format!("impl RecvMsgMultiResultImpl: methods {names:?} are not new/header/data/addr/ancillary/flags"));
    }
    let get = |n: &str| methods.iter().find(|m| m.0 == n).map(|m| m.1).unwrap();

    // new
    let b = get("new");
    nstmts(b, 5, "RecvMsgMultiResultImpl::new")?;
    expect_stmt(&b.stmts[0], "assert!(buffer.len() >= size_of::<io_uring_recvmsg_out>());", "new")?;
    let h = let_init(&b.stmts[1], "header", "new")?;
    if squash(&tokens(h)) != "unsafe{buffer.as_init().as_ptr().cast::<io_uring_recvmsg_out>().read_unaligned()}" {
        return Err(format!("new: header is not read_unaligned from the start of the buffer: {}", tokens(h)));
    }
    let new_total = sum(let_init(&b.stmts[2], "total_len", "new")?, None)?;
    expect_stmt(&b.stmts[3], "assert!(buffer.len() >= total_len);", "new")?;
    expect_stmt(&b.stmts[4], "Self { buffer, clen }", "new")?;

    // header
    let b = get("header");
    nstmts(b, 1, "header")?;
    expect_stmt(&b.stmts[0], "unsafe { self.buffer.as_ptr().cast::<io_uring_recvmsg_out>().read_unaligned() }", "header")?;

    // data
    let b = get("data");
    nstmts(b, 2, "data")?;
    let data_off = sum(let_init(&b.stmts[0], "offset", "data")?, None)?;
    expect_stmt(&b.stmts[1], "&self.buffer.as_init()[offset..]", "data")?;

    // ancillary
    let b = get("ancillary");
    nstmts(b, 3, "ancillary")?;
    expect_stmt(&b.stmts[0], "let header = self.header();", "ancillary")?;
    let anc_start = sum(let_init(&b.stmts[1], "offset", "ancillary")?, None)?;
    let anc_end = {
        let syn::Stmt::Expr(syn::Expr::Reference(r), None) = &b.stmts[2] else {
            return Err(format!("ancillary: last statement is not a slice reference: {}", tokens(&b.stmts[2])));
        };
        let syn::Expr::Index(ix) = &*r.expr else {
            return Err(format!("ancillary: not an index expression: {}", tokens(&*r.expr)));
        };
        if squash(&tokens(&*ix.expr)) != "self.buffer.as_init()" || r.mutability.is_some() {
            return Err(format!("ancillary: slices something else than self.buffer.as_init(): {}", tokens(&*ix.expr)));
        }
        let syn::Expr::Range(rg) = &*ix.index else {
            return Err("ancillary: index is not a range".into());
        };
        if !matches!(rg.limits, syn::RangeLimits::HalfOpen(_)) {
            return Err("ancillary: range is not half-open".into());
        }
        let (Some(s), Some(e)) = (&rg.start, &rg.end) else {
            return Err("ancillary: range without both ends".into());
        };
        if squash(&tokens(&**s)) != "offset" {
            return Err(format!("ancillary: range does not start at `offset`: {}", tokens(&**s)));
        }
        sum(e, Some(&anc_start))?
    };

    // addr
    let b = get("addr");
    nstmts(b, 2, "addr")?;
    expect_stmt(&b.stmts[0], "let header = self.header();", "addr")?;
    let syn::Stmt::Expr(syn::Expr::If(iff), None) = &b.stmts[1] else {
        return Err(format!("addr: second statement is not the if/else: {}", tokens(&b.stmts[1])));
    };
    if squash(&tokens(&*iff.cond)) != "header.namelen==0" || squash(&tokens(&iff.then_branch)) != "{None}" {
        return Err(format!("addr: not `if header.namelen == 0 {{ None }}`: {} {}", tokens(&*iff.cond), tokens(&iff.then_branch)));
    }
    let Some((_, els)) = &iff.else_branch else { return Err("addr: no else branch".into()) };
    let syn::Expr::Block(eb) = &**els else { return Err("addr: else is not a block".into()) };
    nstmts(&eb.block, 4, "addr else-branch")?;
    let addr_off = sum(let_init(&eb.block.stmts[0], "offset", "addr")?, None)?;
    expect_stmt(&eb.block.stmts[1], "let mut addr = SockAddrStorage::zeroed();", "addr")?;
    expect_stmt(
        &eb.block.stmts[2],
        "unsafe { ptr::copy_nonoverlapping(self.buffer.as_ptr().add(offset), &raw mut addr as *mut u8, header.namelen as usize,); }",
        "addr",
    )?;
    expect_stmt(&eb.block.stmts[3], "Some(unsafe { SockAddr::new(addr, header.namelen as _) })", "addr")?;

    // flags
    let b = get("flags");
    nstmts(b, 1, "flags")?;
    expect_stmt(&b.stmts[0], "ReturnFlags::from_bits_retain(self.header().flags as _)", "flags")?;

    Ok(PartA { fields, new_total, data_off, anc_start, anc_end, addr_off })
}

const RECV_OPS: [&str; 5] = ["Recv", "RecvVectored", "RecvFrom", "RecvFromVectored", "RecvMsg"];

/// (B): op -> clamped?
fn part_b(repo: &Path, rel: &str) -> Res<Vec<(String, bool)>> {
    let file = parse_file(&repo.join(rel))?;
    let mut out: Vec<(String, bool)> = vec![];
    for item in &file.items {
        let syn::Item::Impl(imp) = item else { continue };
        if imp.trait_.is_some() {
            continue;
        }
        let ty = squash(&tokens(&*imp.self_ty));
        let base = ty.split('<').next().unwrap().to_string();
        if !RECV_OPS.contains(&base.as_str()) {
            continue;
        }
        for it in &imp.items {
            let syn::ImplItem::Fn(f) = it else { continue };
            if f.sig.ident != "call" {
                continue;
            }
            if out.iter().any(|o| o.0 == base) {
                return Err(format!("two `call` for {base}"));
            }
            let Some(syn::Stmt::Expr(syn::Expr::Call(c), None)) = f.block.stmts.last() else {
                return Err(format!("{base}::call does not end in `Ok(..)`"));
            };
            if squash(&tokens(&*c.func)) != "Ok" || c.args.len() != 1 {
                return Err(format!("{base}::call does not end in `Ok(..)`: {}", tokens(c)));
            }
            // no early `return Ok(..)` with another value
            let body = squash(&tokens(&f.block));
            if body.contains("returnOk") || body.matches("Ok(").count() != 1 {
                return Err(format!("{base}::call has more than one `Ok(..)`"));
            }
            let raw = |e: &syn::Expr| matches!(squash(&tokens(e)).as_str(), "len" | "res" | "res.bytes");
            let arg = &c.args[0];
            let clamped = if raw(arg) {
                false
            } else if let syn::Expr::MethodCall(m) = arg {
                let a = m.args.first().map(|a| squash(&tokens(a))).unwrap_or_default();
                let want = if base.contains("Vectored") || base == "RecvMsg" { "self.buffer.total_capacity()" } else { "self.buffer.buf_capacity()" };
                if m.method == "min" && m.args.len() == 1 && raw(&m.receiver) && a == want {
                    true
                } else {
                    return Err(format!("{base}::call returns an unrecognised value `{}`", tokens(arg)));
                }
            } else {
                return Err(format!("{base}::call returns an unrecognised value `{}`", tokens(arg)));
            };
            out.push((base.clone(), clamped));
        }
    }
    for op in RECV_OPS {
        if !out.iter().any(|o| o.0 == op) {
            return Err(format!("`impl {op} {{ fn call }}` not found in {rel}"));
        }
    }
    Ok(out)
}

/// (C): fn -> (op constructed, map_addr?, vectored advance?)
fn part_c(repo: &Path, rel: &str) -> Res<Vec<(String, String, bool, bool)>> {
    let file = parse_file(&repo.join(rel))?;
    let want = [
        ("recv", "Recv"),
        ("recv_vectored", "RecvVectored"),
        ("recv_from", "RecvFrom"),
        ("recv_from_vectored", "RecvFromVectored"),
        ("recv_msg_vectored", "RecvMsg"),
    ];
    let mut out = vec![];
    let mut recv_msg_ok = false;
    for item in &file.items {
        let syn::Item::Impl(imp) = item else { continue };
        if imp.trait_.is_some() || squash(&tokens(&*imp.self_ty)) != "Socket" {
            continue;
        }
        for it in &imp.items {
            let syn::ImplItem::Fn(f) = it else { continue };
            let name = f.sig.ident.to_string();
            if name == "recv_msg" {
                nstmts(&f.block, 1, "Socket::recv_msg")?;
                expect_stmt(
                    &f.block.stmts[0],
                    "self.recv_msg_vectored([buffer], control, flags).await.map_buffer(|([buffer], control)| (buffer, control))",
                    "Socket::recv_msg",
                )?;
                recv_msg_ok = true;
                continue;
            }
            let Some((_, op)) = want.iter().find(|w| w.0 == name) else { continue };
            let what = format!("Socket::{name}");
            nstmts(&f.block, 7, &what)?;
            expect_stmt(&f.block.stmts[0], "let fd = self.to_shared_fd();", &what)?;
            let ctor = squash(&tokens(let_init(&f.block.stmts[1], "mutop", &what)?));
            if !ctor.starts_with(&format!("{op}::new(fd,buffer,")) {
                return Err(format!("{what}: does not build `{op}::new(fd, buffer, ..)`: {ctor}"));
            }
            expect_stmt(&f.block.stmts[2], "self.state.set_recv_op(&mut op);", &what)?;
            expect_stmt(&f.block.stmts[3], "let (res, extra) = compio_runtime::submit(op).with_extra().await;", &what)?;
            expect_stmt(&f.block.stmts[4], "self.state.set_recv(&extra);", &what)?;
            let conv = squash(&tokens(let_init(&f.block.stmts[5], "res", &what)?));
            let addr = match conv.as_str() {
                "res.into_inner()" => false,
                "res.into_inner().map_addr()" => true,
                _ => return Err(format!("{what}: unrecognised conversion `{conv}`")),
            };
            let last = squash(&tokens(&f.block.stmts[6]));
            let vec = match last.as_str() {
                "unsafe{res.map_advanced()}" => false,
                "unsafe{res.map_vec_advanced()}" => true,
                _ => return Err(format!("{what}: unrecognised last statement `{last}`")),
            };
            out.push((name, op.to_string(), addr, vec));
        }
    }
    if !recv_msg_ok {
        return Err("Socket::recv_msg not found".into());
    }
    for w in want {
        if out.iter().filter(|o| o.0 == w.0).count() != 1 {
            return Err(format!("Socket::{} not found exactly once in {rel}", w.0));
        }
    }
    Ok(out)
}

fn camel(s: &str) -> String {
    let mut out = String::new();
    let mut up = false;
    for c in s.chars() {
        if c == '_' {
            up = true;
        } else if up {
            out.push(c.to_ascii_uppercase());
            up = false;
        } else {
            out.push(c);
        }
    }
    out
}

pub fn generate(repo: &Path) -> Res<String> {
    let rel_a = "compio-driver/src/sys/op/managed/iour.rs";
    let rel_b = "compio-driver/src/sys/op/socket/unix.rs";
    let rel_c = "compio-net/src/socket/mod.rs";
    let a = part_a(repo, rel_a)?;
    let b = part_b(repo, rel_b)?;
    let c = part_c(repo, rel_c)?;

    let mut s = header("SockRecv", &[rel_a, rel_b, rel_c]);
    s.push_str("set_option linter.unusedVariables false\n\nnamespace Compio.Gen.SockRecv\n\n");
    s.push_str("/-! ## (A) `RecvMsgMultiResultImpl` — parser of the multishot `recvmsg` buffers -/\n\n");
    writeln!(s, "/-- `struct io_uring_recvmsg_out` (`#[repr(C)]`, all `u32`), fields in source order -/\nstructure Hdr where").unwrap();
    for f in &a.fields {
        writeln!(s, "  {f} : Nat").unwrap();
    }
    s.push_str("  deriving Repr, DecidableEq\n\n");
    for (i, f) in a.fields.iter().enumerate() {
        writeln!(s, "/-- byte offset of `{f}` -/\ndef off_{f} : Nat := {}", 4 * i).unwrap();
    }
    writeln!(s, "\n/-- `size_of::<io_uring_recvmsg_out>()` -/\ndef HDR : Nat := {}", 4 * a.fields.len()).unwrap();
    s.push_str("/-- `const NLEN: usize = size_of::<SockAddrStorage>()` (Linux `sockaddr_storage`) -/\ndef NLEN : Nat := 128\n\n");
    s.push_str("/-- `new`: first `assert!(buffer.len() >= size_of::<io_uring_recvmsg_out>())` -/\ndef newMinLen : Nat := HDR\n");
    writeln!(s, "/-- `new`: `total_len`, second `assert!(buffer.len() >= total_len)` -/\ndef newTotal (clen : Nat) (h : Hdr) : Nat := {}", a.new_total).unwrap();
    writeln!(s, "/-- `data()`: `&buffer[offset..]` -/\ndef dataOff (clen : Nat) (h : Hdr) : Nat := {}", a.data_off).unwrap();
    writeln!(s, "/-- `ancillary()`: `&buffer[ancStart..ancEnd]` -/\ndef ancStart (clen : Nat) (h : Hdr) : Nat := {}", a.anc_start).unwrap();
    writeln!(s, "def ancEnd (clen : Nat) (h : Hdr) : Nat := {}", a.anc_end).unwrap();
    s.push_str("/-- `addr()`: `None` iff -/\ndef addrIsNone (h : Hdr) : Bool := h.namelen == 0\n");
    writeln!(s, "/-- `addr()`: source offset of the unchecked copy -/\ndef addrOff (clen : Nat) (h : Hdr) : Nat := {}", a.addr_off).unwrap();
    s.push_str("/-- `addr()`: number of bytes copied into the zeroed `SockAddrStorage` (`NLEN` bytes) -/\ndef addrCopyLen (h : Hdr) : Nat := h.namelen\n");
    s.push_str("/-- `flags()` -/\ndef flagsOf (h : Hdr) : Nat := h.flags\n\n");

    s.push_str("/-! ## (B) polling `call()` of the receive ops: is the syscall's return value clamped to the capacity? -/\n\n");
    for (op, cl) in &b {
        writeln!(s, "def pollClamps{op} : Bool := {cl}").unwrap();
    }
    s.push_str("\n/-! ## (C) compio-net `Socket::recv*`: completion -> caller value -/\n\n");
    s.push_str("/-- `addr`: `.map_addr()` applied; `vec`: `map_vec_advanced` (else `map_advanced`) -/\nstructure Tail where\n  op : String\n  addr : Bool\n  vec : Bool\n  deriving Repr, DecidableEq\n\n");
    for (name, op, addr, vec) in &c {
        writeln!(s, "def {} : Tail := ⟨\"{op}\", {addr}, {vec}⟩", camel(name)).unwrap();
    }
    s.push_str("/-- `recv_msg(buffer, control)` is `recv_msg_vectored([buffer], control)` with the buffer unwrapped again -/\ndef recvMsgIsOneMemberVectored : Bool := true\n");
    s.push_str("\nend Compio.Gen.SockRecv\n");
    Ok(s)
}
