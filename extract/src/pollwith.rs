//! compio-runtime/src/lib.rs `Runtime::poll_with`  ->  Gen/PollWith.lean
//!
//! `poll_with` is the one place where the timer wheel is swept: it polls the driver and then calls
//! `TimerRuntime::wake()`. Whether that call depends on HOW the driver poll returned decides whether
//! timers can be starved by a runtime that never idles (every driver poll returning `Ok(())`).
//! The body is a straight-line list of statements; each top-level statement is classified as
//!
//!   `driverPoll`         contains the call `driver.poll(..)` (a `match` on its result, possibly bound by `let`)
//!   `wakeTimers`         is exactly `self.timer_runtime.borrow_mut().wake();` — unconditional
//!   `wakeTimersGuarded`  contains that call inside some other construct (`if`, `match`, closure, …)
//!   `other`              anything without either call
//!
//! and the generated Lean literal is the list of kinds in source order, plus the `io::ErrorKind`s the
//! match swallows (every other error panics). The C09 theorems `poll_with_*` are stated over it.
//! Fails closed: a statement with both calls, no / several polls or wakes is an error.

use std::{fmt::Write as _, path::Path};

use syn::visit::Visit;

use crate::{Res, header, parse_file, tokens};

fn squash(s: &str) -> String {
    s.chars().filter(|c| !c.is_whitespace()).collect()
}

#[derive(Default)]
struct Facts {
    polls: usize,
    wakes: usize,
    kinds: Vec<String>,
}

impl<'ast> Visit<'ast> for Facts {
    fn visit_expr_method_call(&mut self, m: &'ast syn::ExprMethodCall) {
        let recv = squash(&tokens(&m.receiver));
        if m.method == "poll" && recv == "driver" {
            self.polls += 1;
        }
        if m.method == "wake" && recv.contains("timer_runtime") {
            self.wakes += 1;
        }
        syn::visit::visit_expr_method_call(self, m);
    }

    fn visit_pat(&mut self, p: &'ast syn::Pat) {
        if let syn::Pat::Path(pp) = p {
            let t = squash(&tokens(pp));
            if let Some(k) = t.strip_prefix("io::ErrorKind::") {
                self.kinds.push(k.to_string());
            }
        }
        syn::visit::visit_pat(self, p);
    }
}

pub fn generate(repo: &Path) -> Res<String> {
    let rel = "compio-runtime/src/lib.rs";
    let file = parse_file(&repo.join(rel))?;
    let mut body = None;
    for it in &file.items {
        let syn::Item::Impl(im) = it else { continue };
        if tokens(&im.self_ty) != "Runtime" || im.trait_.is_some() {
            continue;
        }
        for ii in &im.items {
            let syn::ImplItem::Fn(f) = ii else { continue };
            if f.sig.ident == "poll_with" {
                if body.is_some() {
                    return Err("two Runtime::poll_with".into());
                }
                body = Some(&f.block);
            }
        }
    }
    let body = body.ok_or("Runtime::poll_with not found")?;
    let mut kinds = vec![];
    let mut swallowed = vec![];
    for st in &body.stmts {
        let mut f = Facts::default();
        f.visit_stmt(st);
        let kind = match (f.polls, f.wakes) {
            (0, 0) => "other",
            (1, 0) => {
                swallowed = f.kinds.clone();
                "driverPoll"
            }
            (0, 1) => {
                let plain = match st {
                    syn::Stmt::Expr(syn::Expr::MethodCall(m), Some(_)) => {
                        m.method == "wake" && squash(&tokens(&m.receiver)) == "self.timer_runtime.borrow_mut()" && m.args.is_empty()
                    }
                    _ => false,
                };
                if plain { "wakeTimers" } else { "wakeTimersGuarded" }
            }
            _ => return Err(format!("Runtime::poll_with: unsupported statement `{}`", tokens(st))),
        };
        kinds.push(kind);
    }
    if kinds.iter().filter(|k| **k == "driverPoll").count() != 1 {
        return Err("Runtime::poll_with: expected exactly one driver.poll(..)".into());
    }
    if kinds.iter().filter(|k| k.starts_with("wakeTimers")).count() != 1 {
        return Err("Runtime::poll_with: expected exactly one timer_runtime wake()".into());
    }
    for k in &swallowed {
        if !k.chars().all(|c| c.is_ascii_alphanumeric()) {
            return Err(format!("Runtime::poll_with: odd error kind {k}"));
        }
    }

    let mut s = header("PollWith", &[rel]);
    s.push_str("namespace Compio.Gen.PollWith\n\n");
    s.push_str("/-- kinds of top-level statements of `Runtime::poll_with` -/\ninductive Stmt where\n  | driverPoll          -- `driver.poll(timeout)` and the match on its result\n  | wakeTimers          -- `self.timer_runtime.borrow_mut().wake();`, unconditionally\n  | wakeTimersGuarded   -- the same call under some condition\n  | other\n  deriving DecidableEq, Repr\n\n");
    let lit = kinds.iter().map(|k| format!(".{k}")).collect::<Vec<_>>().join(", ");
    writeln!(s, "/-- the statements of `fn poll_with`, kinds in source order -/\ndef body : List Stmt := [{lit}]\n").unwrap();
    let sw = swallowed.iter().map(|k| format!("\"{k}\"")).collect::<Vec<_>>().join(", ");
    writeln!(s, "/-- the `io::ErrorKind`s of a failed driver poll that are expected (every other error panics) -/\ndef swallowedErrors : List String := [{sw}]\n").unwrap();
    s.push_str("end Compio.Gen.PollWith\n");
    Ok(s)
}
