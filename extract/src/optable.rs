//! op x driver -> buffer range kind table, result-mapping table and open-flag table (C08/C14)
//!   -> Gen/OpTable.lean   (namespaces `Compio.Gen.OpTable` and `Compio.Gen.OpenFlags`)
//!
//! For every `unsafe impl<..> OpCode for <Op><..>` of op/{general,fs,socket}/{iour,poll}.rs:
//!   * the *direction* of each buffer parameter, from the generic bound of the impl header
//!     (`IoBufMut`/`IoVectoredBufMut` = read, `IoBuf`/`IoVectoredBuf` = write), cross-checked against the
//!     bound on the `struct` definition and the field the parameter types (`buffer: T`, `control: C`);
//!   * the *range kinds* handed to the OS, found by scanning every method body of the impl and,
//!     transitively, the inherent helper methods it calls (`self.call(..)`, `self.init_control(..)`,
//!     `self.header.create_control(..)`, `ctrl.init_mut(..)` of pal/poll/aio.rs, all `cfg_select!` branches):
//!     `as_init`/`sys_slice`/`sys_slices` (and `buf_ptr`/`buf_len` on the control buffer) = initialised,
//!     `as_uninit`/`sys_slice_mut`/`sys_slices_mut` (and `buf_mut_ptr`/`buf_capacity` on the control buffer)
//!     = writable.
//! For every high-level call in compio-fs/src/file.rs and compio-runtime/src/fd/async_fd/mod.rs that builds
//! one of these ops: the result mapping it applies (`map_advanced`, `map_vec_advanced`, none).
//! For compio-fs/src/open_options/unix.rs: `get_access_mode` / `get_creation_mode` evaluated on all 2^5
//! settings of the boolean fields.
//!
//! FAIL CLOSED: an unknown bound, a range-kind call on an unrecognised receiver, a range-kind name inside
//! an unparsed macro, an unresolvable `self.<helper>()`, an unknown statement shape in the open-flag
//! functions ... are errors.

use std::{
    collections::{BTreeMap, BTreeSet},
    fmt::Write as _,
    path::Path,
};

use proc_macro2::{TokenStream, TokenTree};
use syn::visit::Visit;

use crate::{Res, header, parse_file, tokens};

const OP_FILES: [(&str, &str); 6] = [
    ("compio-driver/src/sys/op/general/iour.rs", "iour"),
    ("compio-driver/src/sys/op/general/poll.rs", "poll"),
    ("compio-driver/src/sys/op/fs/iour.rs", "iour"),
    ("compio-driver/src/sys/op/fs/poll.rs", "poll"),
    ("compio-driver/src/sys/op/socket/iour.rs", "iour"),
    ("compio-driver/src/sys/op/socket/poll.rs", "poll"),
];

/// files holding struct definitions and inherent helper methods of the ops
const HELPER_FILES: [&str; 6] = [
    "compio-driver/src/sys/op/unix.rs",
    "compio-driver/src/sys/op/general/mod.rs",
    "compio-driver/src/sys/op/fs/mod.rs",
    "compio-driver/src/sys/op/socket/mod.rs",
    "compio-driver/src/sys/op/socket/unix.rs",
    "compio-driver/src/sys/pal/poll/aio.rs",
];

const MAPPING_FILES: [&str; 2] = ["compio-fs/src/file.rs", "compio-runtime/src/fd/async_fd/mod.rs"];

const OPEN_FILE: &str = "compio-fs/src/open_options/unix.rs";

const UTILS_FILE: &str = "compio-fs/src/utils/mod.rs";

#[derive(Clone, Copy, PartialEq, Eq, PartialOrd, Ord, Debug)]
enum Kind {
    Init,
    Writable,
}

impl Kind {
    fn lean(self) -> &'static str {
        match self {
            Kind::Init => ".init",
            Kind::Writable => ".writable",
        }
    }
}

/// how a length (`slice.len()`, `self.len`, `control.slices.len()`) reaches the OS
#[derive(Clone, Copy, PartialEq, Eq, PartialOrd, Ord, Debug)]
enum LenKind {
    /// `.try_into().unwrap_or(u32::MAX)`
    Saturating,
    /// a plain `as` cast (wraps when the target is narrower)
    Cast,
    /// `ctrl.msg.msg_iovlen = .. as _`: cast to the type of a libc struct field (size_t on Linux/glibc)
    ToField,
    /// passed / stored as `usize`
    Full,
}

impl LenKind {
    fn lean(self) -> &'static str {
        match self {
            LenKind::Saturating => ".saturating",
            LenKind::Cast => ".cast",
            LenKind::ToField => ".toField",
            LenKind::Full => ".full",
        }
    }
}

const BYTE_LEN_RECV: [&str; 1] = ["slice"];
const COUNT_LEN_RECV: [&str; 3] = ["control.slices", "ctrl.slices", "self.base.slices"];

/// Some(true) = a byte length, Some(false) = an iovec count
fn len_source(e: &syn::Expr) -> Option<bool> {
    match e {
        syn::Expr::Paren(p) => len_source(&p.expr),
        syn::Expr::MethodCall(m) if m.method == "len" && m.args.is_empty() => {
            let r = nospace(&m.receiver);
            if BYTE_LEN_RECV.contains(&r.as_str()) {
                Some(true)
            } else if COUNT_LEN_RECV.contains(&r.as_str()) {
                Some(false)
            } else {
                None
            }
        }
        syn::Expr::Field(_) if nospace(e) == "self.len" => Some(true),
        _ => None,
    }
}

#[derive(Clone, Copy, PartialEq, Eq, Debug)]
enum Dir {
    Read,
    Write,
}

#[derive(Clone, Copy, PartialEq, Eq, Debug)]
struct BufParam {
    dir: Dir,
    vectored: bool,
}

fn classify_bound(name: &str) -> Option<BufParam> {
    Some(match name {
        "IoBufMut" => BufParam { dir: Dir::Read, vectored: false },
        "IoVectoredBufMut" => BufParam { dir: Dir::Read, vectored: true },
        "IoBuf" => BufParam { dir: Dir::Write, vectored: false },
        "IoVectoredBuf" => BufParam { dir: Dir::Write, vectored: true },
        _ => return None,
    })
}

const MAIN_INIT: [&str; 3] = ["as_init", "sys_slice", "sys_slices"];
const MAIN_WRITABLE: [&str; 3] = ["as_uninit", "sys_slice_mut", "sys_slices_mut"];
const CTRL_INIT: [&str; 2] = ["buf_ptr", "buf_len"];
const CTRL_WRITABLE: [&str; 2] = ["buf_mut_ptr", "buf_capacity"];
/// length queries that hand nothing to the OS
const NEUTRAL: [&str; 4] = ["buf_capacity", "total_capacity", "buf_len", "total_len"];

fn is_range_name(n: &str) -> bool {
    MAIN_INIT.contains(&n) || MAIN_WRITABLE.contains(&n)
}

fn nospace<T: quote::ToTokens>(t: &T) -> String {
    tokens(t).replace(' ', "")
}

/// `&self.buffer`, `&mut self.buffer`, `(self.buffer)` -> `self.buffer`
fn strip_ref(s: &str) -> &str {
    let mut s = s;
    loop {
        if let Some(r) = s.strip_prefix("&mut") {
            s = r;
        } else if let Some(r) = s.strip_prefix('&') {
            s = r;
        } else if s.starts_with('(') && s.ends_with(')') {
            s = &s[1..s.len() - 1];
        } else if let Some(r) = s.strip_prefix('*') {
            s = r;
        } else {
            return s;
        }
    }
}

/// generic parameters of an impl/struct: name -> bound idents
fn param_bounds(g: &syn::Generics, what: &str) -> Res<Vec<(String, Vec<String>)>> {
    if g.where_clause.is_some() {
        return Err(format!("{what}: where-clause not supported"));
    }
    let mut out = vec![];
    for p in &g.params {
        match p {
            syn::GenericParam::Type(t) => {
                let mut bs = vec![];
                for b in &t.bounds {
                    match b {
                        syn::TypeParamBound::Trait(tb) => {
                            bs.push(tb.path.segments.last().ok_or("empty bound")?.ident.to_string())
                        }
                        other => return Err(format!("{what}: unsupported bound {}", tokens(other))),
                    }
                }
                out.push((t.ident.to_string(), bs));
            }
            other => return Err(format!("{what}: unsupported generic parameter {}", tokens(other))),
        }
    }
    Ok(out)
}

fn buf_params(g: &syn::Generics, what: &str) -> Res<BTreeMap<String, BufParam>> {
    let mut m = BTreeMap::new();
    for (name, bounds) in param_bounds(g, what)? {
        let mut found = None;
        for b in &bounds {
            if let Some(c) = classify_bound(b) {
                if found.is_some() {
                    return Err(format!("{what}: parameter {name} has two buffer bounds"));
                }
                found = Some(c);
            } else if b != "AsFd" {
                return Err(format!("{what}: unknown bound `{b}` on parameter {name}"));
            }
        }
        if let Some(c) = found {
            m.insert(name, c);
        }
    }
    Ok(m)
}

fn self_name(ty: &syn::Type) -> Res<(String, Vec<String>)> {
    let syn::Type::Path(p) = ty else { return Err(format!("unsupported self type {}", tokens(ty))) };
    let seg = p.path.segments.last().ok_or("empty self type")?;
    let mut args = vec![];
    match &seg.arguments {
        syn::PathArguments::None => {}
        syn::PathArguments::AngleBracketed(a) => {
            for x in &a.args {
                args.push(nospace(x));
            }
        }
        other => return Err(format!("unsupported type arguments {}", tokens(other))),
    }
    Ok((seg.ident.to_string(), args))
}

// ---------------------------------------------------------------------------------------------
// cfg_select! { pred => { items } ... } inside an impl: every branch is parsed as impl items
// ---------------------------------------------------------------------------------------------

fn cfg_select_branches(ts: TokenStream) -> Res<Vec<TokenStream>> {
    let mut out = vec![];
    let mut it = ts.into_iter().peekable();
    loop {
        // predicate up to `=>`
        let mut saw_any = false;
        let mut arrow = false;
        while let Some(t) = it.next() {
            saw_any = true;
            if let TokenTree::Punct(p) = &t {
                if p.as_char() == '=' {
                    if let Some(TokenTree::Punct(q)) = it.peek() {
                        if q.as_char() == '>' {
                            it.next();
                            arrow = true;
                            break;
                        }
                    }
                }
            }
        }
        if !saw_any {
            break;
        }
        if !arrow {
            return Err("cfg_select!: predicate without `=>`".into());
        }
        match it.next() {
            Some(TokenTree::Group(g)) if g.delimiter() == proc_macro2::Delimiter::Brace => out.push(g.stream()),
            other => return Err(format!("cfg_select!: expected a braced branch, found {other:?}")),
        }
        if let Some(TokenTree::Punct(p)) = it.peek() {
            if p.as_char() == ',' {
                it.next();
            }
        }
    }
    if out.is_empty() {
        return Err("cfg_select!: no branch".into());
    }
    Ok(out)
}

fn macro_mentions_range(ts: &TokenStream) -> Option<String> {
    for t in ts.clone() {
        match t {
            TokenTree::Ident(i) => {
                let s = i.to_string();
                if is_range_name(&s) || CTRL_INIT[0] == s || CTRL_WRITABLE[0] == s {
                    return Some(s);
                }
            }
            TokenTree::Group(g) => {
                if let Some(s) = macro_mentions_range(&g.stream()) {
                    return Some(s);
                }
            }
            _ => {}
        }
    }
    None
}

// ---------------------------------------------------------------------------------------------
// helper methods (inherent impls)
// ---------------------------------------------------------------------------------------------

#[derive(Default)]
struct Helpers {
    /// (type name, method name) -> bodies (several when the method exists in several cfg branches)
    methods: BTreeMap<(String, String), Vec<syn::ImplItemFn>>,
    /// struct name -> (generics, fields name -> type text)
    structs: BTreeMap<String, (syn::Generics, Vec<(String, String)>)>,
}

impl Helpers {
    fn add_impl_items(&mut self, ty: &str, items: &[syn::ImplItem], src: &str) -> Res<()> {
        for ii in items {
            match ii {
                syn::ImplItem::Fn(f) => {
                    self.methods.entry((ty.to_string(), f.sig.ident.to_string())).or_default().push(f.clone());
                }
                syn::ImplItem::Macro(m) => {
                    let name = nospace(&m.mac.path);
                    if name == "cfg_select" {
                        for br in cfg_select_branches(m.mac.tokens.clone())? {
                            let wrapped: TokenStream = quote::quote! { impl __X { #br } };
                            let im: syn::ItemImpl = syn::parse2(wrapped)
                                .map_err(|e| format!("{src}: cfg_select! branch in impl {ty} does not parse as impl items: {e}"))?;
                            self.add_impl_items(ty, &im.items, src)?;
                        }
                    } else if let Some(n) = macro_mentions_range(&m.mac.tokens) {
                        return Err(format!("{src}: macro {name}! in impl {ty} mentions `{n}`"));
                    }
                }
                _ => {}
            }
        }
        Ok(())
    }

    fn add_file(&mut self, file: &syn::File, src: &str) -> Res<()> {
        for it in &file.items {
            match it {
                syn::Item::Impl(im) if im.trait_.is_none() => {
                    let (ty, _) = self_name(&im.self_ty)?;
                    self.add_impl_items(&ty, &im.items, src)?;
                }
                syn::Item::Struct(s) => {
                    let mut fields = vec![];
                    if let syn::Fields::Named(n) = &s.fields {
                        for f in &n.named {
                            fields.push((f.ident.as_ref().unwrap().to_string(), nospace(&f.ty)));
                        }
                    }
                    // FileStat/PathStat are defined once per driver file with the same generics
                    self.structs.entry(s.ident.to_string()).or_insert((s.generics.clone(), fields));
                }
                syn::Item::Macro(m) => {
                    if let Some(n) = macro_mentions_range(&m.mac.tokens) {
                        return Err(format!("{src}: item macro {}! mentions `{n}`", nospace(&m.mac.path)));
                    }
                }
                _ => {}
            }
        }
        Ok(())
    }
}

// ---------------------------------------------------------------------------------------------
// body scan
// ---------------------------------------------------------------------------------------------

struct Scan<'a> {
    helpers: &'a Helpers,
    op: String,
    /// receiver text -> which buffer it denotes
    main_recv: Vec<String>,
    ctrl_recv: Vec<String>,
    main: Vec<(Kind, String)>,
    ctrl: Vec<(Kind, String)>,
    byte_lens: Vec<(LenKind, String)>,
    count_lens: Vec<(LenKind, String)>,
    visited: BTreeSet<(String, String)>,
    /// the type whose method body is being scanned (`self.<m>()` resolves against it)
    cur_ty: String,
    site: String,
    err: Option<String>,
}

impl<'a> Scan<'a> {
    fn fail(&mut self, e: String) {
        if self.err.is_none() {
            self.err = Some(e);
        }
    }

    fn scan_helper(&mut self, ty: &str, method: &str, bind_buf: Option<(&str, bool)>) -> bool {
        let key = (ty.to_string(), method.to_string());
        let Some(bodies) = self.helpers.methods.get(&key) else { return false };
        if !self.visited.insert(key) {
            return true;
        }
        let saved_site = self.site.clone();
        let saved_ty = std::mem::replace(&mut self.cur_ty, ty.to_string());
        let saved_main = self.main_recv.clone();
        let saved_ctrl = self.ctrl_recv.clone();
        if let Some((name, is_ctrl)) = bind_buf {
            if is_ctrl {
                self.ctrl_recv.push(name.to_string());
            } else {
                self.main_recv.push(name.to_string());
            }
        }
        for (i, f) in bodies.clone().iter().enumerate() {
            self.site = format!("{ty}::{method}#{i}");
            self.visit_block(&f.block);
        }
        self.site = saved_site;
        self.cur_ty = saved_ty;
        self.main_recv = saved_main;
        self.ctrl_recv = saved_ctrl;
        true
    }
}

impl<'a, 'ast> Visit<'ast> for Scan<'a> {
    fn visit_expr_method_call(&mut self, m: &'ast syn::ExprMethodCall) {
        let recv_full = nospace(&m.receiver);
        let recv = strip_ref(&recv_full).to_string();
        let name = m.method.to_string();
        let site = format!("{}:{}.{}", self.site, recv, name);
        if self.main_recv.contains(&recv) {
            if MAIN_INIT.contains(&name.as_str()) {
                self.main.push((Kind::Init, site));
            } else if MAIN_WRITABLE.contains(&name.as_str()) {
                self.main.push((Kind::Writable, site));
            } else if !NEUTRAL.contains(&name.as_str()) {
                self.fail(format!("{}: unrecognised method `{name}` on buffer `{recv}` in {}", self.op, self.site));
            }
        } else if self.ctrl_recv.contains(&recv) {
            if CTRL_INIT.contains(&name.as_str()) || MAIN_INIT.contains(&name.as_str()) {
                self.ctrl.push((Kind::Init, site));
            } else if CTRL_WRITABLE.contains(&name.as_str()) || MAIN_WRITABLE.contains(&name.as_str()) {
                self.ctrl.push((Kind::Writable, site));
            } else {
                self.fail(format!("{}: unrecognised method `{name}` on control buffer `{recv}` in {}", self.op, self.site));
            }
        } else if is_range_name(&name) {
            self.fail(format!("{}: range-kind call `{recv}.{name}()` on an unrecognised receiver in {}", self.op, self.site));
        } else if recv == "self" {
            let ty = self.cur_ty.clone();
            if !self.scan_helper(&ty, &name, None) {
                self.fail(format!("{}: cannot resolve helper `self.{name}()` in {}", self.op, self.site));
            }
        } else if recv == "self.header" {
            let mut found = false;
            for ty in ["RecvFromHeader", "SendToHeader"] {
                found |= self.scan_helper(ty, &name, None);
            }
            if !found {
                self.fail(format!("{}: cannot resolve `self.header.{name}()` in {}", self.op, self.site));
            }
        } else if ["ctrl", "control", "_control"].contains(&recv.as_str())
            && ["init", "init_mut", "init_vec", "init_vec_mut"].contains(&name.as_str())
        {
            // AioControl::init*(fd, buf, offset): the second argument must be the op's main buffer
            let args: Vec<String> = m.args.iter().map(|a| nospace(a)).collect();
            if args.len() != 3 || strip_ref(&args[1]) != "self.buffer" {
                self.fail(format!("{}: `{recv}.{name}` is not called as (fd, self.buffer, offset): {args:?}", self.op));
            } else if !self.scan_helper("AioControl", &name, Some(("buf", false))) {
                self.fail(format!("{}: cannot resolve `AioControl::{name}`", self.op));
            }
            // the same helper may be used by several ops
            self.visited.remove(&("AioControl".to_string(), name.clone()));
        }
        syn::visit::visit_expr_method_call(self, m);
    }

    fn visit_expr(&mut self, e: &'ast syn::Expr) {
        // length expressions: classify at the outermost node and do not descend
        let rec = |this: &mut Self, is_byte: bool, k: LenKind| {
            let site = format!("{}:{}", this.site, nospace(e));
            if is_byte {
                this.byte_lens.push((k, site));
            } else {
                this.count_lens.push((k, site));
            }
        };
        match e {
            syn::Expr::MethodCall(u) if u.method == "unwrap_or" && u.args.len() == 1 => {
                if let syn::Expr::MethodCall(t) = &*u.receiver {
                    if t.method == "try_into" && t.args.is_empty() {
                        if let Some(b) = len_source(&t.receiver) {
                            if nospace(&u.args[0]) != "u32::MAX" {
                                self.fail(format!("{}: length saturates to `{}` (expected u32::MAX) in {}", self.op, nospace(&u.args[0]), self.site));
                            }
                            rec(self, b, LenKind::Saturating);
                            return;
                        }
                    }
                }
            }
            syn::Expr::Cast(c) => {
                if let Some(b) = len_source(&c.expr) {
                    rec(self, b, LenKind::Cast);
                    return;
                }
            }
            syn::Expr::Assign(a) => {
                if let syn::Expr::Cast(c) = &*a.right {
                    if let Some(b) = len_source(&c.expr) {
                        if nospace(&a.left).ends_with(".msg_iovlen") && !b {
                            rec(self, b, LenKind::ToField);
                            return;
                        }
                    }
                }
            }
            _ => {
                if let Some(b) = len_source(e) {
                    rec(self, b, LenKind::Full);
                    return;
                }
            }
        }
        syn::visit::visit_expr(self, e);
    }

    fn visit_expr_call(&mut self, c: &'ast syn::ExprCall) {
        if let syn::Expr::Path(p) = &*c.func {
            if let Some(seg) = p.path.segments.last() {
                let n = seg.ident.to_string();
                if is_range_name(&n) {
                    self.fail(format!("{}: range-kind function call `{}` (not a method call) in {}", self.op, nospace(&c.func), self.site));
                }
            }
        }
        syn::visit::visit_expr_call(self, c);
    }

    fn visit_macro(&mut self, m: &'ast syn::Macro) {
        let name = nospace(&m.path);
        if name == "cfg_select" {
            // statement-level cfg_select!: try every branch as a block
            match cfg_select_branches(m.tokens.clone()) {
                Ok(brs) => {
                    for br in brs {
                        let wrapped: TokenStream = quote::quote! { { #br } };
                        match syn::parse2::<syn::Block>(wrapped) {
                            Ok(b) => self.visit_block(&b),
                            Err(e) => {
                                if let Some(n) = macro_mentions_range(&br) {
                                    self.fail(format!("{}: unparsed cfg_select! branch mentions `{n}` in {} ({e})", self.op, self.site));
                                }
                            }
                        }
                    }
                }
                Err(e) => self.fail(format!("{}: {e} in {}", self.op, self.site)),
            }
        } else if let Ok(e) = syn::parse2::<syn::Expr>(m.tokens.clone()) {
            // syscall!(libc::recvmsg(..)), poll_io-like wrappers: scan the argument expression
            self.visit_expr(&e);
        } else if let Some(n) = macro_mentions_range(&m.tokens) {
            self.fail(format!("{}: macro {name}! mentions `{n}` in {}", self.op, self.site));
        }
    }
}

struct Row {
    op: String,
    driver: &'static str,
    file: &'static str,
    main: Option<BufParam>,
    ctrl: Option<BufParam>,
    main_kinds: Vec<(Kind, String)>,
    ctrl_kinds: Vec<(Kind, String)>,
    byte_lens: Vec<(LenKind, String)>,
    count_lens: Vec<(LenKind, String)>,
}

fn dedup_kinds(v: &[(Kind, String)]) -> Vec<Kind> {
    let s: BTreeSet<Kind> = v.iter().map(|x| x.0).collect();
    s.into_iter().collect()
}

fn scan_impl(im: &syn::ItemImpl, driver: &'static str, file: &'static str, helpers: &Helpers) -> Res<Row> {
    let (op, args) = self_name(&im.self_ty)?;
    let what = format!("{file}: impl OpCode for {op}");
    if im.unsafety.is_none() {
        return Err(format!("{what}: expected `unsafe impl`"));
    }
    let bufs = buf_params(&im.generics, &what)?;
    let mut main = None;
    let mut ctrl = None;
    for (name, bp) in &bufs {
        if !args.contains(name) {
            return Err(format!("{what}: buffer parameter {name} is not an argument of the self type"));
        }
        match name.as_str() {
            "T" => main = Some(*bp),
            "C" => ctrl = Some(*bp),
            other => return Err(format!("{what}: buffer parameter named `{other}` (expected T or C)")),
        }
    }
    // cross-check with the struct definition
    let (sg, fields) = helpers.structs.get(&op).ok_or(format!("{what}: struct {op} not found"))?;
    let sbufs = buf_params(sg, &format!("struct {op}"))?;
    if sbufs != bufs {
        return Err(format!("{what}: buffer bounds {bufs:?} differ from those of the struct {sbufs:?}"));
    }
    for (p, field) in [("T", "buffer"), ("C", "control")] {
        if bufs.contains_key(p) {
            let ok = fields.iter().any(|(n, t)| n == field && t == p);
            let others = fields.iter().filter(|(n, t)| t == p && n != field).count();
            if !ok || others > 0 {
                return Err(format!("{what}: expected exactly one field `{field}: {p}` in struct {op}, found {fields:?}"));
            }
        }
    }
    let mut sc = Scan {
        helpers,
        op: op.clone(),
        main_recv: if main.is_some() { vec!["self.buffer".into()] } else { vec![] },
        ctrl_recv: if ctrl.is_some() { vec!["self.control".into()] } else { vec![] },
        main: vec![],
        ctrl: vec![],
        byte_lens: vec![],
        count_lens: vec![],
        visited: BTreeSet::new(),
        cur_ty: op.clone(),
        site: String::new(),
        err: None,
    };
    for ii in &im.items {
        match ii {
            syn::ImplItem::Fn(f) => {
                sc.site = format!("{driver}:{op}::{}", f.sig.ident);
                sc.visit_block(&f.block);
            }
            syn::ImplItem::Type(_) => {}
            other => return Err(format!("{what}: unsupported impl item {}", tokens(other))),
        }
    }
    if let Some(e) = sc.err {
        return Err(e);
    }
    if main.is_none() && !sc.main.is_empty() || ctrl.is_none() && !sc.ctrl.is_empty() {
        return Err(format!("{what}: range-kind calls without a buffer parameter"));
    }
    Ok(Row { op, driver, file, main, ctrl, main_kinds: sc.main, ctrl_kinds: sc.ctrl, byte_lens: sc.byte_lens, count_lens: sc.count_lens })
}

// ---------------------------------------------------------------------------------------------
// result mappings of the high-level calls
// ---------------------------------------------------------------------------------------------

struct FindMapping {
    ops: Vec<String>,
    maps: Vec<String>,
    known: BTreeSet<String>,
}

impl<'ast> Visit<'ast> for FindMapping {
    fn visit_expr_call(&mut self, c: &'ast syn::ExprCall) {
        if let syn::Expr::Path(p) = &*c.func {
            let segs: Vec<String> = p.path.segments.iter().map(|s| s.ident.to_string()).collect();
            if segs.len() == 2 && segs[1] == "new" && self.known.contains(&segs[0]) {
                self.ops.push(segs[0].clone());
            }
        }
        syn::visit::visit_expr_call(self, c);
    }

    fn visit_expr_method_call(&mut self, m: &'ast syn::ExprMethodCall) {
        let n = m.method.to_string();
        if n == "map_advanced" || n == "map_vec_advanced" || n == "take_buffer" {
            self.maps.push(n);
        }
        syn::visit::visit_expr_method_call(self, m);
    }
}

fn scan_mappings(file: &syn::File, rel: &str, known: &BTreeSet<String>, out: &mut Vec<(String, String, String, String)>) -> Res<()> {
    for it in &file.items {
        let syn::Item::Impl(im) = it else { continue };
        let on = nospace(&im.self_ty);
        for ii in &im.items {
            let syn::ImplItem::Fn(f) = ii else { continue };
            let mut fm = FindMapping { ops: vec![], maps: vec![], known: known.clone() };
            fm.visit_block(&f.block);
            if fm.ops.is_empty() {
                continue;
            }
            if fm.ops.len() != 1 || fm.maps.len() > 1 {
                return Err(format!("{rel}: {on}::{}: expected one op and at most one mapping, found {:?} {:?}", f.sig.ident, fm.ops, fm.maps));
            }
            let mapping = match fm.maps.first().map(|s| s.as_str()) {
                None => ".none",
                Some("map_advanced") => ".advanced",
                Some("map_vec_advanced") => ".vecAdvanced",
                Some(other) => return Err(format!("{rel}: {on}::{}: unsupported mapping {other}", f.sig.ident)),
            };
            out.push((rel.to_string(), format!("{on}::{}", f.sig.ident), fm.ops[0].clone(), mapping.to_string()));
        }
    }
    Ok(())
}

// ---------------------------------------------------------------------------------------------
// open flags
// ---------------------------------------------------------------------------------------------

type Env = BTreeMap<String, bool>;

fn eval_bool(e: &syn::Expr, env: &Env) -> Res<bool> {
    Ok(match e {
        syn::Expr::Paren(p) => eval_bool(&p.expr, env)?,
        syn::Expr::Unary(u) if matches!(u.op, syn::UnOp::Not(_)) => !eval_bool(&u.expr, env)?,
        syn::Expr::Binary(b) => match b.op {
            syn::BinOp::And(_) => eval_bool(&b.left, env)? && eval_bool(&b.right, env)?,
            syn::BinOp::Or(_) => eval_bool(&b.left, env)? || eval_bool(&b.right, env)?,
            _ => return Err(format!("open flags: unsupported operator in {}", tokens(e))),
        },
        syn::Expr::Field(_) => {
            let t = nospace(e);
            let f = t.strip_prefix("self.").ok_or(format!("open flags: unsupported operand {t}"))?;
            *env.get(f).ok_or(format!("open flags: unknown field {f}"))?
        }
        _ => return Err(format!("open flags: unsupported condition {}", tokens(e))),
    })
}

/// `OFlags::A | OFlags::B`, `OFlags::empty()`
fn eval_flags(e: &syn::Expr) -> Res<Vec<String>> {
    Ok(match e {
        syn::Expr::Paren(p) => eval_flags(&p.expr)?,
        syn::Expr::Binary(b) if matches!(b.op, syn::BinOp::BitOr(_)) => {
            let mut l = eval_flags(&b.left)?;
            l.extend(eval_flags(&b.right)?);
            l
        }
        syn::Expr::Path(_) => {
            let t = nospace(e);
            vec![t.strip_prefix("OFlags::").ok_or(format!("open flags: unsupported flag {t}"))?.to_string()]
        }
        syn::Expr::Call(_) if nospace(e) == "OFlags::empty()" => vec![],
        _ => return Err(format!("open flags: unsupported flag expression {}", tokens(e))),
    })
}

/// result of a function body: Ok(flags) or Err(errno name)
type FlagRes = Result<Vec<String>, String>;

fn pat_matches(p: &syn::Pat, v: bool) -> Res<bool> {
    Ok(match p {
        syn::Pat::Wild(_) => true,
        syn::Pat::Lit(l) => match &l.lit {
            syn::Lit::Bool(b) => b.value == v,
            _ => return Err(format!("open flags: unsupported pattern {}", tokens(p))),
        },
        _ => return Err(format!("open flags: unsupported pattern {}", tokens(p))),
    })
}

fn eval_result_expr(e: &syn::Expr, env: &Env) -> Res<FlagRes> {
    match e {
        syn::Expr::Call(c) => {
            let f = nospace(&c.func);
            if f != "Ok" && f != "Err" {
                return Ok(Ok(eval_flags(e)?));
            }
            let arg = c.args.first().ok_or("open flags: call without argument")?;
            match f.as_str() {
                "Ok" => match arg {
                    syn::Expr::Match(_) => match eval_result_expr(arg, env)? {
                        Ok(f) => Ok(Ok(f)),
                        Err(e) => Err(format!("open flags: error inside Ok(match): {e}")),
                    },
                    _ => Ok(Ok(eval_flags(arg)?)),
                },
                "Err" => {
                    let t = nospace(arg);
                    Ok(Err(t.strip_prefix("Errno::").ok_or(format!("open flags: unsupported error {t}"))?.to_string()))
                }
                _ => Ok(Ok(eval_flags(e)?)),
            }
        }
        syn::Expr::Match(m) => {
            let syn::Expr::Tuple(t) = &*m.expr else { return Err("open flags: match scrutinee is not a tuple".into()) };
            let vals: Vec<bool> = t.elems.iter().map(|x| eval_bool(x, env)).collect::<Res<_>>()?;
            for arm in &m.arms {
                if arm.guard.is_some() {
                    return Err("open flags: match guard not supported".into());
                }
                let syn::Pat::Tuple(pt) = &arm.pat else { return Err(format!("open flags: unsupported arm pattern {}", tokens(&arm.pat))) };
                if pt.elems.len() != vals.len() {
                    return Err("open flags: arm arity".into());
                }
                let mut all = true;
                for (p, v) in pt.elems.iter().zip(&vals) {
                    all &= pat_matches(p, *v)?;
                }
                if all {
                    return eval_result_expr(&arm.body, env);
                }
            }
            Err(format!("open flags: non-exhaustive match for {vals:?}"))
        }
        _ => Ok(Ok(eval_flags(e)?)),
    }
}

fn eval_fn(f: &syn::ImplItemFn, env: &Env) -> Res<FlagRes> {
    let n = f.block.stmts.len();
    for (i, st) in f.block.stmts.iter().enumerate() {
        match st {
            syn::Stmt::Expr(syn::Expr::If(ife), _) if i + 1 < n => {
                if ife.else_branch.is_some() {
                    return Err("open flags: if/else statement not supported".into());
                }
                if eval_bool(&ife.cond, env)? {
                    if ife.then_branch.stmts.len() != 1 {
                        return Err("open flags: expected a single return in the if".into());
                    }
                    let syn::Stmt::Expr(syn::Expr::Return(r), _) = &ife.then_branch.stmts[0] else {
                        return Err("open flags: expected `return` in the if".into());
                    };
                    return eval_result_expr(r.expr.as_ref().ok_or("open flags: bare return")?, env);
                }
            }
            syn::Stmt::Expr(e, None) if i + 1 == n => return eval_result_expr(e, env),
            other => return Err(format!("open flags: unsupported statement {}", tokens(other))),
        }
    }
    Err("open flags: empty function".into())
}

const OPEN_FIELDS: [&str; 5] = ["read", "write", "truncate", "create", "create_new"];
const KNOWN_FLAGS: [&str; 7] = ["RDONLY", "WRONLY", "RDWR", "CREATE", "TRUNC", "EXCL", "CLOEXEC"];

fn gen_open_flags(repo: &Path, s: &mut String) -> Res<()> {
    let file = parse_file(&repo.join(OPEN_FILE))?;
    // the boolean fields of the struct
    let mut bools = vec![];
    for it in &file.items {
        if let syn::Item::Struct(st) = it {
            if st.ident == "OpenOptions" {
                for f in &st.fields {
                    if nospace(&f.ty) == "bool" {
                        bools.push(f.ident.as_ref().unwrap().to_string());
                    }
                }
            }
        }
    }
    if bools != OPEN_FIELDS {
        return Err(format!("open flags: boolean fields of OpenOptions are {bools:?}, expected {OPEN_FIELDS:?}"));
    }
    let mut access = None;
    let mut creation = None;
    let mut open_impl = None;
    let mut custom_fn = None;
    let mut mode_fn = None;
    let mut new_fn = None;
    for it in &file.items {
        let syn::Item::Impl(im) = it else { continue };
        if nospace(&im.self_ty) != "OpenOptions" {
            continue;
        }
        for ii in &im.items {
            let syn::ImplItem::Fn(f) = ii else { continue };
            match f.sig.ident.to_string().as_str() {
                "get_access_mode" => access = Some(f.clone()),
                "get_creation_mode" => creation = Some(f.clone()),
                "open_impl" => open_impl = Some(f.clone()),
                "custom_flags" => custom_fn = Some(f.clone()),
                "mode" => mode_fn = Some(f.clone()),
                "new" => new_fn = Some(f.clone()),
                _ => {}
            }
        }
    }
    let access = access.ok_or("open flags: get_access_mode not found")?;
    let creation = creation.ok_or("open flags: get_creation_mode not found")?;
    let open_impl = open_impl.ok_or("open flags: open_impl not found")?;
    // how open_impl combines them
    let expected = "letflags=OFlags::CLOEXEC|self.get_access_mode()?|self.get_creation_mode()?|self.custom_flags;";
    let first = open_impl.block.stmts.first().map(nospace).unwrap_or_default();
    if first != expected {
        return Err(format!("open flags: open_impl starts with `{first}`, expected `{expected}`"));
    }
    s.push_str("namespace Compio.Gen.OpenFlags\n\n");
    s.push_str("inductive OFlag where\n");
    for f in KNOWN_FLAGS {
        writeln!(s, "  | {f}").unwrap();
    }
    s.push_str("  deriving DecidableEq, Repr\n\n");
    s.push_str("/-- `none` = `Err(Errno::INVAL)` -/\nabbrev Res := Option (List OFlag)\n\n");
    for (name, f) in [("accessMode", &access), ("creationMode", &creation)] {
        writeln!(s, "/-- `OpenOptions::{}` evaluated on every setting of (read, write, truncate, create, create_new) -/", f.sig.ident).unwrap();
        writeln!(s, "def {name} : Bool → Bool → Bool → Bool → Bool → Res").unwrap();
        for bits in 0..32u32 {
            let mut env = Env::new();
            let mut vals = vec![];
            for (i, fld) in OPEN_FIELDS.iter().enumerate() {
                let v = bits & (1 << (4 - i)) != 0;
                env.insert(fld.to_string(), v);
                vals.push(v.to_string());
            }
            let r = eval_fn(f, &env)?;
            let txt = match r {
                Ok(flags) => {
                    for fl in &flags {
                        if !KNOWN_FLAGS.contains(&fl.as_str()) {
                            return Err(format!("open flags: unknown flag {fl}"));
                        }
                    }
                    format!("some [{}]", flags.iter().map(|f| format!(".{f}")).collect::<Vec<_>>().join(", "))
                }
                Err(e) if e == "INVAL" => "none".to_string(),
                Err(e) => return Err(format!("open flags: unexpected errno {e}")),
            };
            writeln!(s, "  | {} => {txt}", vals.join(", ")).unwrap();
        }
        s.push('\n');
    }
    s.push_str("/-- `open_impl`: `OFlags::CLOEXEC | self.get_access_mode()? | self.get_creation_mode()? | self.custom_flags`\n    (custom flags empty) -/\n");
    s.push_str("def openFlags (r w t c n : Bool) : Res :=\n  match accessMode r w t c n with\n  | none => none\n  | some a =>\n    match creationMode r w t c n with\n    | none => none\n    | some m => some (.CLOEXEC :: a ++ m)\n\n");
    // --- custom_flags / mode -------------------------------------------------------------------
    // `custom_flags(&mut self, flags: i32)`: `self.custom_flags = OFlags::from_bits_retain(flags as _)` followed
    // by a chain of `.difference(OFlags::MASK)`; the masks are what is removed from the caller's flags.
    let custom_fn = custom_fn.ok_or("open flags: custom_flags not found")?;
    if custom_fn.block.stmts.len() != 1 {
        return Err("open flags: custom_flags: expected a single statement".into());
    }
    let syn::Stmt::Expr(syn::Expr::Assign(asg), _) = &custom_fn.block.stmts[0] else {
        return Err(format!("open flags: custom_flags: expected an assignment, found {}", tokens(&custom_fn.block.stmts[0])));
    };
    if nospace(&asg.left) != "self.custom_flags" {
        return Err(format!("open flags: custom_flags assigns to {}", nospace(&asg.left)));
    }
    let mut masks = vec![];
    let mut cur: &syn::Expr = &asg.right;
    loop {
        match cur {
            syn::Expr::MethodCall(m) if m.method == "difference" && m.args.len() == 1 => {
                let a = nospace(&m.args[0]);
                let name = a.strip_prefix("OFlags::").ok_or(format!("open flags: custom_flags: unsupported mask {a}"))?;
                if name != "ACCMODE" {
                    return Err(format!("open flags: custom_flags: unknown mask {name}"));
                }
                masks.push(name.to_string());
                cur = &m.receiver;
            }
            other => {
                let t = nospace(other);
                if t != "OFlags::from_bits_retain(flagsas_)" {
                    return Err(format!("open flags: custom_flags: unrecognised expression {t}"));
                }
                break;
            }
        }
    }
    masks.reverse();
    let mode_fn = mode_fn.ok_or("open flags: mode not found")?;
    let mode_body: String = mode_fn.block.stmts.iter().map(nospace).collect();
    if mode_body != "self.mode=Mode::from_bits_retain(modeas_);" {
        return Err(format!("open flags: mode(): unrecognised body `{mode_body}`"));
    }
    let new_fn = new_fn.ok_or("open flags: new not found")?;
    let new_body: String = new_fn.block.stmts.iter().map(nospace).collect();
    let expected_new = "OpenOptions{read:false,write:false,truncate:false,create:false,create_new:false,custom_flags:OFlags::empty(),mode:Mode::from_bits_retain(0o666),}";
    if new_body != expected_new {
        return Err(format!("open flags: new(): unrecognised body `{new_body}`"));
    }
    s.push_str("/-- a set of bits `OpenOptions::custom_flags` removes from the caller's flags (`.difference(OFlags::..)`) -/\ninductive Mask where\n  | ACCMODE\n  deriving DecidableEq, Repr\n\n");
    writeln!(
        s,
        "/-- `custom_flags(flags)`: `OFlags::from_bits_retain(flags)` minus these masks, in order -/\ndef customMasks : List Mask := [{}]\n",
        masks.iter().map(|m| format!(".{m}")).collect::<Vec<_>>().join(", ")
    )
    .unwrap();
    s.push_str("/-- `OpenOptions::new()`: no custom flags, all booleans false, this creation mode; `mode(m)` stores `m` unchanged -/\ndef defaultMode : Nat := 0o666\n\n");
    s.push_str("end Compio.Gen.OpenFlags\n");
    Ok(())
}

// ---------------------------------------------------------------------------------------------
// DirBuilder::create_dir_all: the decision arms around the two mkdir attempts
// ---------------------------------------------------------------------------------------------

fn errno_of_kind(k: &str) -> Res<u32> {
    Ok(match k {
        "NotFound" => 2,
        "AlreadyExists" => 17,
        other => return Err(format!("create_dir_all: unsupported io::ErrorKind::{other}")),
    })
}

/// one `match self.inner.create(path).await { .. }`: arms as Lean `Arm` literals
fn dir_arms(m: &syn::ExprMatch) -> Res<Vec<String>> {
    if nospace(&m.expr) != "self.inner.create(path).await" {
        return Err(format!("create_dir_all: unexpected scrutinee {}", nospace(&m.expr)));
    }
    let mut out = vec![];
    for arm in &m.arms {
        let pat = nospace(&arm.pat);
        let on_ok = match pat.as_str() {
            "Ok(())" => true,
            "Err(_)" | "Err(e)" | "Err(refe)" => false,
            other => return Err(format!("create_dir_all: unsupported pattern {other}")),
        };
        let guard = match &arm.guard {
            None => "Guard.always".to_string(),
            Some((_, g)) => {
                let t = nospace(g);
                if let Some(k) = t.strip_prefix("e.kind()==io::ErrorKind::") {
                    format!("Guard.kindEq {}", errno_of_kind(k)?)
                } else if t == "metadata(path).await.map(|m|m.is_dir()).unwrap_or_default()" {
                    "Guard.recheckIsDir".to_string()
                } else {
                    return Err(format!("create_dir_all: unsupported guard `{t}`"));
                }
            }
        };
        if on_ok && arm.guard.is_some() {
            return Err("create_dir_all: guard on the Ok arm".into());
        }
        let body = nospace(&arm.body);
        let act = match (on_ok, body.as_str()) {
            (true, "returnOk(())") | (true, "Ok(())") => "Act.retOk",
            (false, "returnOk(())") | (false, "Ok(())") => "Act.retOk",
            (false, "{}") => "Act.fall",
            (false, "returnErr(e)") | (false, "Err(e)") => "Act.retErr",
            (_, other) => return Err(format!("create_dir_all: unsupported arm body `{other}`")),
        };
        if act == "Act.retErr" && pat != "Err(e)" {
            return Err("create_dir_all: error arm does not bind the error it returns".into());
        }
        out.push(format!("⟨{on_ok}, {guard}, {act}⟩"));
    }
    Ok(out)
}

fn gen_dir_builder(repo: &Path, s: &mut String) -> Res<()> {
    let file = parse_file(&repo.join(UTILS_FILE))?;
    let mut f = None;
    for it in &file.items {
        let syn::Item::Impl(im) = it else { continue };
        if nospace(&im.self_ty) != "DirBuilder" || im.trait_.is_some() {
            continue;
        }
        for ii in &im.items {
            if let syn::ImplItem::Fn(x) = ii {
                if x.sig.ident == "create_dir_all" {
                    f = Some(x.clone());
                }
            }
        }
    }
    let f = f.ok_or("DirBuilder::create_dir_all not found")?;
    let st = &f.block.stmts;
    if st.len() != 4 {
        return Err(format!("create_dir_all: expected 4 statements, found {}", st.len()));
    }
    if nospace(&st[0]) != "ifpath==Path::new(\"\"){returnOk(());}" {
        return Err(format!("create_dir_all: unexpected first statement `{}`", nospace(&st[0])));
    }
    let syn::Stmt::Expr(syn::Expr::Match(m1), _) = &st[1] else { return Err("create_dir_all: statement 2 is not a match".into()) };
    let expected_parent = "matchpath.parent(){Some(p)=>Box::pin(self.create_dir_all(p)).await?,None=>{returnErr(io::Error::other(\"failedtocreatewholetree\"));}}";
    if nospace(&st[2]) != expected_parent {
        return Err(format!("create_dir_all: unexpected parent step `{}`", nospace(&st[2])));
    }
    let syn::Stmt::Expr(syn::Expr::Match(m2), None) = &st[3] else { return Err("create_dir_all: the tail is not a match".into()) };
    let a1 = dir_arms(m1)?;
    let a2 = dir_arms(m2)?;
    s.push_str("\nnamespace Compio.Gen.DirBuilder\n\n");
    s.push_str("/-- guard of an error arm: none, `e.kind() == io::ErrorKind::..` (as errno), or the re-check\n    `metadata(path).await.map(|m| m.is_dir()).unwrap_or_default()` -/\ninductive Guard where\n  | always | kindEq (errno : Nat) | recheckIsDir\n  deriving DecidableEq, Repr\n\n");
    s.push_str("/-- what the arm does: return `Ok(())`, return the error, or fall through to the next step -/\ninductive Act where\n  | retOk | retErr | fall\n  deriving DecidableEq, Repr\n\n");
    s.push_str("structure Arm where\n  /-- matches `Ok(())` (else an `Err`) -/\n  onOk : Bool\n  guard : Guard\n  act : Act\n  deriving DecidableEq, Repr\n\n");
    s.push_str("/-- `DirBuilder::create_dir_all`: `if path == \"\" {return Ok(())}`; FIRST `match self.inner.create(path).await`\n    (these arms); then `create_dir_all(parent)?` (no parent: `Err(other)`); then the SECOND match (below) -/\n");
    writeln!(s, "def firstAttempt : List Arm := [\n  {}\n]\n", a1.join(",\n  ")).unwrap();
    writeln!(s, "def secondAttempt : List Arm := [\n  {}\n]\n", a2.join(",\n  ")).unwrap();
    s.push_str("end Compio.Gen.DirBuilder\n");
    Ok(())
}

// ---------------------------------------------------------------------------------------------

fn lean_buf(b: &Option<BufParam>) -> String {
    match b {
        None => "none".into(),
        Some(b) => format!(
            "(some ⟨{}, {}⟩)",
            match b.dir {
                Dir::Read => ".read",
                Dir::Write => ".write",
            },
            b.vectored
        ),
    }
}

/// the shape of the polling driver's `Splice::pre_submit` (two known shapes, anything else is an error)
fn splice_wait_shape(parsed: &[(&'static str, &'static str, syn::File)], helpers: &Helpers) -> Res<&'static str> {
    for (rel, drv, f) in parsed {
        if *drv != "poll" {
            continue;
        }
        for it in &f.items {
            let syn::Item::Impl(im) = it else { continue };
            let Some((_, tr, _)) = &im.trait_ else { continue };
            if !tr.segments.last().map(|s| s.ident == "OpCode").unwrap_or(false) || self_name(&im.self_ty)?.0 != "Splice" {
                continue;
            }
            for ii in &im.items {
                let syn::ImplItem::Fn(m) = ii else { continue };
                if m.sig.ident != "pre_submit" {
                    continue;
                }
                let body: String = m.block.stmts.iter().map(nospace).collect();
                let both = "usecrate::sys::WaitArg;Ok(Decision::wait_for_many([WaitArg::readable(self.fd_in.as_fd().as_raw_fd()),WaitArg::writable(self.fd_out.as_fd().as_raw_fd()),]))";
                let pollable = "letargs=self.wait_args();Ok(ifargs.is_empty(){Decision::Blocking}else{Decision::wait_for_many(args)})";
                if body == both {
                    return Ok("bothEnds");
                }
                if body == pollable {
                    let h = helpers.methods.get(&("Splice".to_string(), "wait_args".to_string())).ok_or(format!("{rel}: Splice::wait_args not found"))?;
                    let hb: String = h[0].block.stmts.iter().map(nospace).collect();
                    let expected = "usecrate::sys::WaitArg;letpollable=|fd:BorrowedFd|{!fs::fstat(fd).is_ok_and(|st|{letty=fs::FileType::from_raw_mode(st.st_mode);ty.is_file()||ty.is_dir()||ty.is_block_device()})};let(fd_in,fd_out)=(self.fd_in.as_fd(),self.fd_out.as_fd());letmutargs=Vec::with_capacity(2);ifpollable(fd_in){args.push(WaitArg::readable(fd_in.as_raw_fd()));}ifpollable(fd_out){args.push(WaitArg::writable(fd_out.as_raw_fd()));}args";
                    if h.len() != 1 || hb != expected {
                        return Err(format!("{rel}: Splice::wait_args: unrecognised body `{hb}`"));
                    }
                    return Ok("pollableEnds");
                }
                return Err(format!("{rel}: Splice::pre_submit: unrecognised body `{body}`"));
            }
        }
    }
    Err("polling Splice::pre_submit not found".into())
}

fn lean_lens(v: &[(LenKind, String)]) -> String {
    let s: BTreeSet<LenKind> = v.iter().map(|x| x.0).collect();
    format!("[{}]", s.into_iter().map(|k| k.lean()).collect::<Vec<_>>().join(", "))
}

fn lean_kinds(k: &[Kind]) -> String {
    format!("[{}]", k.iter().map(|k| k.lean()).collect::<Vec<_>>().join(", "))
}

pub fn generate(repo: &Path) -> Res<String> {
    let mut helpers = Helpers::default();
    let mut parsed = vec![];
    for rel in HELPER_FILES {
        let f = parse_file(&repo.join(rel))?;
        helpers.add_file(&f, rel)?;
    }
    for (rel, drv) in OP_FILES {
        let f = parse_file(&repo.join(rel))?;
        helpers.add_file(&f, rel)?;
        parsed.push((rel, drv, f));
    }
    let mut rows = vec![];
    for (rel, drv, f) in &parsed {
        let mut n = 0;
        for it in &f.items {
            match it {
                syn::Item::Impl(im) => {
                    let Some((_, tr, _)) = &im.trait_ else { continue };
                    if tr.segments.last().map(|s| s.ident == "OpCode").unwrap_or(false) {
                        rows.push(scan_impl(im, drv, rel, &helpers)?);
                        n += 1;
                    }
                }
                syn::Item::Macro(m) => {
                    // an OpCode impl hidden in a macro would escape the table
                    let has_opcode = m.mac.tokens.clone().into_iter().any(|t| matches!(&t, TokenTree::Ident(i) if i == "OpCode"));
                    if has_opcode || macro_mentions_range(&m.mac.tokens).is_some() {
                        return Err(format!("{rel}: item macro {}! contains an OpCode impl or a range-kind call", nospace(&m.mac.path)));
                    }
                }
                _ => {}
            }
        }
        if n == 0 {
            return Err(format!("{rel}: no OpCode impl found"));
        }
    }
    let splice_wait = splice_wait_shape(&parsed, &helpers)?;
    let known: BTreeSet<String> = rows.iter().filter(|r| r.main.is_some()).map(|r| r.op.clone()).collect();
    let mut mappings = vec![];
    for rel in MAPPING_FILES {
        let f = parse_file(&repo.join(rel))?;
        scan_mappings(&f, rel, &known, &mut mappings)?;
    }
    if mappings.is_empty() {
        return Err("no high-level call found in the mapping files".into());
    }

    let mut sources: Vec<&str> = OP_FILES.iter().map(|x| x.0).collect();
    sources.extend(HELPER_FILES);
    sources.extend(MAPPING_FILES);
    sources.push(OPEN_FILE);
    sources.push(UTILS_FILE);
    let mut s = header("OpTable", &sources);
    s.push_str("namespace Compio.Gen.OpTable\n\n");
    s.push_str("inductive Driver where\n  | iour | poll\n  deriving DecidableEq, Repr\n\n");
    s.push_str("/-- direction of a buffer parameter, from its generic bound: `IoBufMut`/`IoVectoredBufMut` = read\n    (the OS writes into it), `IoBuf`/`IoVectoredBuf` = write (the OS reads from it) -/\n");
    s.push_str("inductive Dir where\n  | read | write\n  deriving DecidableEq, Repr\n\n");
    s.push_str("/-- the range of the buffer handed to the OS: `init` = `as_init`/`sys_slice`/`sys_slices` (`0..len`),\n    `writable` = `as_uninit`/`sys_slice_mut`/`sys_slices_mut` (`0..capacity`) -/\n");
    s.push_str("inductive Kind where\n  | init | writable\n  deriving DecidableEq, Repr\n\n");
    s.push_str("/-- derivation of a length passed to the OS: `saturating` = `.try_into().unwrap_or(u32::MAX)`, `cast` = a plain\n    `as` cast, `toField` = `msg_iovlen = .. as _` (size_t on Linux/glibc), `full` = handed over as `usize` -/\ninductive LenKind where\n  | saturating | cast | toField | full\n  deriving DecidableEq, Repr\n\n");
    s.push_str("structure BufParam where\n  dir : Dir\n  vectored : Bool\n  deriving DecidableEq, Repr\n\n");
    let mut op_names: Vec<String> = vec![];
    for r in &rows {
        if !op_names.contains(&r.op) {
            op_names.push(r.op.clone());
        }
    }
    s.push_str("/-- the op codes found (`unsafe impl OpCode for <Op>`) -/\ninductive Op where\n");
    for n in &op_names {
        writeln!(s, "  | {n}").unwrap();
    }
    s.push_str("  deriving DecidableEq, Repr\n\n");
    s.push_str("structure Row where\n  op : Op\n  driver : Driver\n  /-- the `buffer: T` parameter -/\n  main : Option BufParam\n  /-- the `control: C` parameter (ancillary data) -/\n  ctrl : Option BufParam\n  /-- distinct range kinds of `self.buffer` reached from the impl's method bodies -/\n  mainKinds : List Kind\n  ctrlKinds : List Kind\n  /-- how the byte lengths (`slice.len()`, `self.len`) the impl hands to the OS are derived -/\n  byteLens : List LenKind\n  /-- same for iovec counts (`control.slices.len()`) -/\n  countLens : List LenKind\n  deriving DecidableEq, Repr\n\n");
    s.push_str("def rows : List Row := [\n");
    for (i, r) in rows.iter().enumerate() {
        for (k, site) in r.main_kinds.iter().chain(&r.ctrl_kinds) {
            writeln!(s, "  -- {} {:?} at {}", r.op, k, site).unwrap();
        }
        for (k, site) in r.byte_lens.iter().chain(&r.count_lens) {
            writeln!(s, "  -- {} length {:?} at {}", r.op, k, site).unwrap();
        }
        writeln!(
            s,
            "  ⟨.{}, .{}, {}, {}, {}, {}, {}, {}⟩{}  -- {}",
            r.op,
            r.driver,
            lean_buf(&r.main),
            lean_buf(&r.ctrl),
            lean_kinds(&dedup_kinds(&r.main_kinds)),
            lean_kinds(&dedup_kinds(&r.ctrl_kinds)),
            lean_lens(&r.byte_lens),
            lean_lens(&r.count_lens),
            if i + 1 < rows.len() { "," } else { "" },
            r.file
        )
        .unwrap();
    }
    s.push_str("]\n\n");
    s.push_str("/-- which descriptors the polling driver's `Splice::pre_submit` waits for: `bothEnds` =\n    `wait_for_many([readable(fd_in), writable(fd_out)])` unconditionally (epoll refuses regular files: `EPERM`),\n    `pollableEnds` = only the ends that are not regular files / directories / block devices\n    (none left: `Decision::Blocking`) -/\ninductive SpliceWait where\n  | bothEnds | pollableEnds\n  deriving DecidableEq, Repr\n\n");
    writeln!(s, "def spliceWaitPoll : SpliceWait := .{splice_wait}\n").unwrap();
    s.push_str("/-- what the high-level call does with the returned length -/\ninductive Mapping where\n  | none | advanced | vecAdvanced\n  deriving DecidableEq, Repr\n\n");
    s.push_str("/-- (source file, function, op it builds, mapping applied to the result) -/\ndef mappings : List (String × String × Op × Mapping) := [\n");
    for (i, (file, f, op, m)) in mappings.iter().enumerate() {
        writeln!(s, "  (\"{file}\", \"{f}\", .{op}, {m}){}", if i + 1 < mappings.len() { "," } else { "" }).unwrap();
    }
    s.push_str("]\n\nend Compio.Gen.OpTable\n\n");
    gen_open_flags(repo, &mut s)?;
    gen_dir_builder(repo, &mut s)?;
    Ok(s)
}
