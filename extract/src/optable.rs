//! op × driver -> buffer range kind table (C08/C14). Filled in by the C08 builder.
use std::path::Path;

use crate::Res;

pub fn generate(_repo: &Path) -> Res<String> {
    Err("OpTable extraction not implemented yet".into())
}
