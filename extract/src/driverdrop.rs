//! compio-driver/src/sys/driver/iour/mod.rs `impl Drop for Driver`  ->  Gen/DriverDrop.lean
//!
//! The body of `drop` is a straight-line sequence of statements. Each top-level statement is
//! classified into one *step kind* (drain the completion queue / close the ring / free the keys still
//! registered in `in_flight`); the generated Lean literal is the ORDER of these kinds, which the C01
//! theorems (`Compio.Props.C01`) are stated over: the ring has to be closed before any in-flight key
//! is freed. It also records whether the drain loop looks at the `more` flag of a CQE before it
//! re-materialises the key with `ErasedKey::from_raw` (finding F13: it does not).
//!
//! Third fact (finding F9): how `Driver::cancel` queues the AsyncCancel SQE — through `self.push_raw(..)`
//! (submit-and-retry on a full submission queue) or with a bare `squeue.push(..)` that drops it when full.
//!
//! Fails closed: a statement that is none of the recognised shapes is an error.

use std::{fmt::Write as _, path::Path};

use syn::visit::Visit;

use crate::{Res, header, parse_file, tokens};

fn squash(s: &str) -> String {
    s.chars().filter(|c| !c.is_whitespace()).collect()
}

#[derive(Default)]
struct BodyFacts {
    from_raw: bool,
    in_flight_remove: bool,
    checks_more: bool,
}

impl<'ast> Visit<'ast> for BodyFacts {
    fn visit_expr_call(&mut self, c: &'ast syn::ExprCall) {
        let f = squash(&tokens(&c.func));
        if f.ends_with("ErasedKey::from_raw") {
            self.from_raw = true;
        }
        if f == "more" || f.ends_with("::more") {
            self.checks_more = true;
        }
        syn::visit::visit_expr_call(self, c);
    }

    fn visit_expr_method_call(&mut self, m: &'ast syn::ExprMethodCall) {
        if m.method == "remove" && squash(&tokens(&m.receiver)) == "self.in_flight" {
            self.in_flight_remove = true;
        }
        syn::visit::visit_expr_method_call(self, m);
    }
}

#[derive(Default)]
struct CancelFacts {
    async_cancel: bool,
    push_raw: bool,
    bare_push: bool,
}

impl<'ast> Visit<'ast> for CancelFacts {
    fn visit_expr_call(&mut self, c: &'ast syn::ExprCall) {
        if squash(&tokens(&c.func)).ends_with("AsyncCancel::new") {
            self.async_cancel = true;
        }
        syn::visit::visit_expr_call(self, c);
    }

    fn visit_expr_method_call(&mut self, m: &'ast syn::ExprMethodCall) {
        let recv = squash(&tokens(&m.receiver));
        if m.method == "push_raw" && recv == "self" {
            self.push_raw = true;
        }
        if m.method == "push" && recv.contains("submission()") {
            self.bare_push = true;
        }
        syn::visit::visit_expr_method_call(self, m);
    }
}

/// `impl Driver { pub fn cancel(&mut self, key: ErasedKey) }`
fn cancel_uses_push_raw(file: &syn::File) -> Res<bool> {
    for item in &file.items {
        if let syn::Item::Impl(imp) = item {
            if imp.trait_.is_none() && squash(&tokens(&*imp.self_ty)) == "Driver" {
                for it in &imp.items {
                    if let syn::ImplItem::Fn(f) = it {
                        if f.sig.ident == "cancel" {
                            let mut facts = CancelFacts::default();
                            facts.visit_block(&f.block);
                            if !facts.async_cancel {
                                return Err("iour Driver::cancel no longer builds an AsyncCancel entry".into());
                            }
                            return match (facts.push_raw, facts.bare_push) {
                                (true, false) => Ok(true),
                                (false, true) => Ok(false),
                                _ => Err("iour Driver::cancel: cannot tell how the AsyncCancel entry is queued".into()),
                            };
                        }
                    }
                }
            }
        }
    }
    Err("`impl Driver` with `fn cancel` not found".into())
}

fn find_drop_body(file: &syn::File) -> Res<&syn::Block> {
    for item in &file.items {
        if let syn::Item::Impl(imp) = item {
            let is_drop = imp.trait_.as_ref().map(|(_, p, _)| squash(&tokens(p)) == "Drop").unwrap_or(false);
            if is_drop && squash(&tokens(&*imp.self_ty)) == "Driver" {
                for it in &imp.items {
                    if let syn::ImplItem::Fn(f) = it {
                        if f.sig.ident == "drop" {
                            return Ok(&f.block);
                        }
                    }
                }
            }
        }
    }
    Err("`impl Drop for Driver` with `fn drop` not found".into())
}

pub fn generate(repo: &Path) -> Res<String> {
    let rel = "compio-driver/src/sys/driver/iour/mod.rs";
    let file = parse_file(&repo.join(rel))?;
    let body = find_drop_body(&file)?;

    let mut steps: Vec<&'static str> = vec![];
    let mut cq_var: Option<String> = None;
    let mut drain_checks_more: Option<bool> = None;

    for stmt in &body.stmts {
        match stmt {
            // `let mut cqueue = self.inner.completion();`
            syn::Stmt::Local(l) => {
                let init = l.init.as_ref().ok_or_else(|| format!("unrecognised statement in Drop: {}", tokens(stmt)))?;
                if squash(&tokens(&*init.expr)) != "self.inner.completion()" || init.diverge.is_some() {
                    return Err(format!("unrecognised `let` in Drop for Driver: {}", tokens(stmt)));
                }
                let name = match &l.pat {
                    syn::Pat::Ident(p) => p.ident.to_string(),
                    _ => return Err(format!("unrecognised pattern in Drop for Driver: {}", tokens(stmt))),
                };
                if !steps.is_empty() && steps != ["drainCq"] && cq_var.is_none() && steps.contains(&"closeRing") {
                    return Err("completion queue opened after the ring was closed".into());
                }
                cq_var = Some(name);
            }
            syn::Stmt::Expr(e, _) => {
                let e = match e {
                    syn::Expr::Unsafe(u) if u.block.stmts.len() == 1 => match &u.block.stmts[0] {
                        syn::Stmt::Expr(inner, _) => inner,
                        _ => e,
                    },
                    _ => e,
                };
                match e {
                    // `cqueue.sync();`
                    syn::Expr::MethodCall(m)
                        if m.method == "sync" && Some(squash(&tokens(&m.receiver))) == cq_var.clone() => {}
                    // `for entry in cqueue { .. from_raw .. }`  /  `for user_data in self.in_flight.drain() { .. }`
                    syn::Expr::ForLoop(f) => {
                        let iter = squash(&tokens(&*f.expr));
                        let mut facts = BodyFacts::default();
                        facts.visit_block(&f.body);
                        if Some(iter.clone()) == cq_var {
                            if !facts.from_raw || !facts.in_flight_remove {
                                return Err(format!(
                                    "CQ drain loop in Drop no longer re-materialises keys / updates in_flight: {}",
                                    tokens(e)
                                ));
                            }
                            if drain_checks_more.is_some() {
                                return Err("two CQ drain loops in Drop for Driver".into());
                            }
                            drain_checks_more = Some(facts.checks_more);
                            steps.push("drainCq");
                        } else if iter == "self.in_flight.drain()" {
                            if !facts.from_raw {
                                return Err(format!("in_flight loop in Drop does not free keys: {}", tokens(e)));
                            }
                            steps.push("freeInFlight");
                        } else {
                            return Err(format!("unrecognised loop in Drop for Driver: {}", tokens(e)));
                        }
                    }
                    // `ManuallyDrop::drop(&mut self.inner)`
                    syn::Expr::Call(c)
                        if squash(&tokens(&*c.func)) == "ManuallyDrop::drop"
                            && c.args.len() == 1
                            && squash(&tokens(&c.args[0])) == "&mutself.inner" =>
                    {
                        steps.push("closeRing");
                    }
                    _ => return Err(format!("unrecognised statement in Drop for Driver: {}", tokens(stmt))),
                }
            }
            _ => return Err(format!("unrecognised statement in Drop for Driver: {}", tokens(stmt))),
        }
    }
    // the field itself must be ManuallyDrop, otherwise the ring would ALSO be closed by the field drop
    // glue after `drop` returns and `closeRing` would not be the only closing point
    let src = std::fs::read_to_string(repo.join(rel)).map_err(|e| e.to_string())?;
    if !squash(&src).contains("inner:ManuallyDrop<IoUring<SEntry,CEntry>>") {
        return Err("field `inner` of iour::Driver is no longer ManuallyDrop<IoUring<..>>".into());
    }
    let checks_more = drain_checks_more.unwrap_or(false);
    let cancel_push_raw = cancel_uses_push_raw(&file)?;

    let mut s = header("DriverDrop", &[rel]);
    writeln!(s, "namespace Compio.Gen\n").unwrap();
    writeln!(s, "/-- kinds of top-level statements of `impl Drop for iour::Driver` -/").unwrap();
    writeln!(s, "inductive DropStep where\n  | drainCq\n  | closeRing\n  | freeInFlight\n  deriving DecidableEq, Repr\n").unwrap();
    writeln!(s, "/-- the statement kinds of `fn drop`, in source order -/").unwrap();
    writeln!(
        s,
        "def iourDriverDrop : List DropStep := [{}]\n",
        steps.iter().map(|k| format!(".{k}")).collect::<Vec<_>>().join(", ")
    )
    .unwrap();
    writeln!(s, "/-- does the CQ drain loop of `fn drop` test `more(flags)` before `ErasedKey::from_raw`? -/").unwrap();
    writeln!(s, "def iourDropDrainChecksMore : Bool := {}\n", checks_more).unwrap();
    writeln!(s, "/-- does `iour::Driver::cancel` queue the AsyncCancel SQE through `push_raw` (submit-and-retry)? -/").unwrap();
    writeln!(s, "def iourCancelUsesPushRaw : Bool := {}\n", cancel_push_raw).unwrap();
    writeln!(s, "end Compio.Gen").unwrap();
    Ok(s)
}
