//! compio-driver/src/sys/driver/poll/mod.rs `Driver::{cancel, cancel_one, remove_one}`, `FdQueue::remove`
//!   ->  Gen/PollCancel.lean
//!
//! An operation of the polling driver may wait on SEVERAL descriptors (`OpType::Fd(fds)`, e.g. `Splice`): `push`
//! puts one clone of its key into the interest queue of every descriptor. `Driver::cancel` must therefore visit EVERY
//! descriptor of the operation; the C01 theorems (`Compio.Props.C01Multi`) are stated over the shape read here:
//!
//!   * the arm `Some(OpType::Fd(fds))` of the `match` in `cancel` is a block of `let` statements and exactly ONE
//!     `for fd in fds { .. }` loop whose FIRST statement contains the one call `self.cancel_one(key.clone(), fd)`
//!     (as the initialiser of a `let` or as the scrutinee of an `if`/`if let`): one call per descriptor;
//!   * whether the loop body contains a `break`, `return` or `?` — a way to leave before the last descriptor;
//!   * `cancel_one` calls `self.remove_one(&key, fd)` as the first thing it evaluates;
//!   * `remove_one` calls `queue.remove(key)` on the queue looked up with `self.try_get_queue(fd)`;
//!   * `FdQueue::remove` is exactly the two statements `self.read_queue.retain(|k| k != key);` and
//!     `self.write_queue.retain(|k| k != key);`.
//!
//! Fails closed: anything else is an error.

use std::{fmt::Write as _, path::Path};

use syn::visit::Visit;

use crate::{Res, header, parse_file, tokens};

fn squash(s: &str) -> String {
    s.chars().filter(|c| !c.is_whitespace()).collect()
}

#[derive(Default)]
struct Calls {
    /// squashed argument lists of `self.<name>(..)` calls, in visiting order
    found: Vec<(String, String, String)>,
    leaves: usize,
}

impl<'ast> Visit<'ast> for Calls {
    fn visit_expr_method_call(&mut self, m: &'ast syn::ExprMethodCall) {
        let args = m.args.iter().map(|a| squash(&tokens(a))).collect::<Vec<_>>().join(",");
        self.found.push((squash(&tokens(&m.receiver)), m.method.to_string(), args));
        syn::visit::visit_expr_method_call(self, m);
    }

    fn visit_expr_break(&mut self, b: &'ast syn::ExprBreak) {
        self.leaves += 1;
        syn::visit::visit_expr_break(self, b);
    }

    fn visit_expr_return(&mut self, r: &'ast syn::ExprReturn) {
        self.leaves += 1;
        syn::visit::visit_expr_return(self, r);
    }

    fn visit_expr_try(&mut self, t: &'ast syn::ExprTry) {
        self.leaves += 1;
        syn::visit::visit_expr_try(self, t);
    }
}

fn find_fn<'a>(file: &'a syn::File, ty: &str, name: &str) -> Res<&'a syn::Block> {
    let mut hit = None;
    for item in &file.items {
        let syn::Item::Impl(imp) = item else { continue };
        if imp.trait_.is_some() || squash(&tokens(&*imp.self_ty)) != ty {
            continue;
        }
        for it in &imp.items {
            let syn::ImplItem::Fn(f) = it else { continue };
            if f.sig.ident == name {
                if hit.is_some() {
                    return Err(format!("two `{ty}::{name}`"));
                }
                hit = Some(&f.block);
            }
        }
    }
    hit.ok_or_else(|| format!("`{ty}::{name}` not found in poll/mod.rs"))
}

fn calls_of<T>(t: &T, visit: impl FnOnce(&mut Calls, &T)) -> Calls {
    let mut c = Calls::default();
    visit(&mut c, t);
    c
}

pub fn generate(repo: &Path) -> Res<String> {
    let rel = "compio-driver/src/sys/driver/poll/mod.rs";
    let file = parse_file(&repo.join(rel))?;

    // ---- Driver::cancel ---------------------------------------------------------------------
    let body = find_fn(&file, "Driver", "cancel")?;
    let mut fd_arm: Option<&syn::Expr> = None;
    for st in &body.stmts {
        let syn::Stmt::Expr(syn::Expr::Match(m), _) = st else { continue };
        for arm in &m.arms {
            if squash(&tokens(&arm.pat)) == "Some(OpType::Fd(fds))" {
                if fd_arm.is_some() || arm.guard.is_some() {
                    return Err("Driver::cancel: several / guarded `Some(OpType::Fd(fds))` arms".into());
                }
                fd_arm = Some(&arm.body);
            }
        }
    }
    let arm = fd_arm.ok_or("Driver::cancel: arm `Some(OpType::Fd(fds))` not found")?;
    let syn::Expr::Block(blk) = arm else { return Err(format!("Driver::cancel: the Fd arm is not a block: {}", tokens(arm))) };
    let mut the_loop: Option<&syn::ExprForLoop> = None;
    for st in &blk.block.stmts {
        match st {
            syn::Stmt::Local(l) => {
                // `let mut pushed = false;` and the like: no call allowed here
                let c = calls_of(l, |c, l| c.visit_local(l));
                if !c.found.is_empty() || c.leaves > 0 {
                    return Err(format!("Driver::cancel: unrecognised `let` in the Fd arm: {}", tokens(st)));
                }
            }
            syn::Stmt::Expr(syn::Expr::ForLoop(f), _) => {
                if the_loop.is_some() {
                    return Err("Driver::cancel: two loops in the Fd arm".into());
                }
                the_loop = Some(f);
            }
            _ => return Err(format!("Driver::cancel: unrecognised statement in the Fd arm: {}", tokens(st))),
        }
    }
    let lp = the_loop.ok_or("Driver::cancel: no `for` loop in the Fd arm")?;
    if squash(&tokens(&*lp.pat)) != "fd" || squash(&tokens(&*lp.expr)) != "fds" {
        return Err(format!("Driver::cancel: the loop is not `for fd in fds`: for {} in {}", tokens(&*lp.pat), tokens(&*lp.expr)));
    }
    let all = calls_of(&lp.body, |c, b| c.visit_block(b));
    let is_cancel_one = |c: &(String, String, String)| c.0 == "self" && c.1 == "cancel_one";
    let n_calls = all.found.iter().filter(|c| is_cancel_one(c)).count();
    if n_calls != 1 {
        return Err(format!("Driver::cancel: {n_calls} calls of self.cancel_one in the loop body (expected 1)"));
    }
    let first = lp.body.stmts.first().ok_or("Driver::cancel: empty loop body")?;
    // the call has to be evaluated unconditionally: initialiser of a `let`, or scrutinee of an `if` / `if let`
    let head: Option<&syn::Expr> = match first {
        syn::Stmt::Local(l) => l.init.as_ref().filter(|i| i.diverge.is_none()).map(|i| &*i.expr),
        syn::Stmt::Expr(syn::Expr::If(i), _) => Some(match &*i.cond {
            syn::Expr::Let(l) => &*l.expr,
            c => c,
        }),
        _ => None,
    };
    let head = head.ok_or_else(|| format!("Driver::cancel: first statement of the loop body not recognised: {}", tokens(first)))?;
    if squash(&tokens(head)) != "self.cancel_one(key.clone(),fd)" {
        return Err(format!("Driver::cancel: the loop body does not start with self.cancel_one(key.clone(), fd): {}", tokens(head)));
    }
    let leaves_early = all.leaves > 0;

    // ---- cancel_one ---------------------------------------------------------------------------
    let body = find_fn(&file, "Driver", "cancel_one")?;
    let c = calls_of(body, |c, b| c.visit_block(b));
    let rm: Vec<_> = c.found.iter().filter(|c| c.0 == "self" && c.1 == "remove_one").collect();
    if rm.len() != 1 || rm[0].2 != "&key,fd" || body.stmts.len() != 1 {
        return Err("Driver::cancel_one is no longer the single expression `self.remove_one(&key, fd).map_or(..)`".into());
    }
    if !squash(&tokens(&body.stmts[0])).starts_with("self.remove_one(&key,fd)") {
        return Err("Driver::cancel_one does not start with self.remove_one(&key, fd)".into());
    }

    // ---- remove_one ---------------------------------------------------------------------------
    let body = find_fn(&file, "Driver", "remove_one")?;
    let sq: Vec<String> = body.stmts.iter().map(|s| squash(&tokens(s))).collect();
    if sq.len() < 2 || sq[0] != "letSome(queue)=self.try_get_queue(fd)else{returnOk(());};" || sq[1] != "queue.remove(key);" {
        return Err(format!("Driver::remove_one does not start with the queue lookup and `queue.remove(key);`: {:?}", &sq[..sq.len().min(2)]));
    }

    // ---- FdQueue::remove ------------------------------------------------------------------------
    let body = find_fn(&file, "FdQueue", "remove")?;
    let sq: Vec<String> = body.stmts.iter().map(|s| squash(&tokens(s))).collect();
    let want = ["self.read_queue.retain(|k|k!=key);", "self.write_queue.retain(|k|k!=key);"];
    let mut sorted = sq.clone();
    sorted.sort();
    if sorted != want {
        return Err(format!("FdQueue::remove is not the two `retain(|k| k != key)` statements: {sq:?}"));
    }

    let mut s = header("PollCancel", &[rel]);
    writeln!(s, "namespace Compio.Gen\n").unwrap();
    writeln!(s, "/-- `poll::Driver::cancel`, arm `Some(OpType::Fd(fds))`: the body is ONE `for fd in fds` loop whose body calls").unwrap();
    writeln!(s, "`self.cancel_one(key.clone(), fd)` exactly once, unconditionally, as its first statement -/").unwrap();
    writeln!(s, "def pollCancelCallsCancelOnePerFd : Bool := true\n").unwrap();
    writeln!(s, "/-- does that loop contain a `break` / `return` / `?` (it could leave before the last descriptor)? -/").unwrap();
    writeln!(s, "def pollCancelLoopLeavesEarly : Bool := {leaves_early}\n").unwrap();
    writeln!(s, "/-- `cancel_one` calls `self.remove_one(&key, fd)` unconditionally -/").unwrap();
    writeln!(s, "def pollCancelOneCallsRemoveOne : Bool := true\n").unwrap();
    writeln!(s, "/-- `remove_one` calls `queue.remove(key)` on the queue of `fd` whenever the registry has one -/").unwrap();
    writeln!(s, "def pollRemoveOneRemovesFromQueue : Bool := true\n").unwrap();
    writeln!(s, "/-- `FdQueue::remove` retains `|k| k != key` on BOTH interest queues (read and write) -/").unwrap();
    writeln!(s, "def fdQueueRemoveFiltersBothQueues : Bool := true\n").unwrap();
    writeln!(s, "end Compio.Gen").unwrap();
    Ok(s)
}
