//! compio-tls/src/compat/common.rs + compat/native.rs  ->  Gen/TlsCompat.lean   (property C15)
//!
//! Regenerates, as Lean *functions*, the parts of the native-tls shim that the hand model
//! `Model/TlsShim.lean` restates:
//!
//! common.rs
//!   `OpensslInner::new`            initial `written` / `handshaken`
//!   `OpensslInner::poll_read`      the loop: guard expression, the three arms of the match on `inner.poll_flush`,
//!                                  which flag the `Ready(Ok)` arm assigns, the `else` branch delegating to `inner.poll_read`
//!   `OpensslInner::poll_write`     delegate, then `if let Poll::Ready(Ok(_)) = &res { *this.written = true; }`
//!   `OpensslInner::poll_flush`     `if self.handshaken { inner.poll_flush } else { Ready(Ok(())) }`
//!   `OpensslInner::poll_close`     pure delegation
//!   `AllowStd::finish_handshake`   the flag it sets
//!   `AllowStd::with_context`       `assert!(!self.context.is_null())` first; `Ready(r) => r`, `Pending => Err(<kind>)`
//!   `Read::read / Write::write / Write::flush for AllowStd`   which `poll_*` each one calls
//! native.rs
//!   `TlsStream::with_context`      set_context first, Guard, the three arms `Ok / Err(WouldBlock) / Err`
//!   `Drop for Guard`               `clear_context()`
//!   `poll_read/poll_write/poll_flush/poll_close for TlsStream`   which engine call each one makes
//!   `handshake()`                  the steps of the `Done` arm and of the `Mid` arm (MidHandshake.await, finish_handshake, flush().await)
//!   `TlsConnector::connect`, `TlsAcceptor::accept`   nothing but `handshake(..).await`
//!
//! Every recognised construct is matched structurally (syn) and the leaves by their exact token text.
//! Anything else is an error: fails closed.

use std::{fmt::Write as _, path::Path};

use crate::{Res, header, parse_file, tokens};

fn squash(s: &str) -> String {
    s.chars().filter(|c| !c.is_whitespace()).collect()
}

fn sq<T: quote::ToTokens>(t: &T) -> String {
    squash(&tokens(t))
}

/// find `fn name` in `impl [Trait for] Ty<..>`
fn find_fn<'a>(file: &'a syn::File, ty: &str, tr: Option<&str>, name: &str) -> Res<&'a syn::ImplItemFn> {
    let mut found = None;
    for it in &file.items {
        let syn::Item::Impl(im) = it else { continue };
        let st = sq(&*im.self_ty);
        if !(st == ty || st.starts_with(&format!("{ty}<"))) {
            continue;
        }
        let trn = im.trait_.as_ref().map(|(_, p, _)| p.segments.last().map(|s| s.ident.to_string()).unwrap_or_default());
        if trn.as_deref() != tr {
            continue;
        }
        for ii in &im.items {
            let syn::ImplItem::Fn(f) = ii else { continue };
            if f.sig.ident == name {
                if found.is_some() {
                    return Err(format!("two definitions of {ty}::{name}"));
                }
                found = Some(f);
            }
        }
    }
    found.ok_or(format!("{ty}::{name} (trait {tr:?}) not found"))
}

/// a boolean expression over the two flags -> Lean
fn cond(e: &syn::Expr) -> Res<String> {
    match e {
        syn::Expr::Paren(p) => Ok(format!("({})", cond(&p.expr)?)),
        syn::Expr::Unary(u) => match u.op {
            syn::UnOp::Not(_) => Ok(format!("!{}", cond(&u.expr)?)),
            syn::UnOp::Deref(_) => cond(&u.expr),
            _ => Err(format!("unsupported operator in condition {}", tokens(e))),
        },
        syn::Expr::Binary(b) => {
            let op = match b.op {
                syn::BinOp::And(_) => "&&",
                syn::BinOp::Or(_) => "||",
                _ => return Err(format!("unsupported operator in condition {}", tokens(e))),
            };
            Ok(format!("({} {} {})", cond(&b.left)?, op, cond(&b.right)?))
        }
        syn::Expr::Field(_) => match sq(e).as_str() {
            "this.handshaken" | "self.handshaken" => Ok("f.handshaken".into()),
            "this.written" | "self.written" => Ok("f.written".into()),
            o => Err(format!("unsupported operand in condition: {o}")),
        },
        _ => Err(format!("unsupported condition {}", tokens(e))),
    }
}

/// `{ *this.written = false; ... }` -> [(field, value)]
fn assigns(stmts: &[syn::Stmt], prefix: &[&str]) -> Res<Vec<(String, bool)>> {
    let mut v = vec![];
    for st in stmts {
        let syn::Stmt::Expr(syn::Expr::Assign(a), Some(_)) = st else {
            return Err(format!("expected a flag assignment, found `{}`", tokens(st)));
        };
        let l = sq(&*a.left);
        let field = prefix
            .iter()
            .find_map(|p| l.strip_prefix(p).map(|s| s.to_string()))
            .ok_or(format!("unrecognised assignment target {l}"))?;
        if field != "written" && field != "handshaken" {
            return Err(format!("assignment to unknown field {field}"));
        }
        let val = match sq(&*a.right).as_str() {
            "true" => true,
            "false" => false,
            o => return Err(format!("assignment of a non-literal {o}")),
        };
        v.push((field, val));
    }
    Ok(v)
}

fn with_fields(a: &[(String, bool)]) -> String {
    if a.is_empty() {
        "f".into()
    } else {
        format!("{{ f with {} }}", a.iter().map(|(k, v)| format!("{k} := {v}")).collect::<Vec<_>>().join(", "))
    }
}

fn single_expr(b: &syn::Block, what: &str) -> Res<syn::Expr> {
    match b.stmts.as_slice() {
        [syn::Stmt::Expr(e, _)] => Ok(e.clone()),
        _ => Err(format!("{what}: expected a single expression, found `{}`", tokens(b))),
    }
}

fn block_of(e: &syn::Expr) -> Vec<syn::Stmt> {
    match e {
        syn::Expr::Block(b) => b.block.stmts.clone(),
        other => vec![syn::Stmt::Expr(other.clone(), None)],
    }
}

fn common(file: &syn::File, s: &mut String) -> Res<()> {
    // ---- OpensslInner::new
    let f = find_fn(file, "OpensslInner", None, "new")?;
    let syn::Expr::Struct(lit) = single_expr(&f.block, "OpensslInner::new")? else {
        return Err("OpensslInner::new: not a struct literal".into());
    };
    let (mut w, mut h) = (None, None);
    for fv in &lit.fields {
        let name = sq(&fv.member);
        let val = sq(&fv.expr);
        match (name.as_str(), val.as_str()) {
            ("inner", "inner") => {}
            ("written", "true") => w = Some(true),
            ("written", "false") => w = Some(false),
            ("handshaken", "true") => h = Some(true),
            ("handshaken", "false") => h = Some(false),
            _ => return Err(format!("OpensslInner::new: unrecognised field `{name}: {val}`")),
        }
    }
    let (w, h) = (w.ok_or("OpensslInner::new: no written")?, h.ok_or("OpensslInner::new: no handshaken")?);
    writeln!(s, "/-- `OpensslInner::new` -/\ndef new : Flags := {{ written := {w}, handshaken := {h} }}\n").unwrap();

    // ---- AllowStd::finish_handshake
    let f = find_fn(file, "AllowStd", None, "finish_handshake")?;
    let a = assigns(&f.block.stmts, &["self.inner."])?;
    if a.is_empty() {
        return Err("AllowStd::finish_handshake assigns nothing".into());
    }
    writeln!(s, "/-- `AllowStd::finish_handshake` -/\ndef finishHandshake (f : Flags) : Flags := {}\n", with_fields(&a)).unwrap();

    // ---- OpensslInner::poll_read
    let f = find_fn(file, "OpensslInner", Some("AsyncRead"), "poll_read")?;
    let syn::Expr::Loop(lp) = single_expr(&f.block, "OpensslInner::poll_read")? else {
        return Err("OpensslInner::poll_read: body is not a single `loop`".into());
    };
    let st = &lp.body.stmts;
    if st.len() != 2 || sq(&st[0]) != "letthis=self.as_mut().project();" {
        return Err(format!("OpensslInner::poll_read: loop body is not `let this = self.as_mut().project(); if ..`: {}", tokens(&lp.body)));
    }
    let syn::Stmt::Expr(syn::Expr::If(iff), _) = &st[1] else {
        return Err("OpensslInner::poll_read: second loop statement is not an `if`".into());
    };
    let guard = cond(&iff.cond)?;
    let syn::Expr::Match(m) = single_expr(&iff.then_branch, "OpensslInner::poll_read then-branch")? else {
        return Err("OpensslInner::poll_read: then-branch is not a `match`".into());
    };
    if sq(&*m.expr) != "this.inner.poll_flush(cx)" {
        return Err(format!("OpensslInner::poll_read: the match is not on this.inner.poll_flush(cx): {}", tokens(&*m.expr)));
    }
    let (mut ap, mut ao, mut ae) = (None, None, None);
    for arm in &m.arms {
        if arm.guard.is_some() {
            return Err("OpensslInner::poll_read: guarded arm".into());
        }
        let body = block_of(&arm.body);
        let body_s = body.iter().map(sq).collect::<String>();
        match sq(&arm.pat).as_str() {
            "Poll::Pending" => {
                if body_s != "breakPoll::Pending" {
                    return Err(format!("poll_read: Pending arm is not `break Poll::Pending`: {body_s}"));
                }
                ap = Some("(f, s, some (.pending p))".to_string());
            }
            "Poll::Ready(Ok(()))" => {
                let a = assigns(&body, &["*this."])?;
                ao = Some(format!("pollRead flush read n {} s", with_fields(&a)));
            }
            "Poll::Ready(Err(e))" => {
                if body_s != "breakPoll::Ready(Err(e))" {
                    return Err(format!("poll_read: Err arm is not `break Poll::Ready(Err(e))`: {body_s}"));
                }
                ae = Some("(f, s, some .err)".to_string());
            }
            o => return Err(format!("OpensslInner::poll_read: unrecognised arm pattern {o}")),
        }
    }
    let (ap, ao, ae) = (ap.ok_or("poll_read: no Pending arm")?, ao.ok_or("poll_read: no Ready(Ok) arm")?, ae.ok_or("poll_read: no Ready(Err) arm")?);
    let els = iff.else_branch.as_ref().ok_or("OpensslInner::poll_read: no else branch")?;
    let els_s = block_of(&els.1).iter().map(sq).collect::<String>();
    if els_s != "breakthis.inner.poll_read(cx,buf);" && els_s != "breakthis.inner.poll_read(cx,buf)" {
        return Err(format!("OpensslInner::poll_read: else branch is not `break this.inner.poll_read(cx, buf)`: {els_s}"));
    }
    writeln!(
        s,
        "/-- `OpensslInner::poll_read`: the `loop` (one unit of fuel per iteration; `none` = out of fuel).\n`flush` / `read` are `inner.poll_flush(cx)` / `inner.poll_read(cx, buf)` on the inner stream state `σ`. -/\n\
def pollRead {{σ ε α : Type}} (flush : σ → σ × P ε Unit) (read : σ → σ × P ε α) :\n    Nat → Flags → σ → Flags × σ × Option (P ε α)\n  | 0, f, s => (f, s, none)\n  | n + 1, f, s =>\n    if {guard} then\n      match flush s with\n      | (s, .pending p) => {ap}\n      | (s, .ready ()) => {ao}\n      | (s, .err) => {ae}\n    else\n      match read s with\n      | (s, r) => (f, s, some r)\n"
    )
    .unwrap();

    // ---- OpensslInner::poll_write
    let f = find_fn(file, "OpensslInner", Some("AsyncWrite"), "poll_write")?;
    let st = &f.block.stmts;
    if st.len() != 4
        || sq(&st[0]) != "letthis=self.as_mut().project();"
        || sq(&st[1]) != "letres=this.inner.poll_write(cx,buf);"
        || sq(&st[3]) != "res"
    {
        return Err(format!("OpensslInner::poll_write: unrecognised body {}", tokens(&f.block)));
    }
    let syn::Stmt::Expr(syn::Expr::If(iff), _) = &st[2] else {
        return Err("OpensslInner::poll_write: third statement is not an `if let`".into());
    };
    if sq(&*iff.cond) != "letPoll::Ready(Ok(_))=&res" || iff.else_branch.is_some() {
        return Err(format!("OpensslInner::poll_write: not `if let Poll::Ready(Ok(_)) = &res {{..}}`: {}", tokens(&*iff.cond)));
    }
    let a = assigns(&iff.then_branch.stmts, &["*this."])?;
    writeln!(
        s,
        "/-- `OpensslInner::poll_write` -/\ndef pollWrite {{σ ε α : Type}} (write : σ → σ × P ε α) (f : Flags) (s : σ) : Flags × σ × P ε α :=\n  match write s with\n  | (s, .ready a) => ({}, s, .ready a)\n  | (s, r) => (f, s, r)\n",
        with_fields(&a)
    )
    .unwrap();

    // ---- OpensslInner::poll_flush
    let f = find_fn(file, "OpensslInner", Some("AsyncWrite"), "poll_flush")?;
    let syn::Expr::If(iff) = single_expr(&f.block, "OpensslInner::poll_flush")? else {
        return Err("OpensslInner::poll_flush: body is not a single `if`".into());
    };
    let guard = cond(&iff.cond)?;
    let branch = |stmts: &[syn::Stmt]| -> Res<&'static str> {
        match stmts.iter().map(sq).collect::<String>().as_str() {
            "self.project().inner.poll_flush(cx)" => Ok("match flush s with\n    | (s, r) => (f, s, r)"),
            "Poll::Ready(Ok(()))" => Ok("(f, s, .ready ())"),
            o => Err(format!("OpensslInner::poll_flush: unrecognised branch {o}")),
        }
    };
    let t = branch(&iff.then_branch.stmts)?;
    let els = iff.else_branch.as_ref().ok_or("OpensslInner::poll_flush: no else branch")?;
    let e = branch(&block_of(&els.1))?;
    writeln!(
        s,
        "/-- `OpensslInner::poll_flush` -/\ndef pollFlush {{σ ε : Type}} (flush : σ → σ × P ε Unit) (f : Flags) (s : σ) : Flags × σ × P ε Unit :=\n  if {guard} then\n    {t}\n  else\n    {e}\n"
    )
    .unwrap();

    // ---- OpensslInner::poll_close
    let f = find_fn(file, "OpensslInner", Some("AsyncWrite"), "poll_close")?;
    if sq(&single_expr(&f.block, "OpensslInner::poll_close")?) != "self.project().inner.poll_close(cx)" {
        return Err("OpensslInner::poll_close is not a pure delegation".into());
    }
    writeln!(s, "/-- `OpensslInner::poll_close` is `inner.poll_close(cx)` and nothing else -/\ndef pollCloseDelegates : Bool := true\n").unwrap();

    // ---- AllowStd::with_context
    let f = find_fn(file, "AllowStd", None, "with_context")?;
    let syn::Expr::Unsafe(un) = single_expr(&f.block, "AllowStd::with_context")? else {
        return Err("AllowStd::with_context: body is not one unsafe block".into());
    };
    let st = &un.block.stmts;
    if st.len() != 3 || sq(&st[0]) != "assert!(!self.context.is_null());" || sq(&st[1]) != "letwaker=&mut*(self.contextas*mut_);" {
        return Err(format!("AllowStd::with_context: unrecognised statements {}", tokens(&un.block)));
    }
    let syn::Stmt::Expr(syn::Expr::Match(m), _) = &st[2] else {
        return Err("AllowStd::with_context: last statement is not a match".into());
    };
    if sq(&*m.expr) != "f(waker,Pin::new(&mutself.inner))" {
        return Err(format!("AllowStd::with_context: match scrutinee {}", tokens(&*m.expr)));
    }
    let (mut ready, mut kind) = (false, None);
    for arm in &m.arms {
        match (sq(&arm.pat).as_str(), sq(&*arm.body)) {
            ("Poll::Ready(r)", b) if b == "r" && arm.guard.is_none() => ready = true,
            ("Poll::Pending", b) if arm.guard.is_none() => {
                let k = b
                    .strip_prefix("Err(io::Error::from(io::ErrorKind::")
                    .and_then(|r| r.strip_suffix("))"))
                    .ok_or(format!("AllowStd::with_context: Pending arm is not Err(io::Error::from(io::ErrorKind::K)): {b}"))?;
                if !k.chars().all(|c| c.is_ascii_alphanumeric()) {
                    return Err(format!("odd error kind {k}"));
                }
                kind = Some(k.to_string());
            }
            (p, b) => return Err(format!("AllowStd::with_context: unrecognised arm {p} => {b}")),
        }
    }
    let kind = kind.ok_or("AllowStd::with_context: no Pending arm")?;
    if !ready || m.arms.len() != 2 {
        return Err("AllowStd::with_context: expected exactly the arms Ready(r) => r and Pending => Err(..)".into());
    }
    let pend = if kind == "WouldBlock" { ".wouldBlock p" } else { ".err" };
    writeln!(
        s,
        "/-- the `io::ErrorKind` that `AllowStd::with_context` returns for `Poll::Pending` -/\ndef pendingKind : String := \"{kind}\"\n\n\
/-- the match of `AllowStd::with_context` on the poll result -/\ndef stdOf {{ε α : Type}} : P ε α → Std ε α\n  | .ready a => .ok a\n  | .pending p => {pend}\n  | .err => .err\n\n\
/-- `AllowStd::with_context`: `assert!(!self.context.is_null())` comes first (`idle` = the untouched state), then the poll -/\n\
def withContext {{τ ε α : Type}} (ctxNonNull : Bool) (idle : τ) (run : Unit → τ × P ε α) : τ × Std ε α :=\n  if !ctxNonNull then (idle, .panic)\n  else match run () with\n    | (t, r) => (t, stdOf r)\n"
    )
    .unwrap();

    // ---- impl Read / Write for AllowStd
    for (tr, name, lean, want) in [
        ("Read", "read", "stdRead", "poll_read(ctx,buf)"),
        ("Write", "write", "stdWrite", "poll_write(ctx,buf)"),
        ("Write", "flush", "stdFlush", "poll_flush(ctx)"),
    ] {
        let f = find_fn(file, "AllowStd", Some(tr), name)?;
        let body = sq(&single_expr(&f.block, name)?);
        let call = body
            .strip_prefix("self.with_context(|ctx,stream|stream.")
            .and_then(|r| r.strip_suffix(")"))
            .ok_or(format!("AllowStd::{name}: not self.with_context(|ctx, stream| stream.poll_..): {body}"))?;
        let op = match call {
            "poll_read(ctx,buf)" => "pollRead",
            "poll_write(ctx,buf)" => "pollWrite",
            "poll_flush(ctx)" => "pollFlush",
            "poll_close(ctx)" => "pollClose",
            o => return Err(format!("AllowStd::{name}: unrecognised inner call {o}")),
        };
        let _ = want;
        writeln!(s, "/-- `AllowStd::{name}` polls -/\ndef {lean} : InnerOp := .{op}").unwrap();
    }
    s.push('\n');
    Ok(())
}

fn native(file: &syn::File, s: &mut String) -> Res<()> {
    // ---- TlsStream::with_context
    let f = find_fn(file, "TlsStream", None, "with_context")?;
    let st = &f.block.stmts;
    if st.len() != 3 || sq(&st[0]) != "self.0.get_mut().set_context(ctx);" || sq(&st[1]) != "letg=Guard(self);" {
        return Err(format!("native TlsStream::with_context: unrecognised statements {}", tokens(&f.block)));
    }
    let syn::Stmt::Expr(syn::Expr::Match(m), _) = &st[2] else {
        return Err("native TlsStream::with_context: last statement is not a match".into());
    };
    if sq(&*m.expr) != "f(&mut(g.0).0)" {
        return Err(format!("native TlsStream::with_context: scrutinee {}", tokens(&*m.expr)));
    }
    let arms: Vec<String> = m
        .arms
        .iter()
        .map(|a| format!("{}|{}|{}", sq(&a.pat), a.guard.as_ref().map(|g| sq(&*g.1)).unwrap_or_default(), sq(&*a.body)))
        .collect();
    let want = ["Ok(v)||Poll::Ready(Ok(v))", "Err(refe)|e.kind()==io::ErrorKind::WouldBlock|Poll::Pending", "Err(e)||Poll::Ready(Err(e))"];
    if arms != want {
        return Err(format!("native TlsStream::with_context: arms {arms:?}, expected {want:?}"));
    }
    // ---- Drop for Guard
    let f = find_fn(file, "Guard", Some("Drop"), "drop")?;
    if f.block.stmts.iter().map(sq).collect::<String>() != "(self.0).0.get_mut().clear_context();" {
        return Err("Drop for Guard is not `(self.0).0.get_mut().clear_context();`".into());
    }
    writeln!(
        s,
        "/-- `native::TlsStream::with_context`: `set_context(ctx)`, then the engine call under a `Guard` whose `drop` is\n`clear_context()`, then this match on its result -/\n\
def pollOf {{ε α : Type}} : Std ε α → Outer ε α\n  | .ok a => .ready a\n  | .wouldBlock p => .pending p\n  | .err => .err\n  | .panic => .panic\n\n\
def outerSetsContextFirst : Bool := true\ndef guardClearsContext : Bool := true\n"
    )
    .unwrap();

    // ---- poll_* of native TlsStream
    for (tr, name, lean) in [
        ("AsyncRead", "poll_read", "tlsPollRead"),
        ("AsyncWrite", "poll_write", "tlsPollWrite"),
        ("AsyncWrite", "poll_flush", "tlsPollFlush"),
        ("AsyncWrite", "poll_close", "tlsPollClose"),
    ] {
        let f = find_fn(file, "TlsStream", Some(tr), name)?;
        let body = sq(&single_expr(&f.block, name)?);
        let call = body
            .strip_prefix("self.with_context(ctx,|s|s.")
            .and_then(|r| r.strip_suffix(")"))
            .ok_or(format!("native TlsStream::{name}: not self.with_context(ctx, |s| s.op(..)): {body}"))?;
        let op = match call {
            "read(buf)" => "read",
            "write(buf)" => "write",
            "flush()" => "flush",
            "shutdown()" => "shutdown",
            o => return Err(format!("native TlsStream::{name}: unrecognised engine call {o}")),
        };
        writeln!(s, "/-- `native::TlsStream::{name}` runs, inside `with_context`, the engine's -/\ndef {lean} : EngineOp := .{op}").unwrap();
    }
    s.push('\n');

    // ---- async fn handshake
    let mut hs = None;
    for it in &file.items {
        if let syn::Item::Fn(f) = it {
            if f.sig.ident == "handshake" {
                hs = Some(f);
            }
        }
    }
    let hs = hs.ok_or("native.rs: fn handshake not found")?;
    let st = &hs.block.stmts;
    if st.len() != 2 || sq(&st[0]) != "letstart=StartedHandshakeFuture(Some(StartedHandshakeFutureInner{f,stream}));" {
        return Err(format!("native handshake(): unrecognised statements {}", tokens(&hs.block)));
    }
    let syn::Stmt::Expr(syn::Expr::Match(m), _) = &st[1] else {
        return Err("native handshake(): second statement is not a match".into());
    };
    if sq(&*m.expr) != "start.await" {
        return Err("native handshake(): the match is not on start.await".into());
    }
    let steps = |body: &syn::Expr, var: &str| -> Res<Vec<&'static str>> {
        let stmts = block_of(body);
        let mut v = vec![];
        let n = stmts.len();
        for (i, st) in stmts.iter().enumerate() {
            let t = sq(st);
            if i + 1 == n {
                if t != format!("Ok({var})") {
                    return Err(format!("native handshake(): arm does not end in Ok({var}): {t}"));
                }
            } else if t == "letmutstream=MidHandshake(Some(s)).await.map_err(io::Error::other)?;" {
                v.push("midHandshake");
            } else if t == "stream.get_mut().get_mut().finish_handshake();" {
                v.push("finishHandshake");
            } else if t == "stream.flush().await?;" {
                v.push("flush");
            } else {
                return Err(format!("native handshake(): unrecognised statement `{}`", tokens(st)));
            }
        }
        Ok(v)
    };
    let (mut done, mut mid, mut err) = (None, None, false);
    for arm in &m.arms {
        if arm.guard.is_some() {
            return Err("native handshake(): guarded arm".into());
        }
        match sq(&arm.pat).as_str() {
            "Err(e)" if sq(&*arm.body) == "Err(io::Error::other(e))" => err = true,
            "Ok(StartedHandshake::Done(s))" => done = Some(steps(&arm.body, "s")?),
            "Ok(StartedHandshake::Mid(s))" => mid = Some(steps(&arm.body, "stream")?),
            o => return Err(format!("native handshake(): unrecognised arm {o}")),
        }
    }
    let (done, mid) = (done.ok_or("handshake(): no Done arm")?, mid.ok_or("handshake(): no Mid arm")?);
    if !err || m.arms.len() != 3 {
        return Err("native handshake(): expected the arms Err / Done / Mid".into());
    }
    let lit = |v: &[&str]| v.iter().map(|k| format!(".{k}")).collect::<Vec<_>>().join(", ");
    writeln!(
        s,
        "/-- `handshake()`: what happens, in source order, before `Ok(stream)` when the first engine call finished the handshake -/\ndef handshakeDoneSteps : List HsStep := [{}]\n\n\
/-- … and when it returned `WouldBlock` (`StartedHandshake::Mid`) -/\ndef handshakeMidSteps : List HsStep := [{}]\n",
        lit(&done),
        lit(&mid)
    )
    .unwrap();

    // ---- connect / accept are nothing but handshake(..).await (both roles share the driver)
    for (ty, name, want) in [
        ("TlsConnector", "connect", "handshake(move|s|self.0.connect(domain,s),stream).await"),
        ("TlsAcceptor", "accept", "handshake(move|s|self.0.accept(s),stream).await"),
    ] {
        let f = find_fn(file, ty, None, name)?;
        let body = sq(&single_expr(&f.block, name)?);
        if body != want {
            return Err(format!("native {ty}::{name} is not just `{want}`: {body}"));
        }
    }
    writeln!(s, "/-- `TlsConnector::connect` and `TlsAcceptor::accept` are `handshake(..).await` and nothing else -/\ndef bothRolesShareHandshake : Bool := true\n").unwrap();

    // ---- StartedHandshakeFuture::poll / MidHandshake::poll : the match arms
    for (ty, scrut, lean, store) in [
        ("StartedHandshakeFuture", "(inner.f)(stream)", "startedArms", false),
        ("MidHandshake", "s.handshake()", "midArms", true),
    ] {
        let f = find_fn(file, ty, Some("Future"), "poll")?;
        let Some(syn::Stmt::Expr(syn::Expr::Match(m), _)) = f.block.stmts.last() else {
            return Err(format!("native {ty}::poll: does not end in a match"));
        };
        if sq(&*m.expr) != scrut {
            return Err(format!("native {ty}::poll: match scrutinee {}", tokens(&*m.expr)));
        }
        if store {
            let pre: String = f.block.stmts[..f.block.stmts.len() - 1].iter().map(sq).collect();
            if pre != "letmut_self=self.get_mut();letmuts=mut_self.0.take().expect(\"futurepolledaftercompletion\");s.get_mut().set_context(cx);" {
                return Err(format!("native MidHandshake::poll: unrecognised prologue {pre}"));
            }
        } else {
            let pre: String = f.block.stmts[..f.block.stmts.len() - 1].iter().map(sq).collect();
            if pre != "letinner=self.0.take().expect(\"futurepolledaftercompletion\");letstream=AllowStd::new(inner.stream,ctx);" {
                return Err(format!("native StartedHandshakeFuture::poll: unrecognised prologue {pre}"));
            }
        }
        let mut out = vec![];
        for arm in &m.arms {
            let body: String = block_of(&arm.body).iter().map(sq).collect();
            let k = match (sq(&arm.pat).as_str(), body.as_str()) {
                ("Ok(muts)", "s.get_mut().clear_context();Poll::Ready(Ok(StartedHandshake::Done(TlsStream(s))))") if !store => "okDone",
                ("Ok(muts)", "s.get_mut().clear_context();Poll::Ready(Ok(TlsStream(s)))") if store => "okDone",
                ("Err(HandshakeError::WouldBlock(muts))", "s.get_mut().clear_context();Poll::Ready(Ok(StartedHandshake::Mid(s)))") if !store => "wouldBlockMid",
                ("Err(HandshakeError::WouldBlock(muts))", "s.get_mut().clear_context();mut_self.0=Some(s);Poll::Pending") if store => "wouldBlockPending",
                ("Err(HandshakeError::Failure(e))", "Poll::Ready(Err(e))") => "failure",
                (p, b) => return Err(format!("native {ty}::poll: unrecognised arm {p} => {b}")),
            };
            out.push(k);
        }
        writeln!(s, "/-- arms of the match in `{ty}::poll` (each non-failure arm clears the context first) -/\ndef {lean} : List HsArm := [{}]", lit(&out)).unwrap();
    }
    s.push('\n');
    Ok(())
}

pub fn generate(repo: &Path) -> Res<String> {
    let rc = "compio-tls/src/compat/common.rs";
    let rn = "compio-tls/src/compat/native.rs";
    let fc = parse_file(&repo.join(rc))?;
    let fnat = parse_file(&repo.join(rn))?;
    let mut s = header("TlsCompat", &[rc, rn]);
    s.push_str("namespace Compio.Gen.TlsCompat\n\n");
    s.push_str(
        "/-- result of polling the inner stream (`Poll<io::Result<α>>`; `ε` = how the wake-up was arranged) -/\ninductive P (ε α : Type) where\n  | pending (p : ε)\n  | ready (a : α)\n  | err\n  deriving Repr\n\n\
/-- result of a std-style call through `AllowStd` -/\ninductive Std (ε α : Type) where\n  | ok (a : α)\n  | wouldBlock (p : ε)\n  | err\n  | panic\n  deriving Repr\n\n\
/-- result of a poll of `native::TlsStream` -/\ninductive Outer (ε α : Type) where\n  | pending (p : ε)\n  | ready (a : α)\n  | err\n  | panic\n  deriving Repr\n\n\
/-- the two flags of `OpensslInner` -/\nstructure Flags where\n  written : Bool\n  handshaken : Bool\n  deriving Repr, DecidableEq\n\n\
inductive InnerOp where\n  | pollRead | pollWrite | pollFlush | pollClose\n  deriving Repr, DecidableEq\n\n\
inductive EngineOp where\n  | read | write | flush | shutdown\n  deriving Repr, DecidableEq\n\n\
inductive HsStep where\n  | midHandshake | finishHandshake | flush\n  deriving Repr, DecidableEq\n\n\
inductive HsArm where\n  | okDone | wouldBlockMid | wouldBlockPending | failure\n  deriving Repr, DecidableEq\n\n",
    );
    common(&fc, &mut s)?;
    native(&fnat, &mut s)?;
    s.push_str("end Compio.Gen.TlsCompat\n");
    Ok(s)
}
