//! compio-driver/src/fd.rs (`SharedFd`: `new_unchecked`, `try_unwrap`, `take`, `Drop`, `Clone`),
//! compio-fs/src/file.rs `File::close`, compio-net/src/socket/mod.rs `Socket::close`  ->  Gen/SharedFdProto.lean
//!
//! The C06 hand model (Model/SharedFd.lean) restates from these sources
//!   * the wake test of `Drop for SharedFd`: `if Shared::strong_count(&self.0) == N && self.0.waits.load(..) { self.0.waker.wake() }`
//!     (the constant N, the two conjuncts, the single action, nothing after it);
//!   * `take()`: `let inner = self.into_inner();` BEFORE the `async move` (the future captures the raw `Shared`, so
//!     dropping it never runs `Drop for SharedFd`), `if !inner.waits.swap(V, ..) { poll loop } else { None }`, and the
//!     statements of the `poll_fn` closure in source order (`try_unwrap`-or-return, `register`, `try_unwrap`-or-park);
//!   * `new_unchecked`: `waits: AtomicBool::new(V0)`; `try_unwrap`: failure re-wraps into `Self` (no raw drop);
//!     `Clone`: `Self(self.0.clone())`;
//!   * `File::close` / `Socket::close`: `let this = ManuallyDrop::new(self); async move { let fd = ManuallyDrop::into_inner(this)
//!     .<field>.into_inner().take().await; if let Some(fd) = fd { close op } Ok(()) }`.
//! Each is rendered as a Lean literal / function; the theorems `gen_*` of Props/C06.lean are stated over them.
//! Fails closed: any other shape of these bodies is an error. The ORDER and MULTIPLICITY of the recognised poll-closure
//! statements is not checked here — it is data in the generated list, and the proofs depend on it.

use std::{fmt::Write as _, path::Path};

use crate::{Res, header, parse_file, tokens};

fn squash(s: &str) -> String {
    s.chars().filter(|c| !c.is_whitespace()).collect()
}

fn sq<T: quote::ToTokens>(t: &T) -> String {
    squash(&tokens(t))
}

fn self_ty_is(imp: &syn::ItemImpl, name: &str) -> bool {
    let t = sq(&*imp.self_ty);
    t == name || t.starts_with(&format!("{name}<"))
}

/// all fns called `name` in impls for type `ty` whose trait is `tr` (None = inherent impl)
fn find_fns<'a>(file: &'a syn::File, ty: &str, tr: Option<&str>, name: &str) -> Vec<&'a syn::ImplItemFn> {
    let mut v = vec![];
    for item in &file.items {
        let syn::Item::Impl(imp) = item else { continue };
        if !self_ty_is(imp, ty) {
            continue;
        }
        let this_tr = imp.trait_.as_ref().map(|(_, p, _)| sq(p));
        match (tr, this_tr) {
            (None, None) => {}
            (Some(a), Some(b)) if a == b => {}
            _ => continue,
        }
        for it in &imp.items {
            if let syn::ImplItem::Fn(f) = it {
                if f.sig.ident == name {
                    v.push(f);
                }
            }
        }
    }
    v
}

fn one<'a>(v: Vec<&'a syn::ImplItemFn>, what: &str) -> Res<&'a syn::ImplItemFn> {
    if v.len() != 1 {
        return Err(format!("{what}: expected exactly one definition, found {}", v.len()));
    }
    Ok(v[0])
}

fn bool_lit(e: &syn::Expr, what: &str) -> Res<bool> {
    match e {
        syn::Expr::Lit(syn::ExprLit { lit: syn::Lit::Bool(b), .. }) => Ok(b.value),
        _ => Err(format!("{what}: expected a bool literal, found `{}`", tokens(e))),
    }
}

fn strip_paren(e: &syn::Expr) -> &syn::Expr {
    match e {
        syn::Expr::Paren(p) => strip_paren(&p.expr),
        _ => e,
    }
}

/// `impl Drop for SharedFd`: returns N of `strong_count == N`
fn drop_fact(file: &syn::File) -> Res<u64> {
    let f = one(find_fns(file, "SharedFd", Some("Drop"), "drop"), "Drop for SharedFd")?;
    if f.block.stmts.len() != 1 {
        return Err(format!("Drop for SharedFd: expected one `if`, found {} statements", f.block.stmts.len()));
    }
    let syn::Stmt::Expr(syn::Expr::If(iff), _) = &f.block.stmts[0] else {
        return Err(format!("Drop for SharedFd: body is not an `if`: {}", tokens(&f.block.stmts[0])));
    };
    if iff.else_branch.is_some() {
        return Err("Drop for SharedFd: the wake test has an else branch".into());
    }
    let syn::Expr::Binary(and) = strip_paren(&iff.cond) else {
        return Err(format!("Drop for SharedFd: condition is not `a && b`: {}", tokens(&*iff.cond)));
    };
    if !matches!(and.op, syn::BinOp::And(_)) {
        return Err(format!("Drop for SharedFd: condition is not a conjunction: {}", tokens(&*iff.cond)));
    }
    let syn::Expr::Binary(eq) = strip_paren(&and.left) else {
        return Err(format!("Drop for SharedFd: first conjunct is not a comparison: {}", tokens(&*and.left)));
    };
    if !matches!(eq.op, syn::BinOp::Eq(_)) || sq(&*eq.left) != "Shared::strong_count(&self.0)" {
        return Err(format!("Drop for SharedFd: first conjunct is not `Shared::strong_count(&self.0) == N`: {}", tokens(eq)));
    }
    let n = match strip_paren(&eq.right) {
        syn::Expr::Lit(syn::ExprLit { lit: syn::Lit::Int(i), .. }) => i.base10_parse::<u64>().map_err(|e| e.to_string())?,
        o => return Err(format!("Drop for SharedFd: compared with a non-literal `{}`", tokens(o))),
    };
    let r = sq(&*and.right);
    if !(r.starts_with("self.0.waits.load(Ordering::") && r.ends_with(')')) {
        return Err(format!("Drop for SharedFd: second conjunct is not `self.0.waits.load(..)`: {r}"));
    }
    let then = sq(&iff.then_branch);
    if then != "{self.0.waker.wake()}" && then != "{self.0.waker.wake();}" {
        return Err(format!("Drop for SharedFd: guarded block is not `self.0.waker.wake()`: {then}"));
    }
    Ok(n)
}

struct TakeFacts {
    swap_stores: bool,
    wins_when_swap_returned: bool,
    steps: Vec<&'static str>,
}

fn classify_poll_stmt(st: &syn::Stmt) -> Res<&'static str> {
    let t = sq(st);
    let t = t.trim_end_matches(';').to_string();
    let strip_commas = |s: &str| s.replace(",}", "}");
    let t = strip_commas(&t);
    Ok(match t.as_str() {
        "leti=inner.take().unwrap()" => "takeSlot",
        "letthis=matchShared::try_unwrap(i){Ok(fd)=>returnPoll::Ready(Some(fd.fd)),Err(this)=>this}" => "tryUnwrapReturn",
        "this.waker.register(cx.waker())" => "register",
        "matchShared::try_unwrap(this){Ok(fd)=>Poll::Ready(Some(fd.fd)),Err(tt)=>{inner=Some(tt);Poll::Pending}}" => "tryUnwrapOrPark",
        _ => return Err(format!("SharedFd::take: unrecognised statement in the poll_fn closure: `{}`", tokens(st))),
    })
}

fn take_facts(file: &syn::File) -> Res<TakeFacts> {
    let f = one(find_fns(file, "SharedFd", None, "take"), "SharedFd::take")?;
    let st = &f.block.stmts;
    if st.len() != 2 || sq(&st[0]) != "letinner=self.into_inner();" {
        return Err("SharedFd::take: expected `let inner = self.into_inner();` followed by one `async move` block".into());
    }
    let syn::Stmt::Expr(syn::Expr::Async(asy), None) = &st[1] else {
        return Err(format!("SharedFd::take: second statement is not a trailing `async move` block: {}", tokens(&st[1])));
    };
    if asy.capture.is_none() || asy.block.stmts.len() != 1 {
        return Err("SharedFd::take: async block is not `async move { if .. }`".into());
    }
    let syn::Stmt::Expr(syn::Expr::If(iff), None) = &asy.block.stmts[0] else {
        return Err("SharedFd::take: async block does not consist of one `if .. else ..` expression".into());
    };
    let (negated, call) = match strip_paren(&iff.cond) {
        syn::Expr::Unary(u) if matches!(u.op, syn::UnOp::Not(_)) => (true, strip_paren(&u.expr)),
        e => (false, e),
    };
    let syn::Expr::MethodCall(mc) = call else {
        return Err(format!("SharedFd::take: condition is not `[!]inner.waits.swap(..)`: {}", tokens(&*iff.cond)));
    };
    if mc.method != "swap" || sq(&*mc.receiver) != "inner.waits" || mc.args.len() != 2 {
        return Err(format!("SharedFd::take: condition is not `[!]inner.waits.swap(v, order)`: {}", tokens(&*iff.cond)));
    }
    let swap_stores = bool_lit(&mc.args[0], "SharedFd::take: swap value")?;
    // else branch: `{ None }`
    let Some((_, els)) = &iff.else_branch else {
        return Err("SharedFd::take: `if` without else".into());
    };
    if sq(&**els) != "{None}" {
        return Err(format!("SharedFd::take: else branch is not `{{ None }}`: {}", tokens(&**els)));
    }
    let tb = &iff.then_branch.stmts;
    if tb.len() != 2 || sq(&tb[0]) != "letmutinner=Some(inner);" {
        return Err("SharedFd::take: then branch is not `let mut inner = Some(inner); poll_fn(..).await`".into());
    }
    let syn::Stmt::Expr(syn::Expr::Await(aw), None) = &tb[1] else {
        return Err("SharedFd::take: then branch does not end in `poll_fn(..).await`".into());
    };
    let syn::Expr::Call(call) = &*aw.base else {
        return Err("SharedFd::take: awaited expression is not a call".into());
    };
    if sq(&*call.func) != "poll_fn" || call.args.len() != 1 {
        return Err("SharedFd::take: awaited expression is not `poll_fn(closure)`".into());
    }
    let syn::Expr::Closure(cl) = &call.args[0] else {
        return Err("SharedFd::take: poll_fn argument is not a closure".into());
    };
    if cl.capture.is_none() || sq(&cl.inputs) != "cx" {
        return Err("SharedFd::take: poll_fn closure is not `move |cx| ..`".into());
    }
    let syn::Expr::Block(b) = &*cl.body else {
        return Err("SharedFd::take: poll_fn closure body is not a block".into());
    };
    let mut steps = vec![];
    for s in &b.block.stmts {
        steps.push(classify_poll_stmt(s)?);
    }
    Ok(TakeFacts { swap_stores, wins_when_swap_returned: !negated, steps })
}

fn init_waits(file: &syn::File) -> Res<bool> {
    let f = one(find_fns(file, "SharedFd", None, "new_unchecked"), "SharedFd::new_unchecked")?;
    let t = sq(&f.block);
    let pre = "{Self(Shared::new(Inner{fd,waits:AtomicBool::new(";
    let Some(rest) = t.strip_prefix(pre) else {
        return Err(format!("SharedFd::new_unchecked: unrecognised body {t}"));
    };
    for (lit, v) in [("true", true), ("false", false)] {
        if let Some(r) = rest.strip_prefix(lit) {
            if r == "),waker:WakerSlot::new(),}))}" || r == "),waker:WakerSlot::new()}))}" {
                return Ok(v);
            }
        }
    }
    Err(format!("SharedFd::new_unchecked: unrecognised body {t}"))
}

fn check_simple_bodies(file: &syn::File) -> Res<()> {
    let f = one(find_fns(file, "SharedFd", None, "try_unwrap"), "SharedFd::try_unwrap")?;
    let t = sq(&f.block);
    if t != "{letinner=self.into_inner();Shared::try_unwrap(inner).map(|t|t.fd).map_err(|i|Self(i))}" {
        return Err(format!("SharedFd::try_unwrap: unrecognised body {t}"));
    }
    let f = one(find_fns(file, "SharedFd", Some("Clone"), "clone"), "Clone for SharedFd")?;
    let t = sq(&f.block);
    if t != "{Self(self.0.clone())}" {
        return Err(format!("Clone for SharedFd: unrecognised body {t}"));
    }
    let f = one(find_fns(file, "SharedFd", None, "into_inner"), "SharedFd::into_inner")?;
    let t = sq(&f.block);
    if t != "{letthis=ManuallyDrop::new(self);unsafe{ptr::read(&this.0)}}" {
        return Err(format!("SharedFd::into_inner: unrecognised body {t}"));
    }
    Ok(())
}

/// `close(self)` of `File` / `Socket`: returns the capture mode ("manuallyDrop")
fn close_fact(repo: &Path, rel: &str, ty: &str, field: &str, op: &str) -> Res<&'static str> {
    let file = parse_file(&repo.join(rel))?;
    let f = one(find_fns(&file, ty, None, "close"), &format!("{ty}::close"))?;
    let t = sq(&f.block);
    let want = format!(
        "{{letthis=ManuallyDrop::new(self);asyncmove{{letfd=ManuallyDrop::into_inner(this).{field}.into_inner().take().await;\
         ifletSome(fd)=fd{{letop={op}::new(fd.into());compio_runtime::submit(op).await.0?;}}Ok(())}}}}"
    );
    if t == want {
        Ok("manuallyDrop")
    } else {
        Err(format!("{ty}::close ({rel}): unrecognised body {t}"))
    }
}

pub fn generate(repo: &Path) -> Res<String> {
    let rel = "compio-driver/src/fd.rs";
    let rel_file = "compio-fs/src/file.rs";
    let rel_sock = "compio-net/src/socket/mod.rs";
    let file = parse_file(&repo.join(rel))?;
    let n = drop_fact(&file)?;
    let tk = take_facts(&file)?;
    let w0 = init_waits(&file)?;
    check_simple_bodies(&file)?;
    let fc = close_fact(repo, rel_file, "File", "inner", "CloseFile")?;
    let sc = close_fact(repo, rel_sock, "Socket", "socket", "CloseSocket")?;

    let mut s = header("SharedFdProto", &[rel, rel_file, rel_sock]);
    s.push_str("namespace Compio.Gen.SharedFdProto\n\n");
    writeln!(s, "/-- `new_unchecked`: `waits: AtomicBool::new(..)` -/\ndef initWaits : Bool := {w0}\n").unwrap();
    writeln!(s, "/-- `Drop for SharedFd`: the constant of `Shared::strong_count(&self.0) == N` -/\ndef dropWakeCount : Nat := {n}\n").unwrap();
    writeln!(
        s,
        "/-- `Drop for SharedFd`: the whole condition guarding `self.0.waker.wake()` (the only statement of the body;\nthe reference is released by the field drop AFTER the body) -/\ndef dropWakes (count : Nat) (waits : Bool) : Bool := count == {n} && waits\n"
    )
    .unwrap();
    writeln!(s, "/-- `take()`: the value `inner.waits.swap(v, ..)` stores -/\ndef takeSwapStores : Bool := {}\n", tk.swap_stores).unwrap();
    writeln!(
        s,
        "/-- `take()`: the previous value of `waits` for which the poll loop (not `None`) is entered (`if !swap(..)` = false) -/\ndef takeWinsWhenSwapReturned : Bool := {}\n",
        tk.wins_when_swap_returned
    )
    .unwrap();
    s.push_str("/-- `take()` starts with `let inner = self.into_inner();` outside the `async` block: the future owns the raw\n`Shared`, so dropping it / returning `None` releases the reference without `Drop for SharedFd` -/\ndef takeCapturesRaw : Bool := true\n\n");
    s.push_str("/-- `try_unwrap`: a failed `Shared::try_unwrap` is re-wrapped (`map_err(|i| Self(i))`): the handle stays a handle -/\ndef tryUnwrapRewraps : Bool := true\n\n");
    s.push_str("/-- statements of the `poll_fn` closure of `take()` -/\ninductive PollStep where\n  | takeSlot          -- `let i = inner.take().unwrap();`\n  | tryUnwrapReturn   -- `let this = match Shared::try_unwrap(i) { Ok(fd) => return Ready(Some(fd.fd)), Err(this) => this };`\n  | register          -- `this.waker.register(cx.waker());`\n  | tryUnwrapOrPark   -- `match Shared::try_unwrap(this) { Ok(fd) => Ready(Some(fd.fd)), Err(tt) => { inner = Some(tt); Pending } }`\n  deriving DecidableEq, Repr\n\n");
    let lit = tk.steps.iter().map(|k| format!(".{k}")).collect::<Vec<_>>().join(", ");
    writeln!(s, "/-- the closure body, statement kinds in source order -/\ndef takePoll : List PollStep := [{lit}]\n").unwrap();
    s.push_str("/-- how `close(self)` moves the handle into its future -/\ninductive Capture where\n  | manuallyDrop   -- `let this = ManuallyDrop::new(self); async move { ManuallyDrop::into_inner(this)…take().await … }`\n  deriving DecidableEq, Repr\n\n");
    writeln!(s, "/-- `File::close` -/\ndef fileClose : Capture := .{fc}\n").unwrap();
    writeln!(s, "/-- `Socket::close` -/\ndef socketClose : Capture := .{sc}\n").unwrap();
    s.push_str("/-- both `close` bodies await `take()` first and submit the close operation only for `Some(fd)` -/\ndef closeSubmitsOnlyOnSome : Bool := true\n\n");
    s.push_str("end Compio.Gen.SharedFdProto\n");
    Ok(s)
}
