//! Statement order of the task lifecycle functions  ->  Gen/TaskOrder.lean   (property C04)
//!
//! Same technique as wakeorder.rs (written for C03; the walker is duplicated here so that the two targets stay
//! independent): for a fixed list of functions the body is walked in evaluation order and every call
//! whose name is on that function's whitelist is recorded with its innermost enclosing guard, plus
//! `return` / `?`. Props/C04.lean proves that these orders are the ones the hand model executes:
//! `Task::cancel` = schedule, THEN set_cancelled; `Task::run` = unschedule BEFORE the poll and nothing
//! after a Pending poll; `drain_sync` subtracts what it drained; `Task::drop`, `impl Drop for Task`,
//! `Local::schedule`, `Executor::tick`, `Executor::clear`. Swapping, dropping or adding one of these calls
//! changes the literal and the theorems stop checking. Fails closed.

use std::{fmt::Write as _, path::Path};

use syn::visit::Visit;

use crate::{Res, header, parse_file, tokens};

struct Target {
    lean: &'static str,
    file: &'static str,
    /// type the `impl` block is for
    ty: &'static str,
    /// trait of the impl block, if any
    tr: Option<&'static str>,
    func: &'static str,
    calls: &'static [&'static str],
}

const TARGETS: &[Target] = &[
    Target {
        lean: "taskCancel",
        file: "compio-executor/src/task/mod.rs",
        ty: "Task",
        tr: None,
        func: "cancel",
        calls: &["schedule", "set_cancelled", "has_result", "set_has_result", "drop_future"],
    },
    Target {
        lean: "taskRun",
        file: "compio-executor/src/task/mod.rs",
        ty: "Task",
        tr: None,
        func: "run",
        calls: &[
            "unschedule", "load", "is_cancelled", "run_future", "is_ready", "finish_running", "has_waker",
            "is_setting_waker", "wake_by_ref", "set_dropped", "set_cancelled", "start_scheduling", "finish_scheduling",
        ],
    },
    Target {
        lean: "taskDrop",
        file: "compio-executor/src/task/mod.rs",
        ty: "Task",
        tr: None,
        func: "drop",
        calls: &["set_dropped", "store", "is_completed", "drop_future", "has_waker", "is_setting_waker", "drop_in_place"],
    },
    Target {
        lean: "taskRelease",
        file: "compio-executor/src/task/mod.rs",
        ty: "Task",
        tr: Some("Drop"),
        func: "drop",
        calls: &["dec", "count", "has_result", "drop_future", "has_waker", "drop_in_place", "dealloc"],
    },
    Target {
        lean: "remoteSchedule",
        file: "compio-executor/src/task/remote.rs",
        ty: "Remote<'a>",
        tr: None,
        func: "schedule",
        calls: &[
            "start_scheduling", "is_scheduled", "is_completed", "is_cancelled", "finish_scheduling", "load",
            "fetch_add", "fetch_sub", "store", "push", "wake_by_ref", "yield_now",
        ],
    },
    Target {
        lean: "localSchedule",
        file: "compio-executor/src/task/local.rs",
        ty: "Local<'a>",
        tr: None,
        func: "schedule",
        calls: &["load", "drain_sync", "make_hot", "make_cold", "wake_by_ref"],
    },
    Target {
        lean: "drainSync",
        file: "compio-executor/src/lib.rs",
        ty: "Shared",
        tr: None,
        func: "drain_sync",
        calls: &["load", "pop", "make_hot", "fetch_sub", "fetch_add", "store", "swap"],
    },
    Target {
        lean: "tick",
        file: "compio-executor/src/lib.rs",
        ty: "Executor",
        tr: None,
        func: "tick",
        calls: &["drain_sync", "iter_hot", "take", "make_cold", "make_hot", "run", "drop", "remove", "reset", "has_hot"],
    },
    Target {
        lean: "queueRemove",
        file: "compio-executor/src/queue.rs",
        ty: "TaskQueue",
        tr: None,
        func: "remove",
        calls: &["get", "get_mut", "unlink", "link_tail", "remove", "and_then"],
    },
    Target {
        lean: "queueMakeHot",
        file: "compio-executor/src/queue.rs",
        ty: "Inner",
        tr: None,
        func: "make_hot",
        calls: &["get", "unlink", "link_tail", "remove"],
    },
    Target {
        lean: "queueMakeCold",
        file: "compio-executor/src/queue.rs",
        ty: "Inner",
        tr: None,
        func: "make_cold",
        calls: &["get", "unlink", "link_tail", "remove"],
    },
    Target {
        lean: "clear",
        file: "compio-executor/src/lib.rs",
        ty: "Executor",
        tr: None,
        func: "clear",
        calls: &["pop", "clear", "drain_sync"],
    },
];

struct Walk<'t> {
    calls: &'t [&'static str],
    guard: Vec<String>,
    out: Vec<(String, String)>,
    /// (call, memory ordering argument) for the recorded calls that take one
    ords: Vec<(String, String)>,
}

fn compact<T: quote::ToTokens>(t: &T) -> String {
    tokens(t).replace(' ', "")
}

impl<'t> Walk<'t> {
    fn rec(&mut self, name: &str) {
        let g = self.guard.last().cloned().unwrap_or_default();
        self.out.push((name.to_string(), g));
    }
}

impl<'ast, 't> Visit<'ast> for Walk<'t> {
    fn visit_expr_method_call(&mut self, m: &'ast syn::ExprMethodCall) {
        self.visit_expr(&m.receiver);
        for a in &m.args {
            self.visit_expr(a);
        }
        let name = m.method.to_string();
        if self.calls.contains(&name.as_str()) {
            // keep the const / type arguments of the call (`unlink::<HOT>`, `finish_setting_waker::<true>`)
            let full = match &m.turbofish {
                Some(t) => format!("{name}{}", compact(t)),
                None => name.clone(),
            };
            self.rec(&full);
            if let Some(last) = m.args.last() {
                let a = compact(last);
                if a.starts_with("Ordering::") {
                    self.ords.push((name.clone(), a));
                }
            }
        }
    }

    fn visit_expr_call(&mut self, c: &'ast syn::ExprCall) {
        for a in &c.args {
            self.visit_expr(a);
        }
        // parenthesised callee `(header.vtable.run_future)(..)` or a path
        let callee = compact(&c.func);
        let callee = callee.trim_start_matches('(').trim_end_matches(')');
        let last = callee.rsplit(|ch| ch == ':' || ch == '.').next().unwrap_or("").to_string();
        if self.calls.contains(&last.as_str()) {
            self.rec(&last);
        }
    }

    fn visit_expr_if(&mut self, i: &'ast syn::ExprIf) {
        let c = compact(&i.cond);
        self.visit_expr(&i.cond);
        self.guard.push(format!("if {c}"));
        self.visit_block(&i.then_branch);
        self.guard.pop();
        if let Some((_, e)) = &i.else_branch {
            self.guard.push(format!("else({c})"));
            self.visit_expr(e);
            self.guard.pop();
        }
    }

    fn visit_expr_while(&mut self, w: &'ast syn::ExprWhile) {
        let c = compact(&w.cond);
        self.guard.push(format!("while-cond {c}"));
        self.visit_expr(&w.cond);
        self.guard.pop();
        self.guard.push(format!("while {c}"));
        self.visit_block(&w.body);
        self.guard.pop();
    }

    fn visit_expr_for_loop(&mut self, f: &'ast syn::ExprForLoop) {
        let c = compact(&f.expr);
        self.visit_expr(&f.expr);
        self.guard.push(format!("for {c}"));
        self.visit_block(&f.body);
        self.guard.pop();
    }

    fn visit_expr_loop(&mut self, l: &'ast syn::ExprLoop) {
        self.guard.push("loop".to_string());
        self.visit_block(&l.body);
        self.guard.pop();
    }

    fn visit_local(&mut self, l: &'ast syn::Local) {
        // `let .. = init else { diverge };`
        if let Some(init) = &l.init {
            self.visit_expr(&init.expr);
            if let Some((_, d)) = &init.diverge {
                self.guard.push("let-else".to_string());
                self.visit_expr(d);
                self.guard.pop();
            }
        }
    }

    fn visit_expr_return(&mut self, r: &'ast syn::ExprReturn) {
        if let Some(e) = &r.expr {
            self.visit_expr(e);
        }
        self.rec("return");
    }

    fn visit_expr_try(&mut self, t: &'ast syn::ExprTry) {
        self.visit_expr(&t.expr);
        self.rec("?");
    }

    fn visit_expr_macro(&mut self, _m: &'ast syn::ExprMacro) {}
    fn visit_stmt_macro(&mut self, _m: &'ast syn::StmtMacro) {}
}

/// `Remote::poll`: every statement-level `finish_setting_waker::<B>()` call, in source order, with its innermost
/// `if` guard and whether the returned snapshot is re-examined: bound to a name (`let x = ..` / `x = ..`) AND the
/// next statement is `if x.is_completed() || x.is_cancelled() { .. continue .. }`.
struct SiteWalk {
    guard: Vec<String>,
    sites: Vec<(String, String, bool)>,
}

fn fsw_call(e: &syn::Expr) -> Option<String> {
    match e {
        syn::Expr::MethodCall(m) if m.method == "finish_setting_waker" => {
            Some(m.turbofish.as_ref().map(|t| compact(t)).unwrap_or_default())
        }
        syn::Expr::Paren(p) => fsw_call(&p.expr),
        _ => None,
    }
}

impl SiteWalk {
    /// (generic argument, name the result is bound to) if `st` is a statement-level call
    fn site_of(st: &syn::Stmt) -> Option<(String, Option<String>)> {
        match st {
            syn::Stmt::Local(l) => {
                let init = l.init.as_ref()?;
                let g = fsw_call(&init.expr)?;
                Some((g, Some(compact(&l.pat))))
            }
            syn::Stmt::Expr(syn::Expr::Assign(a), _) => {
                let g = fsw_call(&a.right)?;
                Some((g, Some(compact(&a.left))))
            }
            syn::Stmt::Expr(e, _) => fsw_call(e).map(|g| (g, None)),
            _ => None,
        }
    }

    fn rechecked(name: &str, next: Option<&syn::Stmt>) -> bool {
        let Some(syn::Stmt::Expr(syn::Expr::If(i), _)) = next else { return false };
        let c = compact(&i.cond);
        c.contains(&format!("{name}.is_completed()"))
            && c.contains(&format!("{name}.is_cancelled()"))
            && c.contains("||")
            && compact(&i.then_branch).contains("continue")
    }
}

impl<'ast> Visit<'ast> for SiteWalk {
    fn visit_block(&mut self, b: &'ast syn::Block) {
        for (i, st) in b.stmts.iter().enumerate() {
            if let Some((g, bound)) = Self::site_of(st) {
                let re = match &bound {
                    Some(n) => Self::rechecked(n, b.stmts.get(i + 1)),
                    None => false,
                };
                let guard = self.guard.last().cloned().unwrap_or_default();
                self.sites.push((g, guard, re));
            }
        }
        syn::visit::visit_block(self, b);
    }

    fn visit_expr_if(&mut self, i: &'ast syn::ExprIf) {
        let c = compact(&i.cond);
        self.visit_expr(&i.cond);
        self.guard.push(format!("if {c}"));
        self.visit_block(&i.then_branch);
        self.guard.pop();
        if let Some((_, e)) = &i.else_branch {
            self.guard.push(format!("else({c})"));
            self.visit_expr(e);
            self.guard.pop();
        }
    }

    fn visit_expr_macro(&mut self, _m: &'ast syn::ExprMacro) {}
    fn visit_stmt_macro(&mut self, _m: &'ast syn::StmtMacro) {}
}

/// statement shape of a function body: every `let` binding and every assignment, in order, with its innermost guard
struct BodyWalk {
    guard: Vec<String>,
    out: Vec<(String, String)>,
}

impl BodyWalk {
    fn rec(&mut self, text: String) {
        let g = self.guard.last().cloned().unwrap_or_default();
        self.out.push((text, g));
    }
}

impl<'ast> Visit<'ast> for BodyWalk {
    fn visit_local(&mut self, l: &'ast syn::Local) {
        if let Some(init) = &l.init {
            self.rec(format!("let {}={}", compact(&l.pat), compact(&init.expr)));
            if let Some((_, d)) = &init.diverge {
                self.guard.push("let-else".to_string());
                self.visit_expr(d);
                self.guard.pop();
            }
        }
    }

    fn visit_expr_assign(&mut self, a: &'ast syn::ExprAssign) {
        self.rec(format!("{}={}", compact(&a.left), compact(&a.right)));
    }

    fn visit_expr_return(&mut self, _r: &'ast syn::ExprReturn) {
        self.rec("return".to_string());
    }

    fn visit_expr_if(&mut self, i: &'ast syn::ExprIf) {
        let c = compact(&i.cond);
        self.guard.push(format!("if {c}"));
        self.visit_block(&i.then_branch);
        self.guard.pop();
        if let Some((_, e)) = &i.else_branch {
            self.guard.push(format!("else({c})"));
            self.visit_expr(e);
            self.guard.pop();
        }
    }

    fn visit_expr_macro(&mut self, _m: &'ast syn::ExprMacro) {}
    fn visit_stmt_macro(&mut self, _m: &'ast syn::StmtMacro) {}
}

const BODIES: &[(&str, &str, &str, &str)] = &[
    ("queueLinkTailBody", "compio-executor/src/queue.rs", "Inner", "link_tail"),
    ("queueUnlinkBody", "compio-executor/src/queue.rs", "Inner", "unlink"),
    ("queueNextBody", "compio-executor/src/queue.rs", "Iter<'a>", "next"),
];

fn find_fn<'a>(file: &'a syn::File, t: &Target) -> Option<&'a syn::ImplItemFn> {
    for it in &file.items {
        let syn::Item::Impl(im) = it else { continue };
        if compact(&im.self_ty) != t.ty.replace(' ', "") {
            continue;
        }
        let tr = im.trait_.as_ref().map(|(_, p, _)| compact(p));
        match (t.tr, tr) {
            (None, None) => {}
            (Some(a), Some(b)) if a == b => {}
            _ => continue,
        }
        for ii in &im.items {
            if let syn::ImplItem::Fn(f) = ii {
                if f.sig.ident == t.func {
                    return Some(f);
                }
            }
        }
    }
    None
}

fn lean_str(s: &str) -> String {
    let mut o = String::from("\"");
    for c in s.chars() {
        match c {
            '"' => o.push_str("\\\""),
            '\\' => o.push_str("\\\\"),
            c => o.push(c),
        }
    }
    o.push('"');
    o
}

pub fn generate(repo: &Path) -> Res<String> {
    let mut srcs: Vec<&str> = TARGETS.iter().map(|t| t.file).collect();
    srcs.dedup();
    let mut s = header("TaskOrder", &srcs);
    s.push_str("namespace Compio.Gen.TaskOrder\n\n");
    for t in TARGETS {
        let file = parse_file(&repo.join(t.file))?;
        let f = find_fn(&file, t).ok_or(format!("{}: fn {}::{} not found", t.file, t.ty, t.func))?;
        let mut w = Walk { calls: t.calls, guard: vec![], out: vec![], ords: vec![] };
        w.visit_block(&f.block);
        let n_calls = w.out.iter().filter(|(c, _)| c != "return" && c != "?").count();
        if n_calls == 0 {
            return Err(format!("{}: {}::{}: none of the expected calls {:?} found", t.file, t.ty, t.func, t.calls));
        }
        writeln!(s, "/-- `{}::{}` ({}): (call, innermost guard) in evaluation order -/", t.ty, t.func, t.file).unwrap();
        writeln!(s, "def {} : List (String × String) := [", t.lean).unwrap();
        for (i, (c, g)) in w.out.iter().enumerate() {
            writeln!(s, "  ({}, {}){}", lean_str(c), lean_str(g), if i + 1 < w.out.len() { "," } else { "" }).unwrap();
        }
        s.push_str("]\n\n");
        if !w.ords.is_empty() {
            writeln!(s, "/-- memory orderings written at the atomic calls of `{}::{}` -/", t.ty, t.func).unwrap();
            writeln!(s, "def {}Ord : List (String × String) := [", t.lean).unwrap();
            for (i, (c, o)) in w.ords.iter().enumerate() {
                writeln!(s, "  ({}, {}){}", lean_str(c), lean_str(o), if i + 1 < w.ords.len() { "," } else { "" }).unwrap();
            }
            s.push_str("]\n\n");
        }
    }
    // statement shapes of the intrusive-list primitives of queue.rs
    for (lean, path, ty, func) in BODIES {
        let file = parse_file(&repo.join(path))?;
        let t = Target { lean, file: path, ty, tr: if *func == "next" { Some("Iterator") } else { None }, func, calls: &[] };
        let f = find_fn(&file, &t).ok_or(format!("{path}: fn {ty}::{func} not found"))?;
        let mut w = BodyWalk { guard: vec![], out: vec![] };
        w.visit_block(&f.block);
        if w.out.is_empty() {
            return Err(format!("{path}: {ty}::{func}: empty body shape"));
        }
        writeln!(s, "/-- `{ty}::{func}` ({path}): every `let` and every assignment in order, with its innermost guard -/").unwrap();
        writeln!(s, "def {lean} : List (String × String) := [").unwrap();
        for (i, (c, g)) in w.out.iter().enumerate() {
            writeln!(s, "  ({}, {}){}", lean_str(c), lean_str(g), if i + 1 < w.out.len() { "," } else { "" }).unwrap();
        }
        s.push_str("]\n\n");
    }
    // Remote::poll: the shape of every finish_setting_waker call site
    {
        let path = "compio-executor/src/task/remote.rs";
        let file = parse_file(&repo.join(path))?;
        let t = Target { lean: "", file: path, ty: "Remote<'a>", tr: None, func: "poll", calls: &[] };
        let f = find_fn(&file, &t).ok_or(format!("{path}: fn Remote::poll not found"))?;
        let mut w = SiteWalk { guard: vec![], sites: vec![] };
        w.visit_block(&f.block);
        if w.sites.is_empty() {
            return Err(format!("{path}: Remote::poll: no finish_setting_waker call site found"));
        }
        writeln!(s, "/-- `Remote::poll` ({path}): every statement-level `finish_setting_waker::<B>()` call, block by block (outer block first):").unwrap();
        writeln!(s, "(const argument, innermost `if` guard, the returned snapshot is bound and the NEXT statement is").unwrap();
        writeln!(s, "`if x.is_completed() || x.is_cancelled() {{ .. continue }}`) -/").unwrap();
        writeln!(s, "def remotePollFinishSites : List (String × String × Bool) := [").unwrap();
        for (i, (g, gd, re)) in w.sites.iter().enumerate() {
            writeln!(s, "  ({}, {}, {}){}", lean_str(g), lean_str(gd), re, if i + 1 < w.sites.len() { "," } else { "" }).unwrap();
        }
        s.push_str("]\n\n");
    }
    s.push_str("end Compio.Gen.TaskOrder\n");
    Ok(s)
}
