//! compio-driver/src/sys/driver/mod.rs `AwakeFlag`  ->  Gen/AwakeFlag.lean
//!
//! Each method is one atomic access on a `u8`; it is rendered as a function on `Nat` returning the
//! new value and (when the method returns one) the boolean computed from the old value.

use std::{collections::BTreeMap, fmt::Write as _, path::Path};

use crate::{Res, eval, header, parse_file, tokens};

/// translate the boolean/integer expression around the atomic call; the call itself becomes `w`
fn to_lean(e: &syn::Expr, consts: &BTreeMap<String, u128>) -> Res<String> {
    Ok(match e {
        syn::Expr::Paren(p) => format!("({})", to_lean(&p.expr, consts)?),
        syn::Expr::Lit(_) => eval(e, consts, 8)?.to_string(),
        syn::Expr::Path(p) => {
            let n = tokens(p);
            if consts.contains_key(&n) { n } else { return Err(format!("unknown name {n}")) }
        }
        syn::Expr::MethodCall(m) if tokens(&m.receiver).replace(' ', "") == "self.0" => "w".to_string(),
        syn::Expr::Binary(b) => {
            let l = to_lean(&b.left, consts)?;
            let r = to_lean(&b.right, consts)?;
            let op = match b.op {
                syn::BinOp::Ne(_) => "!=",
                syn::BinOp::Eq(_) => "==",
                syn::BinOp::BitAnd(_) => "&&&",
                syn::BinOp::BitOr(_) => "|||",
                _ => return Err(format!("unsupported operator in {}", tokens(e))),
            };
            format!("{l} {op} {r}")
        }
        _ => return Err(format!("unsupported expression {}", tokens(e))),
    })
}

fn find_call(e: &syn::Expr) -> Option<&syn::ExprMethodCall> {
    match e {
        syn::Expr::MethodCall(m) if tokens(&m.receiver).replace(' ', "") == "self.0" => Some(m),
        syn::Expr::Paren(p) => find_call(&p.expr),
        syn::Expr::Binary(b) => find_call(&b.left).or_else(|| find_call(&b.right)),
        _ => None,
    }
}

pub fn generate(repo: &Path) -> Res<String> {
    let rel = "compio-driver/src/sys/driver/mod.rs";
    let file = parse_file(&repo.join(rel))?;
    let mut consts: BTreeMap<String, u128> = BTreeMap::new();
    let mut order = vec![];
    for it in &file.items {
        if let syn::Item::Const(c) = it {
            if tokens(&c.ty) == "u8" {
                let v = eval(&c.expr, &consts, 8)?;
                consts.insert(c.ident.to_string(), v);
                order.push(c.ident.to_string());
            }
        }
    }
    let mut s = header("AwakeFlag", &[rel]);
    s.push_str("namespace Compio.Gen.AwakeFlag\n\n");
    for n in &order {
        writeln!(s, "def {n} : Nat := {}", consts[n]).unwrap();
    }
    s.push('\n');
    let mut orderings = vec![];
    let mut found = false;
    for it in &file.items {
        let syn::Item::Impl(im) = it else { continue };
        if tokens(&im.self_ty) != "AwakeFlag" || im.trait_.is_some() {
            continue;
        }
        found = true;
        for ii in &im.items {
            let syn::ImplItem::Fn(f) = ii else { continue };
            let name = f.sig.ident.to_string();
            if f.block.stmts.len() != 1 {
                return Err(format!("AwakeFlag::{name}: expected a single statement"));
            }
            let e = match &f.block.stmts[0] {
                syn::Stmt::Expr(e, _) => e,
                other => return Err(format!("AwakeFlag::{name}: unsupported statement {}", tokens(other))),
            };
            if name == "new" {
                // Self(AtomicU8::new(IDLE))
                let t = tokens(e).replace(' ', "");
                let v = t.strip_prefix("Self(AtomicU8::new(").and_then(|r| r.strip_suffix("))")).ok_or(format!("AwakeFlag::new: unrecognised {t}"))?;
                if !consts.contains_key(v) {
                    return Err(format!("AwakeFlag::new: unknown initial value {v}"));
                }
                writeln!(s, "/-- `AwakeFlag::new` -/\ndef new : Nat := {v}\n").unwrap();
                continue;
            }
            let call = find_call(e).ok_or(format!("AwakeFlag::{name}: no atomic access found"))?;
            let op = call.method.to_string();
            let args: Vec<&syn::Expr> = call.args.iter().collect();
            let ord = tokens(args.last().ok_or("no ordering")?).replace(' ', "");
            orderings.push((name.clone(), op.clone(), ord.clone()));
            let returns_bool = matches!(&f.sig.output, syn::ReturnType::Type(_, t) if tokens(t) == "bool");
            let operand = if args.len() == 2 { Some(to_lean(args[0], &consts)?) } else { None };
            let newval = match op.as_str() {
                "store" | "swap" => operand.clone().ok_or("missing operand")?,
                "fetch_or" => format!("w ||| {}", operand.clone().ok_or("missing operand")?),
                "fetch_and" => format!("w &&& {}", operand.clone().ok_or("missing operand")?),
                other => return Err(format!("AwakeFlag::{name}: unsupported atomic {other}")),
            };
            writeln!(s, "/-- `AwakeFlag::{name}`: `{}` -/", tokens(e)).unwrap();
            if returns_bool {
                if op == "store" {
                    return Err(format!("AwakeFlag::{name}: store cannot return a value"));
                }
                writeln!(s, "def {name} (w : Nat) : Nat × Bool := ({newval}, {})\n", to_lean(e, &consts)?).unwrap();
            } else {
                writeln!(s, "def {name} (w : Nat) : Nat := {}\n", if op == "store" { newval.clone() } else { newval.clone() }).unwrap();
                if op == "store" {
                    // `w` unused: keep the signature uniform
                    let _ = &newval;
                }
            }
        }
    }
    if !found {
        return Err("impl AwakeFlag not found".into());
    }
    s.push_str("/-- (method, atomic operation, memory ordering) as written -/\ndef orderings : List (String × String × String) := [\n");
    for (i, (n, op, o)) in orderings.iter().enumerate() {
        writeln!(s, "  (\"{n}\", \"{op}\", \"{o}\"){}", if i + 1 < orderings.len() { "," } else { "" }).unwrap();
    }
    s.push_str("]\n\nend Compio.Gen.AwakeFlag\n");
    Ok(s)
}
