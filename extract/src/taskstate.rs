//! compio-executor/src/task/state.rs  ->  Gen/TaskState.lean
//!
//! Every `State` method performs exactly one atomic RMW (or load) on the task word. The method is
//! rendered as a function on the abstract word (seven named flag bits + reference count) of
//! `Compio.TaskWord`; the value the Rust method returns is the word *before* the RMW.

use std::{collections::BTreeMap, fmt::Write as _, path::Path};

use syn::visit::Visit;

use crate::{Res, eval, header, parse_file, tokens};

const FLAGS: [(&str, &str); 7] = [
    ("SCHEDULED", "scheduled"),
    ("SCHEDULING", "scheduling"),
    ("NOT_SETTING_WAKER", "notSettingWaker"),
    ("HAS_WAKER", "hasWaker"),
    ("COMPLETED", "completed"),
    ("HAS_RESULT", "hasResult"),
    ("NOT_CANCELLED", "notCancelled"),
];

#[derive(Debug, Clone)]
pub struct Atomic {
    pub op: String,
    pub operand: Option<syn::Expr>,
    pub ordering: String,
}

struct FindAtomic {
    found: Vec<Atomic>,
}

impl<'ast> Visit<'ast> for FindAtomic {
    fn visit_expr_method_call(&mut self, m: &'ast syn::ExprMethodCall) {
        let recv = tokens(&m.receiver).replace(' ', "");
        if recv == "self.0" {
            let op = m.method.to_string();
            let args: Vec<&syn::Expr> = m.args.iter().collect();
            let (operand, ordering) = match args.len() {
                1 => (None, tokens(args[0])),
                2 => (Some(args[0].clone()), tokens(args[1])),
                _ => (None, "?".into()),
            };
            self.found.push(Atomic { op, operand, ordering: ordering.replace(' ', "") });
        }
        syn::visit::visit_expr_method_call(self, m);
    }
}

/// Specialise a block for the given const-generic booleans; collect local constants and atomics.
pub fn specialise(
    block: &syn::Block,
    cg: &BTreeMap<String, bool>,
    env: &mut BTreeMap<String, u128>,
    out: &mut Vec<Atomic>,
) -> Res<()> {
    for st in &block.stmts {
        match st {
            syn::Stmt::Macro(_) => {}
            syn::Stmt::Item(syn::Item::Const(c)) => {
                let v = eval(&c.expr, env, 64)?;
                env.insert(c.ident.to_string(), v);
            }
            syn::Stmt::Item(i) => return Err(format!("unsupported item in method body: {}", tokens(i))),
            syn::Stmt::Local(l) => {
                let name = tokens(&l.pat);
                let Some(init) = &l.init else { return Err(format!("let without init: {name}")) };
                let e = pick(&init.expr, cg)?;
                let mut f = FindAtomic { found: vec![] };
                f.visit_expr(&e);
                if !f.found.is_empty() {
                    out.extend(f.found);
                } else if let Ok(v) = eval(&e, env, 64) {
                    env.insert(name, v);
                } else {
                    return Err(format!("unrecognised let: {}", tokens(l)));
                }
            }
            syn::Stmt::Expr(e, _) => {
                spec_expr(e, cg, env, out)?;
            }
        }
    }
    Ok(())
}

fn const_cond(e: &syn::Expr, cg: &BTreeMap<String, bool>) -> Option<bool> {
    if let syn::Expr::Path(p) = e {
        return cg.get(&tokens(p)).copied();
    }
    None
}

/// resolve `if CONST { a } else { b }` to the selected branch's tail expression
fn pick(e: &syn::Expr, cg: &BTreeMap<String, bool>) -> Res<syn::Expr> {
    if let syn::Expr::If(i) = e {
        if let Some(c) = const_cond(&i.cond, cg) {
            let blk = if c {
                i.then_branch.clone()
            } else {
                match &i.else_branch {
                    Some((_, b)) => match &**b {
                        syn::Expr::Block(b) => b.block.clone(),
                        other => return pick(other, cg),
                    },
                    None => return Err("if without else used as value".into()),
                }
            };
            if blk.stmts.len() == 1 {
                if let syn::Stmt::Expr(e, None) = &blk.stmts[0] {
                    return pick(e, cg);
                }
            }
            return Err(format!("branch is not a single expression: {}", tokens(&blk)));
        }
    }
    Ok(e.clone())
}

fn spec_expr(
    e: &syn::Expr,
    cg: &BTreeMap<String, bool>,
    env: &mut BTreeMap<String, u128>,
    out: &mut Vec<Atomic>,
) -> Res<()> {
    if let syn::Expr::If(i) = e {
        if let Some(c) = const_cond(&i.cond, cg) {
            if c {
                return specialise(&i.then_branch, cg, env, out);
            } else if let Some((_, b)) = &i.else_branch {
                if let syn::Expr::Block(b) = &**b {
                    return specialise(&b.block, cg, env, out);
                }
                return spec_expr(b, cg, env, out);
            }
            return Ok(());
        }
    }
    let mut f = FindAtomic { found: vec![] };
    f.visit_expr(e);
    out.extend(f.found);
    Ok(())
}

fn lean_name(rust: &str) -> String {
    let mut s = String::new();
    let mut up = false;
    for c in rust.chars() {
        if c == '_' {
            up = true;
        } else if up {
            s.push(c.to_ascii_uppercase());
            up = false;
        } else {
            s.push(c);
        }
    }
    s
}

fn flags_of(mask: u128, consts: &BTreeMap<String, u128>, what: &str) -> Res<Vec<&'static str>> {
    let mut rest = mask;
    let mut v = vec![];
    for (rn, ln) in FLAGS {
        let bit = consts[rn];
        if mask & bit != 0 {
            v.push(ln);
            rest &= !bit;
        }
    }
    if rest != 0 {
        return Err(format!("{what}: mask {mask:#x} touches bits that are not flag constants ({rest:#x})"));
    }
    Ok(v)
}

fn flag_list(v: &[&str]) -> String {
    format!("[{}]", v.iter().map(|f| format!(".{f}")).collect::<Vec<_>>().join(", "))
}

pub fn generate(repo: &Path) -> Res<String> {
    let rel = "compio-executor/src/task/state.rs";
    let file = parse_file(&repo.join(rel))?;
    let mut consts: BTreeMap<String, u128> = BTreeMap::new();
    for it in &file.items {
        if let syn::Item::Const(c) = it {
            let v = eval(&c.expr, &consts, 64)?;
            consts.insert(c.ident.to_string(), v);
        }
    }
    let mut s = header("TaskState", &[rel]);
    s.push_str("import Compio.Model.TaskWord\n\nnamespace Compio.Gen.TaskState\nopen Compio.TaskWord\n\n");
    // flag bit table
    let rc_shift = *consts.get("RC_SHIFT").ok_or("RC_SHIFT missing")?;
    let rc_unit = *consts.get("RC_UNIT").ok_or("RC_UNIT missing")?;
    s.push_str("/-- bit index of every flag constant, as written in the source -/\ndef bitOf : Flag → Nat\n");
    for (rn, ln) in FLAGS {
        let v = *consts.get(rn).ok_or(format!("flag constant {rn} missing"))?;
        if v.count_ones() != 1 {
            return Err(format!("{rn} = {v:#x} is not a single bit"));
        }
        writeln!(s, "  | .{ln} => {}", v.trailing_zeros()).unwrap();
    }
    // constants that are not known flags and not the RC ones: fail closed
    for (k, _) in &consts {
        if !FLAGS.iter().any(|(r, _)| r == k) && !["RC_SHIFT", "RC_UNIT", "RC_MAX"].contains(&k.as_str()) {
            return Err(format!("unknown top-level constant {k} in state.rs (new flag?)"));
        }
    }
    writeln!(s, "\ndef rcShift : Nat := {rc_shift}\ndef rcUnit : Nat := {rc_unit}\n").unwrap();

    let mut orderings: Vec<(String, String)> = vec![];
    let mut defs = String::new();
    let flag_mask: u128 = (1u128 << rc_shift) - 1;
    for it in &file.items {
        let syn::Item::Impl(im) = it else { continue };
        let ty = tokens(&im.self_ty);
        if im.trait_.is_some() {
            continue;
        }
        if ty == "State" {
            for ii in &im.items {
                let syn::ImplItem::Fn(f) = ii else { continue };
                let name = f.sig.ident.to_string();
                // const generic bools
                let mut cgs: Vec<String> = vec![];
                let mut const_usize: Vec<String> = vec![];
                for g in &f.sig.generics.params {
                    if let syn::GenericParam::Const(c) = g {
                        match tokens(&c.ty).as_str() {
                            "bool" => cgs.push(c.ident.to_string()),
                            "usize" => const_usize.push(c.ident.to_string()),
                            t => return Err(format!("{name}: unsupported const generic type {t}")),
                        }
                    }
                }
                if name == "new" {
                    // Self(AtomicUsize::new((N * RC_UNIT) | INIT)) with const INIT
                    let mut env = consts.clone();
                    let mut init = None;
                    for st in &f.block.stmts {
                        if let syn::Stmt::Item(syn::Item::Const(c)) = st {
                            let v = eval(&c.expr, &env, 64)?;
                            env.insert(c.ident.to_string(), v);
                            init = Some(v);
                        }
                    }
                    let init = init.ok_or("State::new: INIT constant not found")?;
                    let body = tokens(&f.block).replace(' ', "");
                    if !body.contains("(N*RC_UNIT)|INIT") {
                        return Err(format!("State::new: unrecognised initial value: {body}"));
                    }
                    let fl = flags_of(init, &consts, "State::new")?;
                    writeln!(defs, "/-- `State::new::<N>()` -/\ndef new (n : Nat) : Word := (Word.zero.setFlags {}).withCount n\n", flag_list(&fl)).unwrap();
                    continue;
                }
                let variants: Vec<BTreeMap<String, bool>> = if cgs.is_empty() {
                    vec![BTreeMap::new()]
                } else if cgs.len() == 1 {
                    vec![[(cgs[0].clone(), true)].into(), [(cgs[0].clone(), false)].into()]
                } else {
                    return Err(format!("{name}: more than one const bool generic"));
                };
                for cg in variants {
                    let mut env = consts.clone();
                    let mut atomics = vec![];
                    specialise(&f.block, &cg, &mut env, &mut atomics)?;
                    if atomics.len() != 1 {
                        return Err(format!("State::{name}: expected exactly one atomic access, found {}", atomics.len()));
                    }
                    let a = &atomics[0];
                    let suffix = match cg.values().next() {
                        Some(true) => "True",
                        Some(false) => "False",
                        None => "",
                    };
                    let lname = format!("{}{}", lean_name(&name), suffix);
                    orderings.push((lname.clone(), a.ordering.clone()));
                    let doc = format!("/-- `State::{name}{}`: `{}({}, {})` -/", if suffix.is_empty() { String::new() } else { format!("::<{}>", suffix.to_lowercase()) }, a.op, a.operand.as_ref().map(tokens).unwrap_or_default(), a.ordering);
                    let body = match a.op.as_str() {
                        "fetch_or" => {
                            let m = eval(a.operand.as_ref().unwrap(), &env, 64)?;
                            format!("w.setFlags {}", flag_list(&flags_of(m, &consts, &name)?))
                        }
                        "fetch_and" => {
                            let m = eval(a.operand.as_ref().unwrap(), &env, 64)?;
                            if m | flag_mask != u64::MAX as u128 {
                                return Err(format!("State::{name}: fetch_and mask {m:#x} clears reference-count bits"));
                            }
                            let cleared = !m & flag_mask;
                            format!("w.clearFlags {}", flag_list(&flags_of(cleared, &consts, &name)?))
                        }
                        "fetch_add" | "fetch_sub" => {
                            let m = eval(a.operand.as_ref().unwrap(), &env, 64)?;
                            if m != rc_unit {
                                return Err(format!("State::{name}: {} operand {m:#x} is not RC_UNIT", a.op));
                            }
                            if a.op == "fetch_add" { "w.withCount (w.count + 1)".into() } else { "w.withCount (w.count - 1)".into() }
                        }
                        "load" => "w".to_string(),
                        other => return Err(format!("State::{name}: unsupported atomic operation {other}")),
                    };
                    writeln!(defs, "{doc}\ndef {lname} (w : Word) : Word := {body}\n").unwrap();
                }
            }
        } else if ty == "Snapshot" {
            for ii in &im.items {
                let syn::ImplItem::Fn(f) = ii else { continue };
                let name = f.sig.ident.to_string();
                let body = tokens(&f.block).replace(' ', "");
                // { self.0 & X != 0 }  /  { self.0 & X == 0 }  /  { self.0 >> RC_SHIFT }
                let inner = body.trim_start_matches('{').trim_end_matches('}');
                let lname = lean_name(&name);
                if let Some(rest) = inner.strip_prefix("self.0&") {
                    let (c, neg) = if let Some(c) = rest.strip_suffix("!=0") {
                        (c, false)
                    } else if let Some(c) = rest.strip_suffix("==0") {
                        (c, true)
                    } else {
                        return Err(format!("Snapshot::{name}: unrecognised predicate {inner}"));
                    };
                    let ln = FLAGS.iter().find(|(r, _)| *r == c).ok_or(format!("Snapshot::{name}: unknown flag {c}"))?.1;
                    writeln!(defs, "/-- `Snapshot::{name}`: `{inner}` -/\ndef {lname} (w : Word) : Bool := {}w.get .{ln}\n", if neg { "!" } else { "" }).unwrap();
                } else if inner == "self.0>>RC_SHIFT" {
                    writeln!(defs, "/-- `Snapshot::{name}` -/\ndef {lname} (w : Word) : Nat := w.count\n").unwrap();
                } else {
                    return Err(format!("Snapshot::{name}: unrecognised body {inner}"));
                }
            }
        }
    }
    s.push_str(&defs);
    s.push_str("/-- memory ordering of every atomic access, as written (`C::X` = chosen by the caller) -/\ndef orderings : List (String × String) := [\n");
    for (i, (n, o)) in orderings.iter().enumerate() {
        writeln!(s, "  (\"{n}\", \"{o}\"){}", if i + 1 < orderings.len() { "," } else { "" }).unwrap();
    }
    s.push_str("]\n\nend Compio.Gen.TaskState\n");
    Ok(s)
}
