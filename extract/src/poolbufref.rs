//! compio-driver/src/buffer_pool.rs `BufferRef`  ->  Gen/PoolBufRef.lean
//!
//! The C10 pool-buffer theorems ("len <= cap <= full_cap under every program") rest on what `BufferRef::set_capacity`,
//! `SetLen::set_len`, `IoBuf::as_init` (through `Deref`) and `IoBufMut::as_uninit` assign and report. The bodies are
//! straight-line; every statement is classified by its (whitespace-free) token text into a small statement alphabet:
//!
//!     if cap == 0 { return; }                              -> returnIfZero
//!     self.cap = (cap as u32).min(self.full_cap);          -> capFromArgMinFull
//!     self.len = self.len.min(self.cap);                   -> lenMinCap
//!     debug_assert!(len <= u32::MAX as usize);             -> assertU32
//!     self.len = (len as u32).min(self.cap);               -> lenFromArgMinCap
//!
//! and the two reported regions must be `from_raw_parts[_mut](self.ptr.as_ptr()…, self.len as usize)` (Deref) and
//! `from_raw_parts_mut(self.ptr.as_ptr(), self.cap as usize)` (as_uninit). The generated Lean literals are the two
//! statement lists in source order; `Compio.Props.C10.gen_pool_*` are stated over them.
//! Fails closed: any other statement / region expression is an error.

use std::{fmt::Write as _, path::Path};

use crate::{Res, header, parse_file, tokens};

fn squash(s: &str) -> String {
    s.chars().filter(|c| !c.is_whitespace()).collect()
}

fn classify(block: &syn::Block, what: &str) -> Res<Vec<&'static str>> {
    let mut out = vec![];
    for st in &block.stmts {
        let t = squash(&tokens(st));
        let k = match t.as_str() {
            "ifcap==0{return;}" => "returnIfZero",
            "self.cap=(capasu32).min(self.full_cap);" => "capFromArgMinFull",
            "self.len=self.len.min(self.cap);" => "lenMinCap",
            "debug_assert!(len<=u32::MAXasusize);" => "assertU32",
            "self.len=(lenasu32).min(self.cap);" => "lenFromArgMinCap",
            _ => return Err(format!("BufferRef::{what}: unrecognised statement `{}`", tokens(st))),
        };
        out.push(k);
    }
    Ok(out)
}

fn single_expr(block: &syn::Block, what: &str) -> Res<String> {
    // a body that is one tail expression, possibly wrapped in `unsafe { .. }`
    if block.stmts.len() != 1 {
        return Err(format!("BufferRef::{what}: expected a single expression, found {} statements", block.stmts.len()));
    }
    let syn::Stmt::Expr(e, None) = &block.stmts[0] else {
        return Err(format!("BufferRef::{what}: body is not a tail expression"));
    };
    let mut e = e;
    if let syn::Expr::Unsafe(u) = e {
        if u.block.stmts.len() != 1 {
            return Err(format!("BufferRef::{what}: unsafe block with {} statements", u.block.stmts.len()));
        }
        let syn::Stmt::Expr(inner, None) = &u.block.stmts[0] else {
            return Err(format!("BufferRef::{what}: unsafe block is not a tail expression"));
        };
        e = inner;
    }
    Ok(squash(&tokens(e)))
}

pub fn generate(repo: &Path) -> Res<String> {
    let rel = "compio-driver/src/buffer_pool.rs";
    let file = parse_file(&repo.join(rel))?;
    let (mut set_cap, mut with_cap, mut set_len, mut deref, mut deref_mut, mut as_init, mut as_uninit) = (None, None, None, None, None, None, None);
    for item in &file.items {
        let syn::Item::Impl(imp) = item else { continue };
        if squash(&tokens(&*imp.self_ty)) != "BufferRef" {
            continue;
        }
        let tr = imp.trait_.as_ref().map(|(_, p, _)| squash(&tokens(p))).unwrap_or_default();
        for it in &imp.items {
            let syn::ImplItem::Fn(f) = it else { continue };
            match (tr.as_str(), f.sig.ident.to_string().as_str()) {
                ("", "set_capacity") => set_cap = Some(classify(&f.block, "set_capacity")?),
                ("", "with_capacity") => with_cap = Some(squash(&tokens(&f.block))),
                ("SetLen", "set_len") => set_len = Some(classify(&f.block, "set_len")?),
                ("Deref", "deref") => deref = Some(single_expr(&f.block, "deref")?),
                ("DerefMut", "deref_mut") => deref_mut = Some(single_expr(&f.block, "deref_mut")?),
                ("IoBuf", "as_init") => as_init = Some(single_expr(&f.block, "as_init")?),
                ("IoBufMut", "as_uninit") => as_uninit = Some(single_expr(&f.block, "as_uninit")?),
                _ => {}
            }
        }
    }
    let set_cap = set_cap.ok_or("BufferRef::set_capacity not found")?;
    let set_len = set_len.ok_or("impl SetLen for BufferRef not found")?;
    let expect = |got: Option<String>, want: &str, what: &str| -> Res<()> {
        match got {
            Some(g) if g == want => Ok(()),
            Some(g) => Err(format!("BufferRef::{what}: `{g}` is not the recognised `{want}`")),
            None => Err(format!("BufferRef::{what} not found")),
        }
    };
    expect(with_cap, "{self.set_capacity(cap);self}", "with_capacity")?;
    expect(deref, "slice::from_raw_parts(self.ptr.as_ptr().cast(),self.lenasusize)", "deref")?;
    expect(deref_mut, "slice::from_raw_parts_mut(self.ptr.as_ptr()as_,self.lenasusize)", "deref_mut")?;
    expect(as_init, "self", "as_init")?;
    expect(as_uninit, "slice::from_raw_parts_mut(self.ptr.as_ptr(),self.capasusize)", "as_uninit")?;

    let list = |v: &[&str]| v.iter().map(|k| format!(".{k}")).collect::<Vec<_>>().join(", ");
    let mut s = header("PoolBufRef", &[rel]);
    writeln!(s, "import Compio.Model.ViewAppend\n").unwrap();
    writeln!(s, "namespace Compio.Gen.PoolBufRef\nopen Compio.Pool\n").unwrap();
    writeln!(s, "/-- statements of `BufferRef::set_capacity(&mut self, cap)` in source order (`with_capacity` = `self.set_capacity(cap); self`) -/").unwrap();
    writeln!(s, "def setCapacityBody : List Stmt := [{}]\n", list(&set_cap)).unwrap();
    writeln!(s, "/-- statements of `<BufferRef as SetLen>::set_len(&mut self, len)` in source order -/").unwrap();
    writeln!(s, "def setLenBody : List Stmt := [{}]\n", list(&set_len)).unwrap();
    writeln!(s, "/-- `as_init()` (through `Deref`) is `len` bytes and `as_uninit()` is `cap` bytes, both from `self.ptr` (recognised shapes) -/").unwrap();
    writeln!(s, "def regionsFromBasePtr : Bool := true\n").unwrap();
    writeln!(s, "end Compio.Gen.PoolBufRef").unwrap();
    Ok(s)
}
