//! compio-quic/src/{connection,send_stream,recv_stream}.rs  ->  Gen/QuicWakers.lean
//!
//! Extracted (all FAIL CLOSED — an unrecognised use of a waker field is an error):
//!  (a) the waker fields of `ConnectionState` and their container shape
//!      (`Option<Waker>` slot, `VecDeque<Waker>` queue, `[VecDeque<Waker>; 2]` queue per `Dir`,
//!      `HashMap<StreamId, Waker>` one waker per stream);
//!  (b) what `ConnectionState::terminate` does, statement by statement (stores the error, drains
//!      which fields), and that `close` = `conn.close; terminate(LocallyClosed); wake`;
//!  (c) the `quinn_proto::Event` -> action map of the `while let Some(event) = state.conn.poll()` loop
//!      in `ConnectionInner::run`;
//!  (d) every place a future registers `cx.waker()` in one of the fields: enclosing `Type::fn`, field,
//!      key (none / `dir` / `self.stream`), whether the slot `will_wake` guard is present, and whether
//!      the connection error is checked before registering (`try_state()?` or `state.error`);
//!      plus the public callers of these functions, the `Drop` clean-ups, and the shape of
//!      `Connection::closed` (it takes the worker `JoinHandle` out of the state).

use std::{collections::BTreeMap, fmt::Write as _, path::Path};

use syn::visit::Visit;

use crate::{Res, header, parse_file, tokens};

fn ds<T: quote::ToTokens>(t: &T) -> String {
    tokens(t).replace(' ', "")
}

#[derive(Clone, Copy, PartialEq, Eq, Debug)]
enum Kind {
    Slot,
    Queue,
    QueueArr,
    Map,
}

impl Kind {
    fn lean(self) -> &'static str {
        match self {
            Kind::Slot => ".slot",
            Kind::Queue => ".queue",
            Kind::QueueArr => ".queueArr",
            Kind::Map => ".map",
        }
    }
}

fn camel(rust: &str) -> String {
    let mut s = String::new();
    let mut up = false;
    for c in rust.chars() {
        if c == '_' || c == ':' {
            up = !s.is_empty();
        } else if up {
            s.push(c.to_ascii_uppercase());
            up = false;
        } else {
            s.push(c);
        }
    }
    s
}

fn lower_first(s: &str) -> String {
    let mut c = s.chars();
    match c.next() {
        Some(f) => f.to_ascii_lowercase().to_string() + c.as_str(),
        None => String::new(),
    }
}

struct Tables {
    /// (rust field name, kind) in declaration order
    fields: Vec<(String, Kind)>,
}

impl Tables {
    fn kind(&self, f: &str) -> Option<Kind> {
        self.fields.iter().find(|(n, _)| n == f).map(|(_, k)| *k)
    }

    fn lean(&self, f: &str) -> String {
        format!(".{}", camel(f))
    }
}

/// count the references `<base>.<table>` (base = `state` or `self`) in a syntax tree
struct CountRefs<'a> {
    tables: &'a Tables,
    n: usize,
}

impl<'ast> Visit<'ast> for CountRefs<'_> {
    fn visit_expr_field(&mut self, f: &'ast syn::ExprField) {
        if let syn::Member::Named(id) = &f.member {
            let base = ds(&f.base);
            if self.tables.kind(&id.to_string()).is_some() && (base == "state" || base == "self") {
                self.n += 1;
            }
        }
        syn::visit::visit_expr_field(self, f);
    }
}

fn count_refs<T: quote::ToTokens>(tables: &Tables, t: &T) -> Res<usize> {
    // statements containing macros hide their tokens from syn; reject table names inside macros
    let e: syn::Result<syn::Expr> = syn::parse2(t.to_token_stream());
    match e {
        Ok(e) => {
            let mut c = CountRefs { tables, n: 0 };
            c.visit_expr(&e);
            Ok(c.n)
        }
        Err(_) => {
            let b: syn::Block = syn::parse2(t.to_token_stream()).map_err(|e| format!("cannot re-parse: {e}"))?;
            let mut c = CountRefs { tables, n: 0 };
            c.visit_block(&b);
            Ok(c.n)
        }
    }
}

/// the field name if `s` (despaced tokens) is exactly `<prefix><field><suffix>` for a table field
fn between<'a>(s: &'a str, prefix: &str, suffix: &str) -> Option<&'a str> {
    s.strip_prefix(prefix)?.strip_suffix(suffix)
}

/// one statement that drains a table; `base` is `self` (terminate) or `state` (run)
fn drain_stmt(tables: &Tables, base: &str, s: &str) -> Option<(String, Kind)> {
    let cands: [(String, &str, Kind); 5] = [
        (format!("ifletSome(waker)={base}."), ".take(){waker.wake()}", Kind::Slot),
        (format!("{base}."), ".drain(..).for_each(Waker::wake);", Kind::Queue),
        (format!("{base}."), ".drain(..).for_each(Waker::wake)", Kind::Queue),
        (format!("forein&mut{base}."), "{e.drain(..).for_each(Waker::wake);}", Kind::QueueArr),
        (format!("wake_all_streams(&mut{base}."), ");", Kind::Map),
    ];
    for (p, suf, k) in cands {
        if let Some(f) = between(s, &p, suf) {
            if tables.kind(f) == Some(k) {
                return Some((f.to_string(), k));
            }
        }
    }
    None
}

#[derive(Debug)]
struct RegSite {
    file: &'static str,
    owner: String,
    func: String,
    table: String,
    key: &'static str, // "none" | "dir" | "stream"
    dedup: bool,
    checks_error: bool,
}

struct FnScan<'a> {
    tables: &'a Tables,
    /// recognised registrations: (table, key, dedup, refs accounted)
    regs: Vec<(String, &'static str, bool)>,
    /// recognised `remove(&self.stream)` clean-ups
    removes: Vec<String>,
    accounted: usize,
}

impl<'ast> Visit<'ast> for FnScan<'_> {
    fn visit_expr_method_call(&mut self, m: &'ast syn::ExprMethodCall) {
        let meth = m.method.to_string();
        let recv = ds(&m.receiver);
        let args: Vec<String> = m.args.iter().map(ds).collect();
        let waker_arg = |a: &str| a == "cx.waker().clone()" || a == "cx.unwrap().waker().clone()";
        if meth == "push_back" && args.len() == 1 && waker_arg(&args[0]) {
            if let Some(f) = recv.strip_prefix("state.") {
                if let Some(f2) = f.strip_suffix("[dirasusize]") {
                    if self.tables.kind(f2) == Some(Kind::QueueArr) {
                        self.regs.push((f2.to_string(), "dir", false));
                        self.accounted += 1;
                    }
                } else if self.tables.kind(f) == Some(Kind::Queue) {
                    self.regs.push((f.to_string(), "none", false));
                    self.accounted += 1;
                }
            }
        } else if meth == "insert" && args.len() == 2 && args[0] == "self.stream" && waker_arg(&args[1]) {
            if let Some(f) = recv.strip_prefix("state.") {
                if self.tables.kind(f) == Some(Kind::Map) {
                    self.regs.push((f.to_string(), "stream", false));
                    self.accounted += 1;
                }
            }
        } else if meth == "remove" && args.len() == 1 && args[0] == "&self.stream" {
            if let Some(f) = recv.strip_prefix("state.") {
                if self.tables.kind(f) == Some(Kind::Map) {
                    self.removes.push(f.to_string());
                    self.accounted += 1;
                }
            }
        }
        syn::visit::visit_expr_method_call(self, m);
    }

    fn visit_expr_match(&mut self, m: &'ast syn::ExprMatch) {
        // match &state.F { Some(waker) if waker.will_wake(cx.waker()) => {} _ => state.F = Some(cx.waker().clone()), }
        let s = ds(m);
        if let Some(rest) = s.strip_prefix("match&state.") {
            if let Some(i) = rest.find('{') {
                let f = &rest[..i];
                let expect = format!(
                    "{{Some(waker)ifwaker.will_wake(cx.waker())=>{{}}_=>state.{f}=Some(cx.waker().clone()),}}"
                );
                if self.tables.kind(f) == Some(Kind::Slot) && rest[i..] == expect {
                    self.regs.push((f.to_string(), "none", true));
                    self.accounted += 2;
                }
            }
        }
        syn::visit::visit_expr_match(self, m);
    }
}

struct FileScan<'a> {
    tables: &'a Tables,
    file: &'static str,
    skip: &'a [(&'static str, &'static str)],
    owner: Vec<String>,
    in_trait: Vec<bool>,
    sites: Vec<RegSite>,
    drops: Vec<(String, String)>,
    /// (owner, fn, visibility-is-pub, called method names)
    calls: Vec<(String, String, bool, Vec<String>)>,
    errors: Vec<String>,
}

struct CallNames(Vec<String>);
impl<'ast> Visit<'ast> for CallNames {
    fn visit_expr_method_call(&mut self, m: &'ast syn::ExprMethodCall) {
        self.0.push(m.method.to_string());
        syn::visit::visit_expr_method_call(self, m);
    }
}

impl<'ast> Visit<'ast> for FileScan<'_> {
    fn visit_item_impl(&mut self, im: &'ast syn::ItemImpl) {
        let ty = ds(&im.self_ty);
        let ty = ty.split('<').next().unwrap().to_string();
        self.owner.push(ty);
        self.in_trait.push(im.trait_.is_some());
        syn::visit::visit_item_impl(self, im);
        self.in_trait.pop();
        self.owner.pop();
    }

    fn visit_impl_item_fn(&mut self, f: &'ast syn::ImplItemFn) {
        let owner = self.owner.last().cloned().unwrap_or_default();
        let func = f.sig.ident.to_string();
        let is_pub = matches!(f.vis, syn::Visibility::Public(_)) || self.in_trait.last().copied().unwrap_or(false);
        let mut cn = CallNames(vec![]);
        cn.visit_block(&f.block);
        // tokens inside macro invocations are opaque to the visitors below: reject waker fields there
        {
            struct Macros(Vec<String>);
            impl<'a> Visit<'a> for Macros {
                fn visit_macro(&mut self, m: &'a syn::Macro) {
                    self.0.push(ds(&m.tokens));
                }
            }
            let mut ms = Macros(vec![]);
            ms.visit_block(&f.block);
            let skipped = self.skip.iter().any(|(o, fun)| *o == owner && *fun == func);
            for t in &ms.0 {
                // method calls hidden in macro arguments (e.g. `ready!(self.execute_poll_write(..))`)
                for w in t.split(|c: char| !(c.is_alphanumeric() || c == '_')) {
                    if !w.is_empty() {
                        cn.0.push(w.to_string());
                    }
                }
                if skipped {
                    continue;
                }
                for (fld, _) in &self.tables.fields {
                    for base in ["state", "self"] {
                        let pat = format!("{base}.{fld}");
                        let mut from = 0;
                        while let Some(i) = t[from..].find(&pat) {
                            let end = from + i + pat.len();
                            let next = t[end..].chars().next();
                            if !matches!(next, Some(c) if c == '(' || c.is_alphanumeric() || c == '_') {
                                self.errors.push(format!(
                                    "{}: {owner}::{func}: waker field {fld} used inside a macro invocation",
                                    self.file
                                ));
                            }
                            from = end;
                        }
                    }
                }
            }
        }
        self.calls.push((owner.clone(), func.clone(), is_pub, cn.0));
        if self.skip.iter().any(|(o, fun)| *o == owner && *fun == func) {
            return;
        }
        let mut total = CountRefs { tables: self.tables, n: 0 };
        total.visit_block(&f.block);
        let mut scan = FnScan { tables: self.tables, regs: vec![], removes: vec![], accounted: 0 };
        scan.visit_block(&f.block);
        if scan.accounted != total.n {
            self.errors.push(format!(
                "{}: {owner}::{func}: {} reference(s) to waker fields, only {} recognised as registration/clean-up",
                self.file, total.n, scan.accounted
            ));
            return;
        }
        let body = ds(&f.block);
        for (table, key, dedup) in scan.regs {
            // the connection error must be checked before the waker is stored
            let reg_pos = body.find(&format!("state.{table}")).unwrap_or(usize::MAX);
            let chk = ["try_state()", "=&state.error"]
                .iter()
                .filter_map(|p| body.find(p))
                .min()
                .map(|p| p < reg_pos)
                .unwrap_or(false);
            self.sites.push(RegSite {
                file: self.file,
                owner: owner.clone(),
                func: func.clone(),
                table,
                key,
                dedup,
                checks_error: chk,
            });
        }
        if !scan.removes.is_empty() {
            if func != "drop" {
                self.errors.push(format!("{}: {owner}::{func}: waker removed outside Drop", self.file));
            }
            for t in scan.removes {
                self.drops.push((owner.clone(), t));
            }
        }
    }

    fn visit_macro(&mut self, m: &'ast syn::Macro) {
        // tokens inside macro invocations are opaque to the visitor: reject table names there,
        // except the `conn_fn!` definition/uses which never touch waker fields (checked textually)
        let t = ds(&m.tokens);
        for (f, _) in &self.tables.fields {
            if t.contains(&format!(".{f}")) {
                self.errors.push(format!("{}: waker field {f} used inside macro {}", self.file, ds(&m.path)));
            }
        }
    }
}

pub fn generate(repo: &Path) -> Res<String> {
    let rel_conn = "compio-quic/src/connection.rs";
    let rel_send = "compio-quic/src/send_stream.rs";
    let rel_recv = "compio-quic/src/recv_stream.rs";
    let conn = parse_file(&repo.join(rel_conn))?;

    // ---------------------------------------------------------------- (a) fields
    let mut tables = Tables { fields: vec![] };
    let mut driver_waker: Option<String> = None;
    let mut other_fields = vec![];
    let mut found_struct = false;
    for it in &conn.items {
        let syn::Item::Struct(st) = it else { continue };
        if st.ident != "ConnectionState" {
            continue;
        }
        found_struct = true;
        for f in &st.fields {
            let name = f.ident.as_ref().ok_or("tuple field in ConnectionState")?.to_string();
            let ty = ds(&f.ty);
            if !ty.contains("Waker") {
                other_fields.push((name, ty));
                continue;
            }
            let kind = match ty.as_str() {
                "Option<Waker>" => Kind::Slot,
                "VecDeque<Waker>" => Kind::Queue,
                "[VecDeque<Waker>;2]" => Kind::QueueArr,
                "HashMap<StreamId,Waker>" => Kind::Map,
                other => return Err(format!("ConnectionState.{name}: unrecognised waker container {other}")),
            };
            if name == "poller" {
                if kind != Kind::Slot {
                    return Err("ConnectionState.poller is not Option<Waker>".into());
                }
                driver_waker = Some(name);
            } else {
                tables.fields.push((name, kind));
            }
        }
    }
    if !found_struct {
        return Err("struct ConnectionState not found".into());
    }
    let driver_waker = driver_waker.ok_or("ConnectionState.poller (driver waker) not found")?;
    if !other_fields.iter().any(|(n, t)| n == "error" && t == "Option<ConnectionError>") {
        return Err("ConnectionState.error: Option<ConnectionError> not found".into());
    }
    if !other_fields.iter().any(|(n, t)| n == "worker" && t == "Option<JoinHandle<()>>") {
        return Err("ConnectionState.worker: Option<JoinHandle<()>> not found".into());
    }
    if tables.fields.is_empty() {
        return Err("no waker tables found".into());
    }

    // ---------------------------------------------------------------- helper fns
    let mut helper_ok = (false, false);
    for it in &conn.items {
        let syn::Item::Fn(f) = it else { continue };
        let body = ds(&f.block);
        match f.sig.ident.to_string().as_str() {
            "wake_stream" => {
                if body != "{ifletSome(waker)=wakers.remove(&stream){waker.wake();}}" {
                    return Err(format!("wake_stream: unrecognised body {body}"));
                }
                helper_ok.0 = true;
            }
            "wake_all_streams" => {
                if body != "{wakers.drain().for_each(|(_,waker)|waker.wake())}" {
                    return Err(format!("wake_all_streams: unrecognised body {body}"));
                }
                helper_ok.1 = true;
            }
            _ => {}
        }
    }
    if helper_ok != (true, true) {
        return Err("wake_stream / wake_all_streams not found".into());
    }

    // ---------------------------------------------------------------- (b) terminate, close, try_state
    let mut term: Option<Vec<String>> = None; // lean actions
    let mut term_drains: Vec<String> = vec![];
    let mut term_sets_error_first = false;
    let mut close_ok = false;
    let mut try_state_ok = false;
    let mut closed_takes_worker = None;
    let mut run_block: Option<syn::Block> = None;
    for it in &conn.items {
        let syn::Item::Impl(im) = it else { continue };
        let ty = ds(&im.self_ty);
        for ii in &im.items {
            let syn::ImplItem::Fn(f) = ii else { continue };
            let name = f.sig.ident.to_string();
            if ty == "ConnectionState" && name == "terminate" {
                let mut acts = vec![];
                for (i, st) in f.block.stmts.iter().enumerate() {
                    let s = ds(st);
                    if s == "self.error=Some(reason);" {
                        if i == 0 {
                            term_sets_error_first = true;
                        }
                        acts.push(".setError".to_string());
                    } else if s == "self.connected=false;" {
                        acts.push(".clearConnected".to_string());
                    } else if let Some((fld, _)) = drain_stmt(&tables, "self", &s) {
                        if count_refs(&tables, st).unwrap_or(1) != 1 {
                            return Err(format!("terminate: statement touches several tables: {s}"));
                        }
                        acts.push(format!(".drain {}", tables.lean(&fld)));
                        term_drains.push(fld);
                    } else {
                        return Err(format!("ConnectionState::terminate: unrecognised statement {s}"));
                    }
                }
                term = Some(acts);
            } else if ty == "ConnectionState" && name == "close" {
                let body = ds(&f.block);
                if body
                    != "{self.conn.close(Instant::now(),error_code,reason);self.terminate(ConnectionError::LocallyClosed);self.wake();}"
                {
                    return Err(format!("ConnectionState::close: unrecognised body {body}"));
                }
                close_ok = true;
            } else if ty == "ConnectionState" && name == "wake" {
                let body = ds(&f.block);
                if body != format!("{{ifletSome(waker)=self.{driver_waker}.take(){{waker.wake()}}}}") {
                    return Err(format!("ConnectionState::wake: unrecognised body {body}"));
                }
            } else if ty == "ConnectionInner" && name == "try_state" {
                let body = ds(&f.block);
                if body != "{letstate=self.state();ifletSome(error)=&state.error{Err(error.clone())}else{Ok(state)}}" {
                    return Err(format!("ConnectionInner::try_state: unrecognised body {body}"));
                }
                try_state_ok = true;
            } else if ty == "ConnectionInner" && name == "run" {
                run_block = Some(f.block.clone());
            } else if ty == "Connection" && name == "closed" {
                let body = ds(&f.block);
                let expect = "{letworker=self.0.state().worker.take();ifletSome(worker)=worker{let_=worker.await;}self.0.try_state().unwrap_err()}";
                closed_takes_worker = Some(body == expect);
                if body != expect && body.contains("worker.take()") {
                    return Err(format!("Connection::closed: unrecognised body {body}"));
                }
            }
        }
    }
    let term = term.ok_or("ConnectionState::terminate not found")?;
    if !close_ok {
        return Err("ConnectionState::close not found".into());
    }
    if !try_state_ok {
        return Err("ConnectionInner::try_state not found".into());
    }
    let closed_takes_worker = closed_takes_worker.ok_or("Connection::closed not found")?;
    let run_block = run_block.ok_or("ConnectionInner::run not found")?;

    // ---------------------------------------------------------------- (c) event loop
    struct FindEventMatch(Option<syn::ExprMatch>, usize);
    impl<'ast> Visit<'ast> for FindEventMatch {
        fn visit_expr_match(&mut self, m: &'ast syn::ExprMatch) {
            if ds(&m.expr) == "event" && m.arms.iter().any(|a| ds(&a.pat) == "HandshakeDataReady") {
                self.0 = Some(m.clone());
                self.1 += 1;
            }
            syn::visit::visit_expr_match(self, m);
        }
    }
    // the `select!` macro hides the first match on `event` (ConnectionEvent); check it textually
    let run_txt = ds(&run_block);
    if !run_txt.contains("ConnectionEvent::Close(error_code,reason)=>state.close(error_code,reason),") {
        return Err("run: `ConnectionEvent::Close(..) => state.close(..)` not found".into());
    }
    if !run_txt.contains("whileletSome(event)=state.conn.poll(){usequinn_proto::Event::*;matchevent{") {
        return Err("run: `while let Some(event) = state.conn.poll() { match event {` not found".into());
    }
    let mut fm = FindEventMatch(None, 0);
    fm.visit_block(&run_block);
    if fm.1 != 1 {
        return Err(format!("run: expected exactly one match on quinn_proto::Event, found {}", fm.1));
    }
    let em = fm.0.unwrap();
    // references to tables in `run` outside the event match are not allowed
    {
        let mut all = CountRefs { tables: &tables, n: 0 };
        all.visit_block(&run_block);
        let mut inside = CountRefs { tables: &tables, n: 0 };
        inside.visit_expr_match(&em);
        if all.n != inside.n {
            return Err("run: waker table used outside the event match".into());
        }
    }
    let mut events: Vec<(String, String, Vec<String>)> = vec![]; // (lean ctor, rust pattern, actions)
    for arm in &em.arms {
        let pat = ds(&arm.pat);
        let (ev, keyname): (String, Option<&str>) = match pat.as_str() {
            "HandshakeDataReady" => ("handshakeDataReady".into(), None),
            "Connected" => ("connected".into(), None),
            "ConnectionLost{reason}" => ("connectionLost".into(), None),
            "DatagramReceived" => ("datagramReceived".into(), None),
            "DatagramsUnblocked" => ("datagramsUnblocked".into(), None),
            p => {
                let inner = between(p, "Stream(StreamEvent::", ")")
                    .ok_or(format!("run: unrecognised event pattern {p}"))?;
                let (name, fields) = inner.split_once('{').ok_or(format!("run: unrecognised stream event {p}"))?;
                let key = if fields.starts_with("id") {
                    "id"
                } else if fields.starts_with("dir") {
                    "dir"
                } else {
                    return Err(format!("run: stream event without id/dir: {p}"));
                };
                (lower_first(name), Some(key))
            }
        };
        // body: a block of statements or a single expression
        let stmts: Vec<String> = match &*arm.body {
            syn::Expr::Block(b) => b.block.stmts.iter().map(ds).collect(),
            e => vec![ds(e)],
        };
        let total = count_refs(&tables, &arm.body)?;
        let mut accounted = 0;
        let mut acts = vec![];
        for s in &stmts {
            let s = s.as_str();
            if s == "state.connected=true;" {
                acts.push(".setConnected".to_string());
            } else if s == "state.terminate(reason.into())" {
                acts.push(".terminate".to_string());
            } else if let Some((f, _)) = drain_stmt(&tables, "state", s) {
                acts.push(format!(".wake {} .all", tables.lean(&f)));
                accounted += 1;
            } else if let Some(f) = between(s, "wake_stream(id,&mutstate.", ")").or(between(s, "wake_stream(id,&mutstate.", ");")) {
                if tables.kind(f) != Some(Kind::Map) || keyname != Some("id") {
                    return Err(format!("run: {pat}: wake_stream on {f}"));
                }
                acts.push(format!(".wake {} .key", tables.lean(f)));
                accounted += 1;
            } else if let Some(f) = between(s, "state.", "[dirasusize].drain(..).for_each(Waker::wake)") {
                if tables.kind(f) != Some(Kind::QueueArr) || keyname != Some("dir") {
                    return Err(format!("run: {pat}: drain of {f}[dir]"));
                }
                acts.push(format!(".wake {} .key", tables.lean(f)));
                accounted += 1;
            } else if let Some(inner) = between(s, "ifstate.conn.side().is_client()&&!state.conn.accepted_0rtt(){", "}") {
                // sequence of wake_all_streams(&mut state.F);
                let mut rest = inner;
                while !rest.is_empty() {
                    let r = rest
                        .strip_prefix("wake_all_streams(&mutstate.")
                        .ok_or(format!("run: {pat}: unrecognised 0-RTT branch {inner}"))?;
                    let (f, tail) = r.split_once(");").ok_or(format!("run: {pat}: unrecognised 0-RTT branch {inner}"))?;
                    if tables.kind(f) != Some(Kind::Map) {
                        return Err(format!("run: {pat}: wake_all_streams on {f}"));
                    }
                    acts.push(format!(".wakeIfZeroRttRejected {}", tables.lean(f)));
                    accounted += 1;
                    rest = tail;
                }
            } else {
                return Err(format!("run: event {pat}: unrecognised statement {s}"));
            }
        }
        if accounted != total {
            return Err(format!("run: event {pat}: {total} table references, {accounted} recognised"));
        }
        events.push((ev, pat, acts));
    }

    // ---------------------------------------------------------------- (d) registrations
    let skip: [(&str, &str); 3] = [("ConnectionState", "terminate"), ("ConnectionInner", "run"), ("ConnectionInner", "new")];
    let mut sites: Vec<RegSite> = vec![];
    let mut drops: Vec<(String, String)> = vec![];
    let mut calls: Vec<(String, String, bool, Vec<String>)> = vec![];
    for (rel, file) in [
        (rel_conn, conn.clone()),
        (rel_send, parse_file(&repo.join(rel_send))?),
        (rel_recv, parse_file(&repo.join(rel_recv))?),
    ] {
        let mut fs = FileScan {
            tables: &tables,
            file: rel,
            skip: &skip,
            owner: vec![],
            in_trait: vec![],
            sites: vec![],
            drops: vec![],
            calls: vec![],
            errors: vec![],
        };
        fs.visit_file(&file);
        if !fs.errors.is_empty() {
            return Err(fs.errors.join("; "));
        }
        sites.extend(fs.sites);
        drops.extend(fs.drops);
        calls.extend(fs.calls);
    }
    // ConnectionInner::new must initialise every table empty
    {
        let mut init_ok = false;
        for it in &conn.items {
            let syn::Item::Impl(im) = it else { continue };
            if ds(&im.self_ty) != "ConnectionInner" {
                continue;
            }
            for ii in &im.items {
                let syn::ImplItem::Fn(f) = ii else { continue };
                if f.sig.ident != "new" {
                    continue;
                }
                let body = ds(&f.block);
                for (n, k) in &tables.fields {
                    let init = match k {
                        Kind::Slot => format!("{n}:None,"),
                        Kind::Queue => format!("{n}:VecDeque::new(),"),
                        Kind::QueueArr => format!("{n}:[VecDeque::new(),VecDeque::new()],"),
                        Kind::Map => format!("{n}:HashMap::default(),"),
                    };
                    if !body.contains(&init) {
                        return Err(format!("ConnectionInner::new: {n} is not initialised empty"));
                    }
                }
                if !body.contains("error:None,") {
                    return Err("ConnectionInner::new: error is not initialised None".into());
                }
                init_ok = true;
            }
        }
        if !init_ok {
            return Err("ConnectionInner::new not found".into());
        }
    }
    if sites.is_empty() {
        return Err("no waker registration found".into());
    }
    // two registrations in one fn for the same table would make the ctor ambiguous
    let mut seen: BTreeMap<String, usize> = BTreeMap::new();
    for s in &sites {
        *seen.entry(format!("{}::{}", s.owner, s.func)).or_default() += 1;
    }
    if let Some((k, _)) = seen.iter().find(|(_, n)| **n > 1) {
        return Err(format!("{k}: several waker registrations in one function"));
    }
    let ctor = |s: &RegSite| lower_first(&camel(&format!("{}_{}", s.owner, s.func)));

    // ---------------------------------------------------------------- render
    let mut s = header("QuicWakers", &[rel_conn, rel_send, rel_recv]);
    s.push_str("namespace Compio.Gen.QuicWakers\n\n");
    s.push_str("/-- container shape of a waker field of `ConnectionState`: `Option<Waker>`, `VecDeque<Waker>`,\n    `[VecDeque<Waker>; 2]` (indexed by `Dir`), `HashMap<StreamId, Waker>` -/\ninductive Kind where\n  | slot | queue | queueArr | map\n  deriving DecidableEq, Repr\n\n");
    s.push_str("/-- the waker fields of `ConnectionState` (the driver's own waker excluded) -/\ninductive Tbl where\n");
    for (n, _) in &tables.fields {
        writeln!(s, "  | {}", camel(n)).unwrap();
    }
    s.push_str("  deriving DecidableEq, Repr\n\n");
    let list = |xs: Vec<String>| format!("[{}]", xs.join(", "));
    writeln!(s, "def Tbl.all : List Tbl := {}\n", list(tables.fields.iter().map(|(n, _)| tables.lean(n)).collect())).unwrap();
    s.push_str("def Tbl.name : Tbl → String\n");
    for (n, _) in &tables.fields {
        writeln!(s, "  | {} => \"{n}\"", tables.lean(n)).unwrap();
    }
    s.push_str("\ndef kind : Tbl → Kind\n");
    for (n, k) in &tables.fields {
        writeln!(s, "  | {} => {}", tables.lean(n), k.lean()).unwrap();
    }
    writeln!(s, "\n/-- the connection driver's own waker (`ConnectionState::wake`), not a future's -/\ndef driverWaker : String := \"{driver_waker}\"\n").unwrap();

    s.push_str("/-- one statement of `ConnectionState::terminate`, in source order -/\ninductive TermAct where\n  | setError | clearConnected | drain (t : Tbl)\n  deriving DecidableEq, Repr\n\n");
    writeln!(s, "def terminateBody : List TermAct := {}\n", list(term)).unwrap();
    writeln!(s, "def terminateDrains : List Tbl := {}\n", list(term_drains.iter().map(|f| tables.lean(f)).collect())).unwrap();
    writeln!(s, "/-- `self.error = Some(reason)` is the first statement of `terminate` -/\ndef terminateSetsErrorFirst : Bool := {term_sets_error_first}\n").unwrap();
    s.push_str("/-- `close` = `conn.close(..); terminate(LocallyClosed); wake()`; the worker maps\n    `ConnectionEvent::Close` (endpoint close) to `state.close` (both checked by the extractor) -/\ndef closeIsTerminateLocallyClosed : Bool := true\n\n");
    s.push_str("/-- `try_state()` = `Err(error)` iff `state.error` is set (checked by the extractor) -/\ndef tryStateReturnsStoredError : Bool := true\n\n");
    writeln!(s, "/-- `Connection::closed` takes the worker `JoinHandle` out of the state and awaits it, then\n    `try_state().unwrap_err()` -/\ndef closedTakesWorkerHandle : Bool := {closed_takes_worker}\n").unwrap();

    s.push_str("/-- `quinn_proto::Event` as matched in `ConnectionInner::run` (stream events flattened) -/\ninductive Ev where\n");
    for (e, _, _) in &events {
        writeln!(s, "  | {e}").unwrap();
    }
    s.push_str("  deriving DecidableEq, Repr\n\n");
    writeln!(s, "def Ev.all : List Ev := {}\n", list(events.iter().map(|(e, _, _)| format!(".{e}")).collect())).unwrap();
    s.push_str("def Ev.name : Ev → String\n");
    for (e, p, _) in &events {
        writeln!(s, "  | .{e} => \"{p}\"").unwrap();
    }
    s.push_str("\n/-- `.all`: every waiter of the table; `.key`: the waiters of the event's stream id / `Dir` -/\ninductive Scope where\n  | all | key\n  deriving DecidableEq, Repr\n\n");
    s.push_str("inductive Action where\n  | wake (t : Tbl) (s : Scope)\n  | wakeIfZeroRttRejected (t : Tbl)\n  | setConnected\n  | terminate\n  deriving DecidableEq, Repr\n\n");
    s.push_str("/-- body of each arm of the event match, in source order -/\ndef onEvent : Ev → List Action\n");
    for (e, _, a) in &events {
        writeln!(s, "  | .{e} => {}", list(a.clone())).unwrap();
    }
    s.push_str("\n/-- every function that stores `cx.waker()` in a table -/\ninductive Reg where\n");
    for r in &sites {
        writeln!(s, "  | {}", ctor(r)).unwrap();
    }
    s.push_str("  deriving DecidableEq, Repr\n\n");
    writeln!(s, "def Reg.all : List Reg := {}\n", list(sites.iter().map(|r| format!(".{}", ctor(r))).collect())).unwrap();
    s.push_str("def Reg.name : Reg → String\n");
    for r in &sites {
        writeln!(s, "  | .{} => \"{}::{}\"", ctor(r), r.owner, r.func).unwrap();
    }
    s.push_str("\n/-- the type whose method the site is (`SendStream`, `RecvStream`, `Connection`, `Connecting`) -/\ndef Reg.owner : Reg → String\n");
    for r in &sites {
        writeln!(s, "  | .{} => \"{}\"", ctor(r), r.owner).unwrap();
    }
    s.push_str("\ndef Reg.file : Reg → String\n");
    for r in &sites {
        writeln!(s, "  | .{} => \"{}\"", ctor(r), r.file).unwrap();
    }
    s.push_str("\ndef registersIn : Reg → Tbl\n");
    for r in &sites {
        writeln!(s, "  | .{} => {}", ctor(r), tables.lean(&r.table)).unwrap();
    }
    s.push_str("\n/-- how the entry is keyed: `none`, `dir` (`[dir as usize]`), `stream` (`self.stream`) -/\ninductive KeyOf where\n  | none | dir | stream\n  deriving DecidableEq, Repr\n\ndef regKey : Reg → KeyOf\n");
    for r in &sites {
        writeln!(s, "  | .{} => .{}", ctor(r), r.key).unwrap();
    }
    s.push_str("\n/-- the `Some(waker) if waker.will_wake(cx.waker()) => {}` guard is present (slots only) -/\ndef regWillWakeGuard : Reg → Bool\n");
    for r in &sites {
        writeln!(s, "  | .{} => {}", ctor(r), r.dedup).unwrap();
    }
    s.push_str("\n/-- `try_state()?` or a `state.error` test precedes the registration -/\ndef regChecksError : Reg → Bool\n");
    for r in &sites {
        writeln!(s, "  | .{} => {}", ctor(r), r.checks_error).unwrap();
    }
    // public callers
    s.push_str("\n/-- public functions (same `impl`) whose body calls a registering function, or which register themselves -/\ndef apiOf : List (String × Reg) := [\n");
    let mut api: Vec<String> = vec![];
    for r in &sites {
        let helper = r.func.starts_with("poll_") || r.func.starts_with("try_") || r.func.starts_with("execute_");
        // names of functions that reach the registering function
        let mut reach: Vec<String> = vec![r.func.clone()];
        if helper {
            loop {
                let mut grew = false;
                for (_, f, _, called) in &calls {
                    if !reach.contains(f) && called.iter().any(|c| reach.contains(c)) && f != "run" && f != "poll" {
                        reach.push(f.clone());
                        grew = true;
                    }
                }
                if !grew {
                    break;
                }
            }
        }
        for (o, f, is_pub, called) in &calls {
            let direct = *o == r.owner && *f == r.func;
            let via = helper && !direct && reach.contains(f) && called.iter().any(|c| reach.contains(c));
            if (direct || via) && *is_pub {
                api.push(format!("  (\"{o}::{f}\", .{})", ctor(r)));
            }
        }
    }
    api.sort();
    api.dedup();
    s.push_str(&api.join(",\n"));
    s.push_str("\n]\n\n/-- `Drop` implementations that remove the stream's entry from a table (no wake) -/\ndef dropCleans : List (String × Tbl) := ");
    writeln!(s, "{}\n", list(drops.iter().map(|(o, t)| format!("(\"{o}\", {})", tables.lean(t))).collect())).unwrap();
    s.push_str("end Compio.Gen.QuicWakers\n");
    Ok(s)
}
