//! compio-ws/src/lib.rs `impl Sink / Stream for WebSocketStream`  ->  Gen/WsCompat.lean   (property C15)
//!
//! The order of the statements of `poll_flush` (protocol flush, then transport flush, then `Ready`) and of the two
//! branches of the `poll_next` loop (parked item: protocol flush, transport flush, only then `take()` and yield;
//! no parked item: poll the protocol stream, park the item, loop) is what `Model/WsShim.lean` restates and what
//! `ws_next_pending` ("a Pending keeps the item") / `ws_next_ready` depend on. Each statement is recognised by its
//! exact token text; anything else is an error (fails closed).

use std::{fmt::Write as _, path::Path};

use crate::{Res, header, parse_file, tokens};

fn sq<T: quote::ToTokens>(t: &T) -> String {
    tokens(t).chars().filter(|c| !c.is_whitespace()).collect()
}

fn find<'a>(file: &'a syn::File, tr: &str, name: &str) -> Res<&'a syn::ImplItemFn> {
    for it in &file.items {
        let syn::Item::Impl(im) = it else { continue };
        if !sq(&*im.self_ty).starts_with("WebSocketStream<") {
            continue;
        }
        let Some((_, p, _)) = &im.trait_ else { continue };
        if p.segments.last().map(|s| s.ident.to_string()).as_deref() != Some(tr) {
            continue;
        }
        for ii in &im.items {
            if let syn::ImplItem::Fn(f) = ii {
                if f.sig.ident == name {
                    return Ok(f);
                }
            }
        }
    }
    Err(format!("impl {tr} for WebSocketStream: fn {name} not found"))
}

fn kind(st: &syn::Stmt, recv: &str) -> Res<&'static str> {
    let t = sq(st);
    let proto_a = format!("ready!({recv}.inner.as_mut().poll_flush(cx))?;");
    let proto_b = "ready!(self.as_mut().project().inner.poll_flush(cx))?;";
    let tr_a = "ready!(futures_util::AsyncWrite::poll_flush(Pin::new(this.inner.get_mut().get_mut()),cx))?;";
    let tr_b = "ready!(futures_util::AsyncWrite::poll_flush(Pin::new(self.project().inner.get_mut().get_mut()),cx))?;";
    Ok(if t == proto_a || t == proto_b {
        "protoFlush"
    } else if t == tr_a || t == tr_b {
        "transportFlush"
    } else if t == "Poll::Ready(Ok(()))" {
        "readyOk"
    } else if t == "breakPoll::Ready(this.next_item.take().expect(\"next_itemshouldbeSome\"));"
        || t == "breakPoll::Ready(this.next_item.take().expect(\"next_itemshouldbeSome\"))"
    {
        "takeAndYield"
    } else if t == "letitem=ready!(this.inner.as_mut().poll_next(cx));" {
        "pollProtocol"
    } else if t == "*this.next_item=Some(item);" {
        "park"
    } else {
        return Err(format!("compio-ws: unrecognised statement `{}`", tokens(st)));
    })
}

pub fn generate(repo: &Path) -> Res<String> {
    let rel = "compio-ws/src/lib.rs";
    let file = parse_file(&repo.join(rel))?;
    let pf = find(&file, "Sink", "poll_flush")?;
    let flush: Vec<&str> = pf.block.stmts.iter().map(|s| kind(s, "self")).collect::<Res<_>>()?;
    let pn = find(&file, "Stream", "poll_next")?;
    let st = &pn.block.stmts;
    if st.len() != 2 || sq(&st[0]) != "letmutthis=self.project();" {
        return Err(format!("WebSocketStream::poll_next: unrecognised body {}", tokens(&pn.block)));
    }
    let syn::Stmt::Expr(syn::Expr::Loop(lp), _) = &st[1] else {
        return Err("WebSocketStream::poll_next: second statement is not a loop".into());
    };
    let [syn::Stmt::Expr(syn::Expr::If(iff), _)] = lp.body.stmts.as_slice() else {
        return Err("WebSocketStream::poll_next: loop body is not a single if".into());
    };
    if sq(&*iff.cond) != "this.next_item.is_some()" {
        return Err(format!("WebSocketStream::poll_next: loop guard is not this.next_item.is_some(): {}", tokens(&*iff.cond)));
    }
    let parked: Vec<&str> = iff.then_branch.stmts.iter().map(|s| kind(s, "this")).collect::<Res<_>>()?;
    let Some((_, els)) = &iff.else_branch else {
        return Err("WebSocketStream::poll_next: no else branch".into());
    };
    let syn::Expr::Block(eb) = &**els else {
        return Err("WebSocketStream::poll_next: else branch is not a block".into());
    };
    let empty: Vec<&str> = eb.block.stmts.iter().map(|s| kind(s, "this")).collect::<Res<_>>()?;
    // the remaining Sink methods are pure delegations
    for (name, want) in [
        ("poll_ready", "self.project().inner.poll_ready(cx)"),
        ("start_send", "self.project().inner.start_send(item)"),
        ("poll_close", "self.project().inner.poll_close(cx)"),
    ] {
        let f = find(&file, "Sink", name)?;
        if f.block.stmts.iter().map(sq).collect::<String>() != want {
            return Err(format!("WebSocketStream::{name} is not `{want}`"));
        }
    }
    let lit = |v: &[&str]| v.iter().map(|k| format!(".{k}")).collect::<Vec<_>>().join(", ");
    let mut s = header("WsCompat", &[rel]);
    s.push_str("namespace Compio.Gen.WsCompat\n\ninductive Stmt where\n  | protoFlush       -- `ready!(inner.poll_flush(cx))?` (tungstenite: additional, out, then its stream flush)\n  | transportFlush   -- `ready!(AsyncWrite::poll_flush(transport, cx))?`\n  | readyOk          -- `Poll::Ready(Ok(()))`\n  | takeAndYield     -- `break Poll::Ready(this.next_item.take().expect(..))`\n  | pollProtocol     -- `let item = ready!(inner.poll_next(cx));`\n  | park             -- `*this.next_item = Some(item);`\n  deriving DecidableEq, Repr\n\n");
    writeln!(s, "/-- `Sink::poll_flush`, statements in source order -/\ndef pollFlush : List Stmt := [{}]\n", lit(&flush)).unwrap();
    writeln!(s, "/-- `Stream::poll_next`, loop branch `next_item.is_some()` -/\ndef pollNextParked : List Stmt := [{}]\n", lit(&parked)).unwrap();
    writeln!(s, "/-- `Stream::poll_next`, loop branch without a parked item (then the loop repeats) -/\ndef pollNextEmpty : List Stmt := [{}]\n", lit(&empty)).unwrap();
    writeln!(s, "/-- `poll_ready`, `start_send`, `poll_close` are pure delegations to the protocol stream -/\ndef sinkRestDelegates : Bool := true\n").unwrap();
    s.push_str("end Compio.Gen.WsCompat\n");
    Ok(s)
}
