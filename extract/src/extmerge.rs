//! compio-runtime/src/future/combinator/mod.rs `struct Ext` + `impl Ext { fn with_*(&self, ..) -> Self }`  ->  Gen/ExtMerge.lean
//!
//! Every combinator (`with_cancel`, `with_personality`, …) layers ONE piece of information onto the `Ext` that the
//! waker carries down to `Submit::poll`. For every `with_*` builder the table records which field it SETS and which
//! fields it PRESERVES (`field: self.field` / `self.field.clone()`). A field that is neither (e.g. reset through
//! `..Default::default()`) is listed as dropped. `Compio.Props.C05.outer_token_visible_through_any_stack` is proved over
//! this table: every builder preserves every other field, so a token attached by an outer `with_cancel` reaches
//! `Submit::poll` through any stack of inner combinators.
//!
//! Fails closed on shapes it does not understand (a builder body that is not a single `Self { .. }` literal, a rest
//! expression other than `..Default::default()`, a field expression that is neither a plain preserve nor free of `self.<field>`).

use std::{fmt::Write as _, path::Path};

use crate::{Res, header, parse_file, tokens};

fn squash(s: &str) -> String {
    s.chars().filter(|c| !c.is_whitespace()).collect()
}

pub fn generate(repo: &Path) -> Res<String> {
    let rel = "compio-runtime/src/future/combinator/mod.rs";
    let file = parse_file(&repo.join(rel))?;
    // fields of `struct Ext`
    let mut fields: Vec<String> = vec![];
    for item in &file.items {
        if let syn::Item::Struct(st) = item {
            if st.ident == "Ext" {
                for f in &st.fields {
                    fields.push(f.ident.as_ref().ok_or("tuple struct Ext")?.to_string());
                }
            }
        }
    }
    if fields.is_empty() {
        return Err("struct Ext not found".into());
    }
    // builders
    let mut rows: Vec<(String, Vec<String>, Vec<String>, Vec<String>)> = vec![];
    for item in &file.items {
        let syn::Item::Impl(imp) = item else { continue };
        if imp.trait_.is_some() || !squash(&tokens(&*imp.self_ty)).starts_with("Ext<") {
            continue;
        }
        for it in &imp.items {
            let syn::ImplItem::Fn(f) = it else { continue };
            let name = f.sig.ident.to_string();
            if !name.starts_with("with_") {
                continue;
            }
            if f.block.stmts.len() != 1 {
                return Err(format!("Ext::{name}: body is not a single `Self {{ .. }}` expression"));
            }
            let syn::Stmt::Expr(syn::Expr::Struct(lit), None) = &f.block.stmts[0] else {
                return Err(format!("Ext::{name}: body is not a `Self {{ .. }}` literal: {}", tokens(&f.block.stmts[0])));
            };
            if squash(&tokens(&lit.path)) != "Self" {
                return Err(format!("Ext::{name}: literal of {}", tokens(&lit.path)));
            }
            if let Some(rest) = &lit.rest {
                if squash(&tokens(&**rest)) != "Default::default()" {
                    return Err(format!("Ext::{name}: unrecognised rest expression {}", tokens(&**rest)));
                }
            }
            let (mut set, mut kept, mut dropped) = (vec![], vec![], vec![]);
            for fld in &fields {
                let given = lit.fields.iter().find(|fv| squash(&tokens(&fv.member)) == *fld);
                match given {
                    None => {
                        if lit.rest.is_some() {
                            dropped.push(fld.clone());
                        } else {
                            return Err(format!("Ext::{name}: field {fld} missing"));
                        }
                    }
                    Some(fv) => {
                        let e = squash(&tokens(&fv.expr));
                        if e == format!("self.{fld}") || e == format!("self.{fld}.clone()") {
                            kept.push(fld.clone());
                        } else if !e.contains("self.") {
                            set.push(fld.clone());
                        } else {
                            return Err(format!("Ext::{name}: field {fld} is neither preserved nor set from the arguments: {e}"));
                        }
                    }
                }
            }
            rows.push((name, set, kept, dropped));
        }
    }
    if rows.is_empty() {
        return Err("no Ext::with_* builder found".into());
    }
    let lst = |v: &Vec<String>| format!("[{}]", v.iter().map(|x| format!("\"{x}\"")).collect::<Vec<_>>().join(", "));
    let mut s = header("ExtMerge", &[rel]);
    writeln!(s, "namespace Compio.Gen\n").unwrap();
    writeln!(s, "/-- fields of `struct Ext` -/").unwrap();
    writeln!(s, "def extFields : List String := {}\n", lst(&fields)).unwrap();
    writeln!(s, "/-- one row per `Ext::with_*` builder: name, fields it sets, fields it preserves, fields it drops -/").unwrap();
    writeln!(s, "def extBuilders : List (String × List String × List String × List String) :=").unwrap();
    writeln!(
        s,
        "  [{}]\n",
        rows.iter().map(|(n, a, b, c)| format!("(\"{n}\", {}, {}, {})", lst(a), lst(b), lst(c))).collect::<Vec<_>>().join(",\n   ")
    )
    .unwrap();
    writeln!(s, "end Compio.Gen").unwrap();
    Ok(s)
}
