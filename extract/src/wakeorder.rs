//! Call order of the wake-up protocol  ->  Gen/WakeOrder.lean   (property C03)
//!
//! For a fixed list of functions the extractor walks the body in evaluation order and records every call
//! whose name is on that function's whitelist, together with the innermost enclosing guard (`if c`, `else(c)`,
//! `while c`), plus `return` and `?` (early exits). The result is a Lean literal
//! `List (String × String)`; Props/C03.lean proves that it is the order the model's threads execute
//! (e.g. reset, arm, wait, set_awake, poll_entries, set_awake for `iour::Driver::poll`) and that the
//! orders satisfy "reset and arming before the wait, set_awake only after it". Swapping two of these calls,
//! dropping one, or making the post-push wake of `Remote::schedule` conditional again changes the literal
//! and the theorems stop checking. Fails closed: a function that is not found, or in which none of
//! the expected calls is found, is an error.

use std::{fmt::Write as _, path::Path};

use syn::visit::Visit;

use crate::{Res, header, parse_file, tokens};

struct Target {
    lean: &'static str,
    file: &'static str,
    /// type the `impl` block is for
    ty: &'static str,
    /// trait of the impl block, if any
    tr: Option<&'static str>,
    func: &'static str,
    calls: &'static [&'static str],
}

const TARGETS: &[Target] = &[
    Target {
        lean: "iourPoll",
        file: "compio-driver/src/sys/driver/iour/mod.rs",
        ty: "Driver",
        tr: None,
        func: "poll",
        calls: &["poll_blocking", "reset", "arm_notifier", "submit_auto", "set_awake", "poll_entries"],
    },
    Target {
        lean: "iourFlush",
        file: "compio-driver/src/sys/driver/iour/mod.rs",
        ty: "Driver",
        tr: None,
        func: "flush",
        calls: &["reset", "arm_notifier", "submit_auto", "set_awake", "poll_entries"],
    },
    Target {
        lean: "iourPollEntries",
        file: "compio-driver/src/sys/driver/iour/mod.rs",
        ty: "Driver",
        tr: None,
        func: "poll_entries",
        // every call on the notifier / the awake flag counts: the NOTIFY branch may clear the eventfd and re-arm,
        // it must not touch the flag (poll_entries also runs on the overflow path of push_raw, outside poll)
        calls: &["completion", "more", "insert", "clear", "set_awake", "reset", "set", "wake", "waker", "remove"],
    },
    Target {
        lean: "iourPushRaw",
        file: "compio-driver/src/sys/driver/iour/mod.rs",
        ty: "Driver",
        tr: None,
        func: "push_raw",
        calls: &["submission", "push", "sync", "submit_auto", "poll_entries", "set_awake", "reset", "set", "wake", "clear"],
    },
    Target {
        lean: "iourArmNotifier",
        file: "compio-driver/src/sys/driver/iour/mod.rs",
        ty: "Driver",
        tr: None,
        func: "arm_notifier",
        calls: &["contains", "push_raw", "remove"],
    },
    Target {
        lean: "iourWakeByRef",
        file: "compio-driver/src/sys/driver/iour/notify.rs",
        ty: "Notify",
        tr: Some("Wake"),
        func: "wake_by_ref",
        calls: &["wake", "write"],
    },
    Target {
        lean: "pollPoll",
        file: "compio-driver/src/sys/driver/poll/mod.rs",
        ty: "Driver",
        tr: None,
        func: "poll",
        calls: &["reset", "wait", "set_awake", "with_events"],
    },
    Target {
        lean: "pollWithEvents",
        file: "compio-driver/src/sys/driver/poll/mod.rs",
        ty: "Driver",
        tr: None,
        func: "with_events",
        calls: &["f", "set_awake"],
    },
    Target {
        lean: "pollFlush",
        file: "compio-driver/src/sys/driver/poll/mod.rs",
        ty: "Driver",
        tr: None,
        func: "flush",
        calls: &["reset", "wait", "set_awake"],
    },
    Target {
        lean: "pollWakeByRef",
        file: "compio-driver/src/sys/driver/poll/mod.rs",
        ty: "Notify",
        tr: Some("Wake"),
        func: "wake_by_ref",
        calls: &["wake", "notify"],
    },
    Target {
        lean: "remoteSchedule",
        file: "compio-executor/src/task/remote.rs",
        ty: "Remote<'a>",
        tr: None,
        func: "schedule",
        calls: &[
            "start_scheduling",
            "is_scheduled",
            "is_completed",
            "is_cancelled",
            "finish_scheduling",
            "load",
            "fetch_add",
            "fetch_sub",
            "push",
            "wake_by_ref",
            "yield_now",
        ],
    },
    Target {
        lean: "localSchedule",
        file: "compio-executor/src/task/local.rs",
        ty: "Local<'a>",
        tr: None,
        func: "schedule",
        calls: &["load", "drain_sync", "make_hot", "wake_by_ref"],
    },
    Target {
        lean: "drainSync",
        file: "compio-executor/src/lib.rs",
        ty: "Shared",
        tr: None,
        func: "drain_sync",
        calls: &["load", "pop", "make_hot", "fetch_sub"],
    },
    Target {
        lean: "tick",
        file: "compio-executor/src/lib.rs",
        ty: "Executor",
        tr: None,
        func: "tick",
        calls: &["drain_sync", "iter_hot", "take", "make_cold", "run", "drop", "remove", "reset", "has_hot"],
    },
    Target {
        lean: "taskRun",
        file: "compio-executor/src/task/mod.rs",
        ty: "Task",
        tr: None,
        func: "run",
        calls: &["unschedule", "is_cancelled", "run_future", "finish_running"],
    },
    Target {
        lean: "blockOn",
        file: "compio-runtime/src/lib.rs",
        ty: "Runtime",
        tr: None,
        func: "block_on_at",
        calls: &["waker", "poll", "run", "poll_with"],
    },
    Target {
        lean: "compatDrive",
        file: "compio-compat/src/lib.rs",
        ty: "RuntimeCompat<A>",
        tr: None,
        func: "drive",
        calls: &["waker", "poll", "run", "flush", "current_timeout", "wait", "clear", "poll_with"],
    },
];

struct Walk<'t> {
    calls: &'t [&'static str],
    guard: Vec<String>,
    out: Vec<(String, String)>,
    /// (call, memory ordering argument) for the recorded calls that take one
    ords: Vec<(String, String)>,
}

fn compact<T: quote::ToTokens>(t: &T) -> String {
    tokens(t).replace(' ', "")
}

impl<'t> Walk<'t> {
    fn rec(&mut self, name: &str) {
        let g = self.guard.last().cloned().unwrap_or_default();
        self.out.push((name.to_string(), g));
    }
}

impl<'ast, 't> Visit<'ast> for Walk<'t> {
    fn visit_expr_method_call(&mut self, m: &'ast syn::ExprMethodCall) {
        self.visit_expr(&m.receiver);
        for a in &m.args {
            self.visit_expr(a);
        }
        let name = m.method.to_string();
        if self.calls.contains(&name.as_str()) {
            self.rec(&name);
            if let Some(last) = m.args.last() {
                let a = compact(last);
                if a.starts_with("Ordering::") {
                    self.ords.push((name.clone(), a));
                }
            }
        }
    }

    fn visit_expr_call(&mut self, c: &'ast syn::ExprCall) {
        for a in &c.args {
            self.visit_expr(a);
        }
        // parenthesised callee `(header.vtable.run_future)(..)` or a path
        let callee = compact(&c.func);
        let callee = callee.trim_start_matches('(').trim_end_matches(')');
        let last = callee.rsplit(|ch| ch == ':' || ch == '.').next().unwrap_or("").to_string();
        if self.calls.contains(&last.as_str()) {
            self.rec(&last);
        }
    }

    fn visit_expr_if(&mut self, i: &'ast syn::ExprIf) {
        let c = compact(&i.cond);
        self.visit_expr(&i.cond);
        self.guard.push(format!("if {c}"));
        self.visit_block(&i.then_branch);
        self.guard.pop();
        if let Some((_, e)) = &i.else_branch {
            self.guard.push(format!("else({c})"));
            self.visit_expr(e);
            self.guard.pop();
        }
    }

    fn visit_expr_while(&mut self, w: &'ast syn::ExprWhile) {
        let c = compact(&w.cond);
        self.guard.push(format!("while-cond {c}"));
        self.visit_expr(&w.cond);
        self.guard.pop();
        self.guard.push(format!("while {c}"));
        self.visit_block(&w.body);
        self.guard.pop();
    }

    fn visit_expr_for_loop(&mut self, f: &'ast syn::ExprForLoop) {
        let c = compact(&f.expr);
        self.visit_expr(&f.expr);
        self.guard.push(format!("for {c}"));
        self.visit_block(&f.body);
        self.guard.pop();
    }

    fn visit_expr_loop(&mut self, l: &'ast syn::ExprLoop) {
        self.guard.push("loop".to_string());
        self.visit_block(&l.body);
        self.guard.pop();
    }

    fn visit_local(&mut self, l: &'ast syn::Local) {
        // `let .. = init else { diverge };`
        if let Some(init) = &l.init {
            self.visit_expr(&init.expr);
            if let Some((_, d)) = &init.diverge {
                self.guard.push("let-else".to_string());
                self.visit_expr(d);
                self.guard.pop();
            }
        }
    }

    fn visit_expr_return(&mut self, r: &'ast syn::ExprReturn) {
        if let Some(e) = &r.expr {
            self.visit_expr(e);
        }
        self.rec("return");
    }

    fn visit_expr_try(&mut self, t: &'ast syn::ExprTry) {
        self.visit_expr(&t.expr);
        self.rec("?");
    }

    fn visit_expr_macro(&mut self, _m: &'ast syn::ExprMacro) {}
    fn visit_stmt_macro(&mut self, _m: &'ast syn::StmtMacro) {}
}

/// files whose every call of `Driver::flush` / `AwakeFlag::reset` (any receiver that is a driver / notifier / awake
/// flag) is listed with what the caller does with the returned "was notified" bit
const FLUSH_FILES: &[&str] = &[
    "compio-runtime/src/lib.rs",
    "compio-driver/src/lib.rs",
    "compio-driver/src/sys/driver/fusion/mod.rs",
    "compio-driver/src/sys/driver/iour/mod.rs",
    "compio-driver/src/sys/driver/iour/notify.rs",
    "compio-driver/src/sys/driver/poll/mod.rs",
    "compio-driver/src/sys/driver/mod.rs",
    "compio-compat/src/lib.rs",
];

/// is `e` (parentheses, `?`, `.await` peeled) a flush/reset call on a driver-ish receiver? returns the method name
fn flush_call(e: &syn::Expr) -> Option<String> {
    match e {
        syn::Expr::Paren(p) => flush_call(&p.expr),
        syn::Expr::Try(t) => flush_call(&t.expr),
        syn::Expr::MethodCall(m) => {
            let name = m.method.to_string();
            if name != "flush" && name != "reset" {
                return None;
            }
            let recv = compact(&m.receiver).to_lowercase();
            if !m.args.is_empty() {
                return None;
            }
            if recv.contains("driver") || recv.contains("notif") || recv.contains("awake") || recv.contains("runtime") || recv == "self.0" {
                Some(name)
            } else {
                None
            }
        }
        _ => None,
    }
}

struct FlushSites {
    func: String,
    out: Vec<(String, String, String)>,
}

impl FlushSites {
    fn site(&mut self, call: String, usage: &str) {
        self.out.push((self.func.clone(), call, usage.to_string()));
    }
}

impl<'ast> Visit<'ast> for FlushSites {
    fn visit_impl_item_fn(&mut self, f: &'ast syn::ImplItemFn) {
        let old = std::mem::replace(&mut self.func, f.sig.ident.to_string());
        syn::visit::visit_impl_item_fn(self, f);
        self.func = old;
    }

    fn visit_item_fn(&mut self, f: &'ast syn::ItemFn) {
        let old = std::mem::replace(&mut self.func, f.sig.ident.to_string());
        syn::visit::visit_item_fn(self, f);
        self.func = old;
    }

    fn visit_stmt(&mut self, st: &'ast syn::Stmt) {
        match st {
            // `x.flush();` — the bit is thrown away; `x.flush()` as the value of the block — handed to the caller
            syn::Stmt::Expr(e, semi) => {
                if let Some(c) = flush_call(e) {
                    self.site(c, if semi.is_some() { "discarded" } else { "returned" });
                    return;
                }
            }
            syn::Stmt::Local(l) => {
                if let Some(init) = &l.init {
                    if let Some(c) = flush_call(&init.expr) {
                        let pat = compact(&l.pat);
                        self.site(c, if pat == "_" || pat.starts_with('_') { "discarded" } else { "bound" });
                        return;
                    }
                }
            }
            _ => {}
        }
        syn::visit::visit_stmt(self, st);
    }

    fn visit_expr_method_call(&mut self, m: &'ast syn::ExprMethodCall) {
        // any other position: operand of an expression, argument, condition, match arm value ...
        if let Some(c) = flush_call(&syn::Expr::MethodCall(m.clone())) {
            self.site(c, "used");
        }
        syn::visit::visit_expr_method_call(self, m);
    }

    fn visit_expr_macro(&mut self, _m: &'ast syn::ExprMacro) {}
    fn visit_stmt_macro(&mut self, _m: &'ast syn::StmtMacro) {}
}

fn find_fn<'a>(file: &'a syn::File, t: &Target) -> Option<&'a syn::ImplItemFn> {
    for it in &file.items {
        let syn::Item::Impl(im) = it else { continue };
        if compact(&im.self_ty) != t.ty.replace(' ', "") {
            continue;
        }
        let tr = im.trait_.as_ref().map(|(_, p, _)| compact(p));
        match (t.tr, tr) {
            (None, None) => {}
            (Some(a), Some(b)) if a == b => {}
            _ => continue,
        }
        for ii in &im.items {
            if let syn::ImplItem::Fn(f) = ii {
                if f.sig.ident == t.func {
                    return Some(f);
                }
            }
        }
    }
    None
}

fn lean_str(s: &str) -> String {
    let mut o = String::from("\"");
    for c in s.chars() {
        match c {
            '"' => o.push_str("\\\""),
            '\\' => o.push_str("\\\\"),
            c => o.push(c),
        }
    }
    o.push('"');
    o
}

pub fn generate(repo: &Path) -> Res<String> {
    let mut srcs: Vec<&str> = TARGETS.iter().map(|t| t.file).collect();
    srcs.dedup();
    let mut s = header("WakeOrder", &srcs);
    s.push_str("namespace Compio.Gen.WakeOrder\n\n");
    for t in TARGETS {
        let file = parse_file(&repo.join(t.file))?;
        let f = find_fn(&file, t).ok_or(format!("{}: fn {}::{} not found", t.file, t.ty, t.func))?;
        let mut w = Walk { calls: t.calls, guard: vec![], out: vec![], ords: vec![] };
        w.visit_block(&f.block);
        let n_calls = w.out.iter().filter(|(c, _)| c != "return" && c != "?").count();
        if n_calls == 0 {
            return Err(format!("{}: {}::{}: none of the expected calls {:?} found", t.file, t.ty, t.func, t.calls));
        }
        writeln!(s, "/-- `{}::{}` ({}): (call, innermost guard) in evaluation order -/", t.ty, t.func, t.file).unwrap();
        writeln!(s, "def {} : List (String × String) := [", t.lean).unwrap();
        for (i, (c, g)) in w.out.iter().enumerate() {
            writeln!(s, "  ({}, {}){}", lean_str(c), lean_str(g), if i + 1 < w.out.len() { "," } else { "" }).unwrap();
        }
        s.push_str("]\n\n");
        if !w.ords.is_empty() {
            writeln!(s, "/-- memory orderings written at the atomic calls of `{}::{}` -/", t.ty, t.func).unwrap();
            writeln!(s, "def {}Ord : List (String × String) := [", t.lean).unwrap();
            for (i, (c, o)) in w.ords.iter().enumerate() {
                writeln!(s, "  ({}, {}){}", lean_str(c), lean_str(o), if i + 1 < w.ords.len() { "," } else { "" }).unwrap();
            }
            s.push_str("]\n\n");
        }
    }
    // the flush / reset site table
    writeln!(s, "/-- every call of `flush` / `reset` on a driver, notifier or awake flag in the runtime and driver front ends:").unwrap();
    writeln!(s, "(file :: function, call, what happens to the returned \"was notified\" bit: returned | used | bound | discarded) -/").unwrap();
    writeln!(s, "def flushSites : List (String × String × String) := [").unwrap();
    let mut rows = vec![];
    for f in FLUSH_FILES {
        let file = parse_file(&repo.join(f))?;
        let mut v = FlushSites { func: String::new(), out: vec![] };
        v.visit_file(&file);
        for (func, call, usage) in v.out {
            rows.push((format!("{f}::{func}"), call, usage));
        }
    }
    if rows.is_empty() {
        return Err("no flush/reset call site found at all".into());
    }
    for (i, (a, b, c)) in rows.iter().enumerate() {
        writeln!(s, "  ({}, {}, {}){}", lean_str(a), lean_str(b), lean_str(c), if i + 1 < rows.len() { "," } else { "" }).unwrap();
    }
    s.push_str("]\n\n");
    s.push_str("end Compio.Gen.WakeOrder\n");
    Ok(s)
}
