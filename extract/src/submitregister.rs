//! compio-runtime/src/future/future.rs `impl Future for Submit<T, ()>` / `Submit<T, Extra>` and
//! compio-runtime/src/future/stream.rs `impl Stream for SubmitMulti<T>`  ->  Gen/SubmitRegister.lean
//!
//! Every submit flavour has ONE place where a freshly pushed key exists: the `State::Idle { op }` arm of its
//! `poll` / `poll_next`, shape
//!
//!     let extra = ..;
//!     let entry = submit_raw(.., op, extra);
//!     match entry {
//!         PushEntry::Pending(key) => { <REGISTRATION> *this.state = Some(State::submitted(key)) }
//!         PushEntry::Ready(..) => ..
//!     }
//!
//! The table records, per flavour, whether <REGISTRATION> is exactly `if let Some(cancel) = cx.get_cancel() {
//! cancel.register(&key); }` (unconditional: every context token gets the key, fired or not — `CancelToken::register` is
//! the place that cancels a late registration at once). A registration guarded by anything else
//! (`cx.get_cancel().filter(..)`, an extra `if`) is recorded as conditional; no registration at all as `registers = false`.
//! Fails closed: a flavour that is missing, an `Idle` arm of another shape, a `submit_raw(..)` call or a `.register(..)`
//! call outside the recognised sites are errors.

use std::{fmt::Write as _, path::Path};

use syn::visit::Visit;

use crate::{Res, header, parse_file, tokens};

fn squash(s: &str) -> String {
    s.chars().filter(|c| !c.is_whitespace()).collect()
}

struct Count {
    submit_raw: usize,
    register: usize,
}

impl<'ast> Visit<'ast> for Count {
    fn visit_expr_call(&mut self, c: &'ast syn::ExprCall) {
        if squash(&tokens(&*c.func)) == "submit_raw" {
            self.submit_raw += 1;
        }
        syn::visit::visit_expr_call(self, c);
    }

    fn visit_expr_method_call(&mut self, c: &'ast syn::ExprMethodCall) {
        if c.method == "register" {
            self.register += 1;
        }
        syn::visit::visit_expr_method_call(self, c);
    }
}

struct IdleArms<'a> {
    found: Vec<&'a syn::Arm>,
}

impl<'ast> Visit<'ast> for IdleArms<'ast> {
    fn visit_arm(&mut self, a: &'ast syn::Arm) {
        if squash(&tokens(&a.pat)) == "State::Idle{op}" {
            self.found.push(a);
        }
        syn::visit::visit_arm(self, a);
    }
}

/// (registers, unconditional)
fn site(flavour: &str, arm: &syn::Arm) -> Res<(bool, bool)> {
    let syn::Expr::Block(b) = &*arm.body else {
        return Err(format!("{flavour}: the `State::Idle` arm is not a block"));
    };
    let st = &b.block.stmts;
    if st.len() != 3 {
        return Err(format!("{flavour}: `State::Idle` arm: expected `let extra`, `let entry = submit_raw(..)`, `match entry`, found {} statements", st.len()));
    }
    let ok1 = matches!(&st[0], syn::Stmt::Local(l) if squash(&tokens(&l.pat)) == "extra");
    let ok2 = matches!(&st[1], syn::Stmt::Local(l) if squash(&tokens(&l.pat)) == "entry"
        && l.init.as_ref().map(|i| squash(&tokens(&*i.expr)).starts_with("submit_raw(") && squash(&tokens(&*i.expr)).ends_with(",op,extra)")).unwrap_or(false));
    if !ok1 || !ok2 {
        return Err(format!("{flavour}: `State::Idle` arm does not start with `let extra = ..; let entry = submit_raw(.., op, extra);`"));
    }
    let syn::Stmt::Expr(syn::Expr::Match(m), _) = &st[2] else {
        return Err(format!("{flavour}: `State::Idle` arm does not end in `match entry`"));
    };
    if squash(&tokens(&*m.expr)) != "entry" {
        return Err(format!("{flavour}: match on `{}` instead of `entry`", tokens(&*m.expr)));
    }
    let pend: Vec<&syn::Arm> = m.arms.iter().filter(|a| squash(&tokens(&a.pat)) == "PushEntry::Pending(key)").collect();
    if pend.len() != 1 || m.arms.len() != 2 || pend[0].guard.is_some() {
        return Err(format!("{flavour}: `match entry` is not `PushEntry::Pending(key)` + `PushEntry::Ready(..)`"));
    }
    let syn::Expr::Block(pb) = &*pend[0].body else {
        return Err(format!("{flavour}: the `PushEntry::Pending(key)` arm is not a block"));
    };
    let ps = &pb.block.stmts;
    let last = ps.last().map(|s| squash(&tokens(s))).unwrap_or_default();
    if last.trim_end_matches(';') != "*this.state=Some(State::submitted(key))" {
        return Err(format!("{flavour}: the `Pending` arm does not end in `*this.state = Some(State::submitted(key))`: {last}"));
    }
    match ps.len() {
        1 => Ok((false, false)),
        2 => {
            let reg = squash(&tokens(&ps[0]));
            let reg = reg.trim_end_matches(';');
            if reg == "ifletSome(cancel)=cx.get_cancel(){cancel.register(&key);}" {
                Ok((true, true))
            } else if reg.starts_with("ifletSome(cancel)=cx.get_cancel()") && reg.ends_with("{cancel.register(&key);}") {
                // e.g. `cx.get_cancel().filter(..)`: the key reaches the token only under a condition
                Ok((true, false))
            } else if let syn::Stmt::Expr(syn::Expr::If(outer), _) = &ps[0] {
                // `if <cond> { if let Some(cancel) = cx.get_cancel() { cancel.register(&key); } }`
                let inner = squash(&tokens(&outer.then_branch));
                if inner.contains("cancel.register(&key)") && outer.else_branch.is_none() {
                    Ok((true, false))
                } else {
                    Err(format!("{flavour}: unrecognised registration statement: {reg}"))
                }
            } else {
                Err(format!("{flavour}: unrecognised registration statement: {reg}"))
            }
        }
        n => Err(format!("{flavour}: the `Pending` arm has {n} statements (expected registration + state update)")),
    }
}

pub fn generate(repo: &Path) -> Res<String> {
    let files = ["compio-runtime/src/future/future.rs", "compio-runtime/src/future/stream.rs"];
    let mut rows: Vec<(String, String, bool, bool)> = vec![];
    let mut total = Count { submit_raw: 0, register: 0 };
    for rel in files {
        let file = parse_file(&repo.join(rel))?;
        for item in &file.items {
            // calls inside `fn submit_raw` itself do not count; everything else does
            match item {
                syn::Item::Fn(f) if f.sig.ident == "submit_raw" => continue,
                _ => total.visit_item(item),
            }
            let syn::Item::Impl(imp) = item else { continue };
            let Some((_, tr, _)) = &imp.trait_ else { continue };
            let (tr, ty) = (squash(&tokens(tr)), squash(&tokens(&*imp.self_ty)));
            let (flavour, method) = match (tr.as_str(), ty.as_str()) {
                ("Future", "Submit<T,()>") => ("plain", "poll"),
                ("Future", "Submit<T,Extra>") => ("with_extra", "poll"),
                ("Stream", "SubmitMulti<T>") => ("multi", "poll_next"),
                _ => continue,
            };
            let mut n = 0;
            for it in &imp.items {
                if let syn::ImplItem::Fn(f) = it {
                    if f.sig.ident == method {
                        let mut v = IdleArms { found: vec![] };
                        v.visit_block(&f.block);
                        if v.found.len() != 1 {
                            return Err(format!("{flavour}: {} `State::Idle {{ op }}` arms in `{method}` (expected 1)", v.found.len()));
                        }
                        let (registers, unconditional) = site(flavour, v.found[0])?;
                        rows.push((flavour.to_string(), rel.to_string(), registers, unconditional));
                        n += 1;
                    }
                }
            }
            if n != 1 {
                return Err(format!("{flavour}: method `{method}` not found"));
            }
        }
    }
    for want in ["plain", "with_extra", "multi"] {
        if rows.iter().filter(|r| r.0 == want).count() != 1 {
            return Err(format!("submit flavour `{want}`: expected exactly one impl, found {}", rows.iter().filter(|r| r.0 == want).count()));
        }
    }
    if total.submit_raw != rows.len() {
        return Err(format!("{} calls of `submit_raw(..)` but {} recognised fresh-key sites", total.submit_raw, rows.len()));
    }
    let registering = rows.iter().filter(|r| r.2).count();
    if total.register != registering {
        return Err(format!("{} `.register(..)` calls but {} recognised registration sites", total.register, registering));
    }
    let mut s = header("SubmitRegister", &files);
    writeln!(s, "namespace Compio.Gen\n").unwrap();
    writeln!(s, "/-- one row per submit flavour (`Submit<T, ()>::poll`, `Submit<T, Extra>::poll`, `SubmitMulti::poll_next`): the").unwrap();
    writeln!(s, "site where the freshly pushed key exists — (flavour, source file, the key is registered with the context's").unwrap();
    writeln!(s, "cancel token, the registration is unconditional `if let Some(cancel) = cx.get_cancel() {{ cancel.register(&key); }}`) -/").unwrap();
    writeln!(s, "def submitRegisterSites : List (String × String × Bool × Bool) :=").unwrap();
    let body: Vec<String> = rows.iter().map(|r| format!("(\"{}\", \"{}\", {}, {})", r.0, r.1, r.2, r.3)).collect();
    writeln!(s, "  [{}]\n", body.join(",\n   ")).unwrap();
    writeln!(s, "end Compio.Gen").unwrap();
    Ok(s)
}
