//! compio-driver/src/key.rs, lib.rs, sys/driver/iour/mod.rs  ->  Gen/CompletionPath.lean   (property C02)
//!
//! The C02 hand model (`Model/Completion.lean`) restates, function by function, the few lines through which EVERY
//! result travels from the kernel / thread pool into the operation's own slot and out to the submitter. This target
//! re-reads exactly those lines and renders each function as the list of its effects IN SOURCE ORDER:
//!
//!   key.rs   `ErasedKey::set_result`        carrier hook, `mem::replace(&mut this.result, Ready(res))`, THEN `w.wake()` of
//!                                           the `Pending(Some(w))` that was taken out
//!            `ErasedKey::set_waker`         return unless `Pending`, return if `will_wake`, else replace
//!            `ErasedKey::has_result`, `ErasedKey::take_result`, `RawOp::wake_by_ref`
//!   lib.rs   `Entry::notify`, `Proactor::pop`, `Proactor::update_waker`, the `Poll::Ready` arm of `push_with_extra`
//!   iour     `Driver::{CANCEL, NOTIFY}`, the three arms of the `match entry.user_data()` in `poll_entries`,
//!            `push_raw` (what happens when the SQ is full, which errors of `submit_auto` are tolerated),
//!            `push_raw_with_key` (user_data = the key, in_flight insert only after a successful push),
//!            `cancel` (through which path the AsyncCancel SQE is queued), `create_entry` (key and result of an `Entry`
//!            are the CQE's user_data and result, nothing else), `poll_blocking`
//!
//! Every statement of these bodies must be one of the recognised shapes (compared after removing white space); any
//! other statement, a missing function, a second definition is an error: the target FAILS CLOSED.

use std::{collections::BTreeMap, fmt::Write as _, path::Path};

use crate::{Res, eval, header, parse_file, tokens};

fn sq<T: quote::ToTokens>(t: &T) -> String {
    tokens(t).chars().filter(|c| !c.is_whitespace()).collect()
}

/// all inherent-impl methods named `name` of a type whose squashed self type starts with `ty`
fn method<'a>(file: &'a syn::File, ty: &str, name: &str) -> Res<&'a syn::ImplItemFn> {
    let mut found = vec![];
    for it in &file.items {
        let syn::Item::Impl(im) = it else { continue };
        if im.trait_.is_some() {
            continue;
        }
        let st = sq(&*im.self_ty);
        if !(st == ty || st.starts_with(&format!("{ty}<"))) {
            continue;
        }
        for ii in &im.items {
            if let syn::ImplItem::Fn(f) = ii {
                if f.sig.ident == name {
                    found.push(f);
                }
            }
        }
    }
    match found.len() {
        1 => Ok(found[0]),
        n => Err(format!("{ty}::{name}: expected exactly one definition, found {n}")),
    }
}

fn free_fn<'a>(file: &'a syn::File, name: &str) -> Res<&'a syn::ItemFn> {
    let v: Vec<_> = file
        .items
        .iter()
        .filter_map(|it| match it {
            syn::Item::Fn(f) if f.sig.ident == name => Some(f),
            _ => None,
        })
        .collect();
    match v.len() {
        1 => Ok(v[0]),
        n => Err(format!("fn {name}: expected exactly one definition, found {n}")),
    }
}

/// classify every statement of `block` with `table` (squashed statement -> emitted actions); `prefix` entries match by
/// `starts_with`. Tracing / instrumentation macros are ignored.
fn classify(what: &str, stmts: &[syn::Stmt], exact: &[(&str, &[&str])], prefix: &[(&str, &[&str])]) -> Res<Vec<String>> {
    let mut out = vec![];
    'next: for st in stmts {
        let s = sq(st);
        if s.starts_with("instrument!(") || s.starts_with("trace!(") || s.starts_with("warn!(") || s.starts_with("error!(") {
            continue;
        }
        for (pat, acts) in exact {
            if s == *pat {
                out.extend(acts.iter().map(|a| a.to_string()));
                continue 'next;
            }
        }
        for (pat, acts) in prefix {
            if s.starts_with(pat) {
                out.extend(acts.iter().map(|a| a.to_string()));
                continue 'next;
            }
        }
        return Err(format!("{what}: unrecognised statement `{}`", tokens(st)));
    }
    Ok(out)
}

fn lit(name: &str, ty: &str, doc: &str, acts: &[String]) -> String {
    let l = acts.iter().map(|a| format!(".{a}")).collect::<Vec<_>>().join(", ");
    format!("/-- {doc} -/\ndef {name} : List {ty} := [{l}]\n\n")
}

fn block_of_if(e: &syn::Expr) -> Option<(&syn::Expr, &syn::Block, &syn::Expr)> {
    if let syn::Expr::If(i) = e {
        if let Some((_, els)) = &i.else_branch {
            return Some((&i.cond, &i.then_branch, els));
        }
    }
    None
}

pub fn generate(repo: &Path) -> Res<String> {
    let key_rel = "compio-driver/src/key.rs";
    let lib_rel = "compio-driver/src/lib.rs";
    let iour_rel = "compio-driver/src/sys/driver/iour/mod.rs";
    let key = parse_file(&repo.join(key_rel))?;
    let lib = parse_file(&repo.join(lib_rel))?;
    let iour = parse_file(&repo.join(iour_rel))?;

    // ---------------------------------------------------------------- key.rs
    let set_result = classify(
        "ErasedKey::set_result",
        &method(&key, "ErasedKey", "set_result")?.block.stmts,
        &[
            ("letmutthis=self.borrow();", &[]),
            (
                "{letRawOp{extra,carrier,..}=&mut*this;unsafe{crate::sys::Carry::set_result(carrier,&res,extra)};}",
                &["carrierHook"],
            ),
            (
                "ifletPushEntry::Pending(Some(w))=std::mem::replace(&mutthis.result,PushEntry::Ready(res)){w.wake();}",
                &["storeReady", "wakeTaken"],
            ),
        ],
        &[],
    )?;
    let set_waker = classify(
        "ErasedKey::set_waker",
        &method(&key, "ErasedKey", "set_waker")?.block.stmts,
        &[
            ("letPushEntry::Pending(w)=&mutself.borrow().resultelse{return;};", &["returnUnlessPending"]),
            ("ifw.as_ref().is_some_and(|w|w.will_wake(waker)){return;}", &["returnIfWillWake"]),
            ("*w=Some(waker.clone());", &["replace"]),
        ],
        &[],
    )?;
    let has_result = sq(&method(&key, "ErasedKey", "has_result")?.block);
    if has_result != "{self.borrow().result.is_ready()}" {
        return Err(format!("ErasedKey::has_result: not `self.borrow().result.is_ready()`: {has_result}"));
    }
    let take_result = classify(
        "ErasedKey::take_result",
        &method(&key, "ErasedKey", "take_result")?.block.stmts,
        &[
            ("letthis=unsafe{self.inner.downcast_unchecked::<RawOp<Carrier<T>>>()};", &["downcast"]),
            ("letop=this.try_unwrap().map_err(|_|()).expect(\"Keynotunique\");", &["unwrapUnique"]),
            ("letres=op.result.take_ready().expect(\"Resultnotready\");", &["takeReady"]),
            ("BufResult(res,op.carrier.into_inner())", &["pairWithOwnCarrier"]),
        ],
        &[],
    )?;
    let key_take = sq(&method(&key, "Key", "take_result")?.block);
    if key_take != "{unsafe{self.erased.take_result::<T>()}}" {
        return Err(format!("Key::take_result: not a plain forward to ErasedKey::take_result: {key_take}"));
    }
    let wake_by_ref = sq(&method(&key, "RawOp", "wake_by_ref")?.block);
    if wake_by_ref != "{ifletPushEntry::Pending(Some(w))=&self.result{w.wake_by_ref();}}" {
        return Err(format!("RawOp::wake_by_ref: unrecognised body {wake_by_ref}"));
    }

    // ---------------------------------------------------------------- lib.rs
    let notify = classify(
        "Entry::notify",
        &method(&lib, "Entry", "notify")?.block.stmts,
        &[
            ("#[cfg(io_uring)]self.key.borrow().extra_mut().set_flags(self.flags());", &["copyFlags"]),
            ("self.key.set_result(self.result);", &["setResultOfOwnKey"]),
        ],
        &[],
    )?;
    let update_waker = sq(&method(&lib, "Proactor", "update_waker")?.block);
    if update_waker != "{op.set_waker(waker);}" {
        return Err(format!("Proactor::update_waker: not `op.set_waker(waker);`: {update_waker}"));
    }
    // Proactor::pop
    let pop_fn = method(&lib, "Proactor", "pop")?;
    let mut pop_acts: Vec<String> = vec![];
    {
        let stmts: Vec<_> = pop_fn.block.stmts.iter().filter(|s| !sq(*s).starts_with("instrument!(")).collect();
        if stmts.len() != 1 {
            return Err(format!("Proactor::pop: expected one `if key.has_result()` expression, found {} statements", stmts.len()));
        }
        let syn::Stmt::Expr(e, None) = stmts[0] else {
            return Err("Proactor::pop: body is not a tail expression".into());
        };
        let Some((cond, then, els)) = block_of_if(e) else {
            return Err("Proactor::pop: body is not if/else".into());
        };
        if sq(cond) != "key.has_result()" {
            return Err(format!("Proactor::pop: condition is not `key.has_result()`: {}", tokens(cond)));
        }
        pop_acts.push("ifHasResult".into());
        pop_acts.extend(classify(
            "Proactor::pop (ready branch)",
            &then.stmts,
            &[
                ("let(res,buf)=key.take_result().into_parts();", &["takeResult"]),
                ("PushEntry::Ready(BufResult(resume_unwind_io(res),buf))", &["readyOwnResAndBuf"]),
            ],
            &[],
        )?);
        if sq(els) != "{PushEntry::Pending(key)}" {
            return Err(format!("Proactor::pop: else branch is not `PushEntry::Pending(key)`: {}", tokens(els)));
        }
        pop_acts.push("elsePendingSameKey".into());
    }
    // push_with_extra: the Poll::Ready arm
    let pwe = method(&lib, "Proactor", "push_with_extra")?;
    let mut immediate: Option<Vec<String>> = None;
    {
        let Some(syn::Stmt::Expr(syn::Expr::Match(m), None)) = pwe.block.stmts.last() else {
            return Err("Proactor::push_with_extra: body does not end in `match self.driver.push(..)`".into());
        };
        if sq(&*m.expr) != "self.driver.push(key.clone().erase())" {
            return Err(format!("Proactor::push_with_extra: scrutinee is not `self.driver.push(key.clone().erase())`: {}", tokens(&*m.expr)));
        }
        if m.arms.len() != 2 {
            return Err("Proactor::push_with_extra: expected the two arms Pending / Ready".into());
        }
        for arm in &m.arms {
            match sq(&arm.pat).as_str() {
                "Poll::Pending" => {
                    if sq(&*arm.body) != "PushEntry::Pending(key)" {
                        return Err(format!("Proactor::push_with_extra: Pending arm is not `PushEntry::Pending(key)`: {}", tokens(&*arm.body)));
                    }
                }
                "Poll::Ready(res)" => {
                    let syn::Expr::Block(b) = &*arm.body else {
                        return Err("Proactor::push_with_extra: Ready arm is not a block".into());
                    };
                    immediate = Some(classify(
                        "Proactor::push_with_extra (Ready arm)",
                        &b.block.stmts,
                        &[("key.set_result(res);", &["setResult"]), ("PushEntry::Ready(key.take_result())", &["takeResult"])],
                        &[],
                    )?);
                }
                other => return Err(format!("Proactor::push_with_extra: unexpected arm {other}")),
            }
        }
    }
    let immediate = immediate.ok_or("Proactor::push_with_extra: no Poll::Ready arm")?;

    // ---------------------------------------------------------------- iour/mod.rs
    let mut env: BTreeMap<String, u128> = BTreeMap::new();
    for it in &iour.items {
        let syn::Item::Impl(im) = it else { continue };
        if im.trait_.is_some() || sq(&*im.self_ty) != "Driver" {
            continue;
        }
        for ii in &im.items {
            if let syn::ImplItem::Const(c) = ii {
                let n = c.ident.to_string();
                if n == "CANCEL" || n == "NOTIFY" {
                    if sq(&c.ty) != "u64" {
                        return Err(format!("Driver::{n}: type is not u64"));
                    }
                    if env.insert(n.clone(), eval(&c.expr, &env, 64)?).is_some() {
                        return Err(format!("Driver::{n} defined twice"));
                    }
                }
            }
        }
    }
    let cancel_c = *env.get("CANCEL").ok_or("Driver::CANCEL not found")?;
    let notify_c = *env.get("NOTIFY").ok_or("Driver::NOTIFY not found")?;

    // poll_entries
    let pe = method(&iour, "Driver", "poll_entries")?;
    let (mut arm_cancel, mut arm_notify, mut arm_key_more, mut arm_key_final) = (None, None, None, None);
    {
        let mut the_for = None;
        for st in &pe.block.stmts {
            let s = sq(st);
            if s == "letcqueue=self.inner.completion();" || s == "lethas_entry=!cqueue.is_empty();" || s == "has_entry" {
                continue;
            }
            if let syn::Stmt::Expr(syn::Expr::ForLoop(f), _) = st {
                if the_for.is_some() {
                    return Err("Driver::poll_entries: two loops".into());
                }
                the_for = Some(f);
                continue;
            }
            return Err(format!("Driver::poll_entries: unrecognised statement `{}`", tokens(st)));
        }
        let f = the_for.ok_or("Driver::poll_entries: no `for entry in cqueue`")?;
        if sq(&*f.pat) != "entry" || sq(&*f.expr) != "cqueue" {
            return Err("Driver::poll_entries: loop is not `for entry in cqueue`".into());
        }
        if f.body.stmts.len() != 1 {
            return Err("Driver::poll_entries: loop body is not a single match".into());
        }
        let syn::Stmt::Expr(syn::Expr::Match(m), _) = &f.body.stmts[0] else {
            return Err("Driver::poll_entries: loop body is not a match".into());
        };
        if sq(&*m.expr) != "entry.user_data()" {
            return Err(format!("Driver::poll_entries: match scrutinee is not `entry.user_data()`: {}", tokens(&*m.expr)));
        }
        for arm in &m.arms {
            if arm.guard.is_some() {
                return Err("Driver::poll_entries: match arm with a guard".into());
            }
            let syn::Expr::Block(b) = &*arm.body else {
                return Err(format!("Driver::poll_entries: arm {} is not a block", sq(&arm.pat)));
            };
            match sq(&arm.pat).as_str() {
                "Self::CANCEL" => {
                    if arm_cancel.is_some() {
                        return Err("Driver::poll_entries: two CANCEL arms".into());
                    }
                    arm_cancel = Some(classify("poll_entries CANCEL arm", &b.block.stmts, &[], &[])?);
                }
                "Self::NOTIFY" => {
                    if arm_notify.is_some() {
                        return Err("Driver::poll_entries: two NOTIFY arms".into());
                    }
                    arm_notify = Some(classify(
                        "poll_entries NOTIFY arm",
                        &b.block.stmts,
                        &[
                            ("letflags=entry.flags();", &[]),
                            ("if!more(flags){self.flags.insert(DriverFlags::NEED_PUSH_NOTIFIER);}", &["needNotifierUnlessMore"]),
                        ],
                        &[("ifletErr(e)=self.notifier.clear(){", &["clearNotifier"])],
                    )?);
                }
                "key" => {
                    if arm_key_more.is_some() {
                        return Err("Driver::poll_entries: two catch-all arms".into());
                    }
                    let mut the_if = None;
                    for st in &b.block.stmts {
                        if sq(st) == "letflags=entry.flags();" {
                            continue;
                        }
                        if let syn::Stmt::Expr(e, _) = st {
                            if let Some(x) = block_of_if(e) {
                                if the_if.is_some() {
                                    return Err("Driver::poll_entries: key arm has two ifs".into());
                                }
                                the_if = Some(x);
                                continue;
                            }
                        }
                        return Err(format!("Driver::poll_entries: key arm, unrecognised statement `{}`", tokens(st)));
                    }
                    let (cond, then, els) = the_if.ok_or("Driver::poll_entries: key arm without `if more(flags)`")?;
                    if sq(cond) != "more(flags)" {
                        return Err(format!("Driver::poll_entries: key arm condition is not `more(flags)`: {}", tokens(cond)));
                    }
                    arm_key_more = Some(classify(
                        "poll_entries key arm (more)",
                        &then.stmts,
                        &[
                            ("letkey=unsafe{BorrowedKey::from_raw(keyas_)};", &["borrowKeyOfUserData"]),
                            ("letmutkey=key.borrow();", &[]),
                            ("letmutextra:crate::sys::Extra=IourExtra::new().into();", &[]),
                            ("extra.set_flags(entry.flags());", &[]),
                            ("unsafe{key.carrier.push_multishot(create_result(entry.result()),extra);}", &["pushMultishot"]),
                            ("key.wake_by_ref();", &["wakeByRef"]),
                        ],
                        &[],
                    )?);
                    let syn::Expr::Block(eb) = els else {
                        return Err("Driver::poll_entries: key arm, else is not a block".into());
                    };
                    arm_key_final = Some(classify(
                        "poll_entries key arm (final)",
                        &eb.block.stmts,
                        &[
                            ("self.in_flight.remove(&(keyasusize));", &["inflightRemove"]),
                            ("create_entry(entry).notify()", &["notifyCreatedEntry"]),
                        ],
                        &[],
                    )?);
                }
                other => return Err(format!("Driver::poll_entries: unexpected arm `{other}`")),
            }
        }
    }
    let arm_cancel = arm_cancel.ok_or("Driver::poll_entries: no CANCEL arm")?;
    let arm_notify = arm_notify.ok_or("Driver::poll_entries: no NOTIFY arm")?;
    let arm_key_more = arm_key_more.ok_or("Driver::poll_entries: no key arm")?;
    let arm_key_final = arm_key_final.ok_or("Driver::poll_entries: no key arm")?;

    // create_entry (free fn)
    let create_entry = classify(
        "iour create_entry",
        &free_fn(&iour, "create_entry")?.block.stmts,
        &[
            ("letresult=cq_entry.result();", &["resultOfCqe"]),
            ("letresult=create_result(result);", &["createResult"]),
            ("letkey=unsafe{ErasedKey::from_raw(cq_entry.user_data()as_)};", &["keyOfUserData"]),
            ("letmutentry=Entry::new(key,result);", &["entryNew"]),
            ("entry.set_flags(cq_entry.flags());", &["setFlags"]),
            ("entry", &["ret"]),
        ],
        &[],
    )?;

    // poll_blocking
    let poll_blocking = classify(
        "Driver::poll_blocking",
        &method(&iour, "Driver", "poll_blocking")?.block.stmts,
        &[
            ("letmuthas_entry=false;", &[]),
            ("whileletOk(entry)=self.completed_rx.try_recv(){entry.notify();has_entry=true;}", &["drainChannelNotifyEach"]),
            ("has_entry", &["retHadEntry"]),
        ],
        &[],
    )?;

    // push_raw_with_key
    let prwk = classify(
        "Driver::push_raw_with_key",
        &method(&iour, "Driver", "push_raw_with_key")?.block.stmts,
        &[
            ("letuser_data=key.as_raw();", &["userDataIsOwnKey"]),
            ("letentry=entry.user_data(user_dataas_);", &["tagEntry"]),
            ("self.push_raw(entry)?;", &["pushRawOrReturn"]),
            ("self.in_flight.insert(user_data);", &["inflightInsert"]),
            ("key.into_raw();", &["leakKey"]),
            ("Ok(())", &["retOk"]),
        ],
        &[],
    )?;

    // push_raw: loop { match squeue.push { Ok => { sync; break Ok }, Err => { drop; match submit_auto {..}; poll_entries } } }
    let pr = method(&iour, "Driver", "push_raw")?;
    let mut on_full: Vec<String> = vec![];
    let mut tolerated: Vec<String> = vec![];
    {
        if pr.block.stmts.len() != 1 {
            return Err("Driver::push_raw: body is not a single loop".into());
        }
        let syn::Stmt::Expr(syn::Expr::Loop(lp), _) = &pr.block.stmts[0] else {
            return Err("Driver::push_raw: body is not `loop { .. }`".into());
        };
        if lp.body.stmts.len() != 2 || sq(&lp.body.stmts[0]) != "letmutsqueue=self.inner.submission();" {
            return Err("Driver::push_raw: loop body is not `let mut squeue = ..; match ..`".into());
        }
        let syn::Stmt::Expr(syn::Expr::Match(m), _) = &lp.body.stmts[1] else {
            return Err("Driver::push_raw: loop body does not end in a match".into());
        };
        if sq(&*m.expr) != "unsafe{squeue.push(&entry)}" || m.arms.len() != 2 {
            return Err(format!("Driver::push_raw: not `match unsafe {{ squeue.push(&entry) }}` with two arms: {}", tokens(&*m.expr)));
        }
        for arm in &m.arms {
            let syn::Expr::Block(b) = &*arm.body else {
                return Err("Driver::push_raw: arm is not a block".into());
            };
            match sq(&arm.pat).as_str() {
                "Ok(())" => {
                    if sq(&b.block) != "{squeue.sync();breakOk(());}" {
                        return Err(format!("Driver::push_raw: Ok arm is not `squeue.sync(); break Ok(());`: {}", sq(&b.block)));
                    }
                }
                "Err(_)" => {
                    for st in &b.block.stmts {
                        let s = sq(st);
                        if s == "drop(squeue);" {
                            continue;
                        }
                        if s == "self.poll_entries();" {
                            on_full.push("pollEntries".into());
                            continue;
                        }
                        if let syn::Stmt::Expr(syn::Expr::Match(sm), _) = st {
                            if sq(&*sm.expr) == "self.submit_auto(Some(Duration::ZERO),true)" {
                                on_full.push("submitAutoZero".into());
                                for a in &sm.arms {
                                    let p = sq(&a.pat);
                                    let body = sq(&*a.body);
                                    match (p.as_str(), &a.guard) {
                                        ("Ok(())", None) if body == "{}" => {}
                                        ("Err(e)", Some((_, g))) if body == "{}" => {
                                            let g = sq(&**g);
                                            let inner = g
                                                .strip_prefix("matches!(e.kind(),")
                                                .and_then(|x| x.strip_suffix(")"))
                                                .ok_or_else(|| format!("Driver::push_raw: unrecognised guard {g}"))?;
                                            for k in inner.split('|') {
                                                let k = k
                                                    .strip_prefix("io::ErrorKind::")
                                                    .ok_or_else(|| format!("Driver::push_raw: unrecognised error kind {k}"))?;
                                                if !k.chars().all(|c| c.is_ascii_alphanumeric()) {
                                                    return Err(format!("Driver::push_raw: odd error kind {k}"));
                                                }
                                                tolerated.push(k.to_string());
                                            }
                                        }
                                        ("Err(e)", None) if body == "returnErr(e)" => {}
                                        _ => return Err(format!("Driver::push_raw: unrecognised submit_auto arm `{p}` => `{body}`")),
                                    }
                                }
                                continue;
                            }
                        }
                        return Err(format!("Driver::push_raw: full-queue arm, unrecognised statement `{}`", tokens(st)));
                    }
                }
                other => return Err(format!("Driver::push_raw: unexpected arm {other}")),
            }
        }
    }

    // cancel: through which path is the AsyncCancel SQE queued?
    let cancel_fn = method(&iour, "Driver", "cancel")?;
    let cancel_via;
    {
        let stmts: Vec<String> = cancel_fn
            .block
            .stmts
            .iter()
            .map(|s| sq(s))
            .filter(|s| !(s.starts_with("instrument!(") || s.starts_with("trace!(")))
            .collect();
        if stmts.len() != 1 {
            return Err(format!("Driver::cancel: expected one statement, found {}", stmts.len()));
        }
        let entry = "AsyncCancel::new(key.as_raw()as_).build().user_data(Self::CANCEL).into()";
        let s = &stmts[0];
        if *s == format!("#[allow(clippy::useless_conversion)]ifself.push_raw({entry},).is_err(){{warn!(\"couldnotpushAsyncCancelentry\");}}")
            || *s == format!("#[allow(clippy::useless_conversion)]ifself.push_raw({entry}).is_err(){{warn!(\"couldnotpushAsyncCancelentry\");}}")
        {
            cancel_via = "pushRaw";
        } else if s.contains("self.inner.submission().push(") && s.contains(entry.trim_end_matches(".into()")) && !s.contains("push_raw") {
            cancel_via = "rawSqueuePush";
        } else {
            return Err(format!("Driver::cancel: unrecognised body {s}"));
        }
    }

    // ---------------------------------------------------------------- output
    let mut s = header("CompletionPath", &[key_rel, lib_rel, iour_rel]);
    s.push_str("namespace Compio.Gen.CompletionPath\n\n");
    s.push_str("/-- effects of `ErasedKey::set_result` -/\ninductive SetResultAct where\n  | carrierHook   -- `Carry::set_result(carrier, &res, extra)`: the op sees its own result, the slot is untouched\n  | storeReady    -- `mem::replace(&mut this.result, PushEntry::Ready(res))`\n  | wakeTaken     -- `w.wake()` for the `Pending(Some(w))` that the replace took out\n  deriving DecidableEq, Repr\n\n");
    s.push_str(&lit("setResult", "SetResultAct", "`ErasedKey::set_result`, effects in source order", &set_result));
    s.push_str("/-- statements of `ErasedKey::set_waker` -/\ninductive SetWakerAct where\n  | returnUnlessPending   -- `let PushEntry::Pending(w) = &mut ..result else { return }`\n  | returnIfWillWake      -- `if w.as_ref().is_some_and(|w| w.will_wake(waker)) { return }`\n  | replace               -- `*w = Some(waker.clone())`\n  deriving DecidableEq, Repr\n\n");
    s.push_str(&lit("setWaker", "SetWakerAct", "`ErasedKey::set_waker`, statements in source order", &set_waker));
    s.push_str("/-- `ErasedKey::has_result` is `self.borrow().result.is_ready()`; `Key::take_result` forwards to `ErasedKey::take_result`;\n    `Proactor::update_waker` is `op.set_waker(waker)`; `RawOp::wake_by_ref` wakes exactly a `Pending(Some(w))` by reference\n    (recognised shapes, the extractor fails otherwise) -/\ndef hasResultIsReady : Bool := true\n\n");
    s.push_str("inductive TakeResultAct where\n  | downcast | unwrapUnique | takeReady | pairWithOwnCarrier\n  deriving DecidableEq, Repr\n\n");
    s.push_str(&lit("takeResult", "TakeResultAct", "`ErasedKey::take_result`: the RawOp is consumed, its own `result` is paired with its own `carrier` (buffer)", &take_result));
    s.push_str("inductive NotifyAct where\n  | copyFlags | setResultOfOwnKey\n  deriving DecidableEq, Repr\n\n");
    s.push_str(&lit("entryNotify", "NotifyAct", "`Entry::notify`: `self.key.set_result(self.result)`", &notify));
    s.push_str("inductive PopAct where\n  | ifHasResult | takeResult | readyOwnResAndBuf | elsePendingSameKey\n  deriving DecidableEq, Repr\n\n");
    s.push_str(&lit("pop", "PopAct", "`Proactor::pop`", &pop_acts));
    s.push_str("inductive ImmediateAct where\n  | setResult | takeResult\n  deriving DecidableEq, Repr\n\n");
    s.push_str(&lit("pushReadyArm", "ImmediateAct", "the `Poll::Ready(res)` arm of `Proactor::push_with_extra`", &immediate));
    writeln!(s, "/-- `Driver::CANCEL` / `Driver::NOTIFY` (u64 user_data values that are not keys) -/\ndef CANCEL : Nat := {cancel_c}\ndef NOTIFY : Nat := {notify_c}\n").unwrap();
    s.push_str("/-- effects of one arm of the `match entry.user_data()` in `Driver::poll_entries` -/\ninductive CqeAct where\n  | needNotifierUnlessMore   -- `if !more(flags) { flags.insert(NEED_PUSH_NOTIFIER) }`\n  | clearNotifier            -- `self.notifier.clear()` (eventfd, no completion state)\n  | borrowKeyOfUserData      -- `BorrowedKey::from_raw(key)`: the op named by the CQE's user_data\n  | pushMultishot            -- `carrier.push_multishot(create_result(entry.result()), extra)`\n  | wakeByRef                -- `key.wake_by_ref()`\n  | inflightRemove           -- `self.in_flight.remove(&key)`\n  | notifyCreatedEntry       -- `create_entry(entry).notify()`\n  deriving DecidableEq, Repr\n\n");
    s.push_str(&lit("armCancel", "CqeAct", "arm `Self::CANCEL`", &arm_cancel));
    s.push_str(&lit("armNotify", "CqeAct", "arm `Self::NOTIFY`", &arm_notify));
    s.push_str(&lit("armKeyMore", "CqeAct", "catch-all arm, `more(flags)`", &arm_key_more));
    s.push_str(&lit("armKeyFinal", "CqeAct", "catch-all arm, final CQE", &arm_key_final));
    s.push_str("inductive CreateEntryAct where\n  | resultOfCqe | createResult | keyOfUserData | entryNew | setFlags | ret\n  deriving DecidableEq, Repr\n\n");
    s.push_str(&lit("createEntry", "CreateEntryAct", "`fn create_entry(cq_entry)`: key = the CQE's user_data, result = `create_result(cq_entry.result())`, nothing else", &create_entry));
    s.push_str("inductive PollBlockingAct where\n  | drainChannelNotifyEach | retHadEntry\n  deriving DecidableEq, Repr\n\n");
    s.push_str(&lit("pollBlocking", "PollBlockingAct", "`Driver::poll_blocking`", &poll_blocking));
    s.push_str("inductive PushKeyAct where\n  | userDataIsOwnKey   -- `let user_data = key.as_raw()`\n  | tagEntry           -- `entry.user_data(user_data)`\n  | pushRawOrReturn    -- `self.push_raw(entry)?`\n  | inflightInsert     -- `self.in_flight.insert(user_data)`\n  | leakKey            -- `key.into_raw()`\n  | retOk\n  deriving DecidableEq, Repr\n\n");
    s.push_str(&lit("pushRawWithKey", "PushKeyAct", "`Driver::push_raw_with_key`, statements in source order", &prwk));
    s.push_str("inductive FullAct where\n  | submitAutoZero   -- `self.submit_auto(Some(Duration::ZERO), true)`\n  | pollEntries      -- `self.poll_entries()`\n  deriving DecidableEq, Repr\n\n");
    s.push_str(&lit("pushRawOnFull", "FullAct", "`Driver::push_raw`: what one round of the loop does when `squeue.push` fails (then it retries)", &on_full));
    let tl = tolerated.iter().map(|k| format!("\"{k}\"")).collect::<Vec<_>>().join(", ");
    writeln!(s, "/-- `io::ErrorKind`s of that `submit_auto` after which the loop goes on (every other error is returned) -/\ndef pushRawTolerated : List String := [{tl}]\n").unwrap();
    s.push_str("/-- how `Driver::cancel` queues the AsyncCancel SQE (user_data = `Self::CANCEL`) -/\ninductive CancelVia where\n  | pushRaw          -- `self.push_raw(..)`: submit-and-drain until there is room\n  | rawSqueuePush    -- `self.inner.submission().push(..)`: dropped when the queue is full\n  deriving DecidableEq, Repr\n\n");
    writeln!(s, "def cancelVia : CancelVia := .{cancel_via}\n").unwrap();
    s.push_str("end Compio.Gen.CompletionPath\n");
    Ok(s)
}
