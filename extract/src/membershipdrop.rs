//! compio-actor/src/process_group/mod.rs `impl Drop for Membership<M>`  ->  Gen/MembershipDrop.lean
//!
//! The C19 group theorems (`group_no_delivery_to_departed_member`, `group_send_uses_current_membership`, …) treat a
//! leave as ONE critical section (`GEv.leave`). That holds only if `Membership::drop` looks its member up and removes
//! it under a single acquisition of the group lock. The extractor reads the body of `drop`, requires the statements it
//! knows (`let Some(group) = self.group.upgrade() else { return; };` first) and reports how many times the group lock
//! is taken and whether `position` and `remove` both go through the one top-level guard `state`.

use std::{fmt::Write as _, path::Path};

use crate::{Res, header, parse_file, tokens};

fn squash(s: &str) -> String {
    s.chars().filter(|c| !c.is_whitespace()).collect()
}

pub fn generate(repo: &Path) -> Res<String> {
    let rel = "compio-actor/src/process_group/mod.rs";
    let file = parse_file(&repo.join(rel))?;
    let mut found = None;
    for item in &file.items {
        if let syn::Item::Impl(imp) = item {
            let Some((_, tr, _)) = &imp.trait_ else { continue };
            if squash(&tokens(tr)) != "Drop" || !squash(&tokens(&*imp.self_ty)).starts_with("Membership<") {
                continue;
            }
            for it in &imp.items {
                if let syn::ImplItem::Fn(f) = it {
                    if f.sig.ident == "drop" {
                        if found.is_some() {
                            return Err("two `Drop for Membership` impls".into());
                        }
                        found = Some(f.block.clone());
                    }
                }
            }
        }
    }
    let Some(block) = found else { return Err("impl Drop for Membership<M> not found".into()) };
    if block.stmts.is_empty() {
        return Err("Membership::drop: empty body".into());
    }
    let first = squash(&tokens(&block.stmts[0]));
    if first != "letSome(group)=self.group.upgrade()else{return;};" {
        return Err(format!("Membership::drop: unrecognised first statement {first}"));
    }
    let body = squash(&tokens(&block));
    let locks = body.matches(".lock()").count();
    let lookups = body.matches(".members.iter().position(|member|member.id==self.id)").count();
    let removes = body.matches(".members.remove(index)").count();
    if lookups != 1 || removes != 1 {
        return Err(format!("Membership::drop: expected one `members.iter().position(|member| member.id == self.id)` and one `members.remove(index)`, found {lookups} / {removes}"));
    }
    // the one guard is a top-level `let mut state = group.state.lock().unwrap();` and both accesses go through it
    let top_guard = block.stmts.iter().filter(|s| squash(&tokens(*s)) == "letmutstate=group.state.lock().unwrap();").count();
    let same_guard = top_guard == 1
        && locks == 1
        && body.contains("state.members.iter().position(")
        && body.contains("state.members.remove(index)")
        && !body.contains("drop(state)");
    let mut s = header("MembershipDrop", &[rel]);
    writeln!(s, "namespace Compio.Gen\n").unwrap();
    writeln!(s, "/-- number of `.lock()` acquisitions in the body of `Membership::drop` -/").unwrap();
    writeln!(s, "def membershipDropLocks : Nat := {locks}\n").unwrap();
    writeln!(s, "/-- `position` (lookup) and `remove` both go through the single top-level guard").unwrap();
    writeln!(s, "`let mut state = group.state.lock().unwrap();` that lives to the end of `drop` -/").unwrap();
    writeln!(s, "def membershipDropLookupRemoveSameGuard : Bool := {same_guard}\n").unwrap();
    writeln!(s, "end Compio.Gen").unwrap();
    Ok(s)
}
