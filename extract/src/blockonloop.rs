//! compio-runtime/src/lib.rs `Runtime::block_on_at` (the loop) and `Runtime::poll`  ->  Gen/BlockOnLoop.lean
//!
//! `poll_with` is the only place where the timer wheel is swept (target PollWith). This target
//! reads whether EVERY iteration of the `block_on` loop that does not return reaches it, whatever
//! `Executor::tick` reported about remaining runnable tasks. The statements of the one `loop { .. }`
//! inside `block_on_at` are classified, in source order:
//!   `pollMain`           `if let Poll::Ready(result) = future.as_mut().poll(&mut context) { self.run(); return result; }`
//!   `runTasks`           `let remaining_tasks = self.run();`
//!   `ifRemaining t e`    `if remaining_tasks { t } else { e }` (no else = `nothing`); arms:
//!                        `pollZero` = `self.poll_with(Some(Duration::ZERO));`, `pollIdle` = `self.poll();`,
//!                        `continueLoop` = `continue;`, `nothing`
//!   `pollIdle` / `pollZero` as plain statements
//! and `Runtime::poll` is checked to end in `self.poll_with(timeout)` with
//! `let timeout = self.current_timeout();`. Fails closed on anything else.

use std::{fmt::Write as _, path::Path};

use syn::visit::Visit;

use crate::{Res, header, parse_file, tokens};

fn squash(s: &str) -> String {
    s.chars().filter(|c| !c.is_whitespace()).collect()
}

#[derive(Default)]
struct Loops<'a> {
    found: Vec<&'a syn::ExprLoop>,
}

impl<'ast> Visit<'ast> for Loops<'ast> {
    fn visit_expr_loop(&mut self, l: &'ast syn::ExprLoop) {
        self.found.push(l);
        syn::visit::visit_expr_loop(self, l);
    }
}

fn arm(b: &syn::Block) -> Res<&'static str> {
    let t = squash(&tokens(b));
    // comments are not tokens
    Ok(match t.as_str() {
        "{self.poll_with(Some(Duration::ZERO));}" | "{self.poll_with(Some(Duration::ZERO))}" => "pollZero",
        "{self.poll();}" | "{self.poll()}" => "pollIdle",
        "{continue;}" | "{continue}" => "continueLoop",
        "{}" => "nothing",
        _ => return Err(format!("block_on_at: unsupported branch `{}`", tokens(b))),
    })
}

pub fn generate(repo: &Path) -> Res<String> {
    let rel = "compio-runtime/src/lib.rs";
    let file = parse_file(&repo.join(rel))?;
    let mut block_on = None;
    let mut poll = None;
    for it in &file.items {
        let syn::Item::Impl(im) = it else { continue };
        if tokens(&im.self_ty) != "Runtime" || im.trait_.is_some() {
            continue;
        }
        for ii in &im.items {
            let syn::ImplItem::Fn(f) = ii else { continue };
            if f.sig.ident == "block_on_at" {
                if block_on.is_some() {
                    return Err("two Runtime::block_on_at".into());
                }
                block_on = Some(f);
            }
            if f.sig.ident == "poll" {
                poll = Some(f);
            }
        }
    }
    let block_on = block_on.ok_or("Runtime::block_on_at not found")?;
    let poll = poll.ok_or("Runtime::poll not found")?;
    let mut loops = Loops::default();
    loops.visit_block(&block_on.block);
    if loops.found.len() != 1 {
        return Err(format!("Runtime::block_on_at: expected exactly one `loop`, found {}", loops.found.len()));
    }
    let mut kinds: Vec<String> = vec![];
    for st in &loops.found[0].body.stmts {
        let t = squash(&tokens(st));
        let k = if t == "ifletPoll::Ready(result)=future.as_mut().poll(&mutcontext){self.run();returnresult;}" {
            "pollMain".to_string()
        } else if t == "letremaining_tasks=self.run();" {
            "runTasks".to_string()
        } else if t == "self.poll();" {
            "pollIdle".to_string()
        } else if t == "self.poll_with(Some(Duration::ZERO));" {
            "pollZero".to_string()
        } else {
            let e = match st {
                syn::Stmt::Expr(syn::Expr::If(e), _) => e,
                _ => return Err(format!("Runtime::block_on_at: unsupported loop statement `{}`", tokens(st))),
            };
            if squash(&tokens(&e.cond)) != "remaining_tasks" {
                return Err(format!("Runtime::block_on_at: unsupported condition `{}`", tokens(&e.cond)));
            }
            let th = arm(&e.then_branch)?;
            let el = match &e.else_branch {
                None => "nothing",
                Some((_, b)) => match &**b {
                    syn::Expr::Block(b) => arm(&b.block)?,
                    other => return Err(format!("Runtime::block_on_at: unsupported else `{}`", tokens(other))),
                },
            };
            format!("ifRemaining .{th} .{el}")
        };
        kinds.push(k);
    }
    if kinds.iter().filter(|k| *k == "pollMain").count() != 1 || kinds.iter().filter(|k| *k == "runTasks").count() != 1 {
        return Err("Runtime::block_on_at: expected one poll of the main future and one `self.run()` per iteration".into());
    }
    // Runtime::poll = poll_with(current_timeout())
    let pt = squash(&tokens(&poll.block));
    let poll_ok = pt.contains("lettimeout=self.current_timeout();") && pt.ends_with("self.poll_with(timeout)}") && pt.matches("timeout=").count() == 1;
    if !poll_ok {
        return Err(format!("Runtime::poll is not `poll_with(current_timeout())`: `{}`", tokens(&poll.block)));
    }

    let mut s = header("BlockOnLoop", &[rel]);
    s.push_str("namespace Compio.Gen.BlockOnLoop\n\n");
    s.push_str("/-- what a branch of `if remaining_tasks { .. } else { .. }` does -/\ninductive Arm where\n  | pollZero       -- `self.poll_with(Some(Duration::ZERO));`\n  | pollIdle       -- `self.poll();` = `poll_with(current_timeout())`\n  | continueLoop   -- `continue;`\n  | nothing\n  deriving DecidableEq, Repr\n\n");
    s.push_str("/-- kinds of statements of the loop in `Runtime::block_on_at` -/\ninductive Stmt where\n  | pollMain       -- poll the main future; `Ready` => `self.run(); return result`\n  | runTasks       -- `let remaining_tasks = self.run();`\n  | ifRemaining (thenArm elseArm : Arm)\n  | pollIdle\n  | pollZero\n  deriving DecidableEq, Repr\n\n");
    let lit = kinds.iter().map(|k| if k.contains(' ') { format!("({})", format!(".{k}")) } else { format!(".{k}") }).collect::<Vec<_>>().join(", ");
    writeln!(s, "/-- the statements of the loop, in source order -/\ndef loopBody : List Stmt := [{lit}]\n").unwrap();
    s.push_str("/-- `Runtime::poll` is `self.poll_with(self.current_timeout())` (checked by the extractor) -/\ndef pollIsPollWithCurrentTimeout : Bool := true\n\n");
    s.push_str("end Compio.Gen.BlockOnLoop\n");
    Ok(s)
}
