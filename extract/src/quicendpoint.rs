//! compio-quic/src/endpoint.rs  ->  Gen/QuicEndpoint.lean
//!
//! The endpoint-level waker bookkeeping (FAIL CLOSED):
//!  (a) the waker fields of `EndpointState` (`incoming_wakers: VecDeque<Waker>`);
//!  (b) `Endpoint::close` statement by statement (already-closed guard, `close = Some(..)`, `ConnectionEvent::Close`
//!      to every connection, which tables it drains);
//!  (c) the tail of the worker loop of `EndpointInner::run` (what it wakes under which condition);
//!  (d) the registration site (`EndpointState::poll_incoming`), that it answers `Ready(None)` once closed, and that
//!      `handle_data` queues a new `Incoming` only while the endpoint is open.
//! Every textual occurrence of a waker field in endpoint.rs must be accounted for by one of these.

use std::{fmt::Write as _, path::Path};

use syn::visit::Visit;

use crate::{Res, header, parse_file, tokens};

fn ds<T: quote::ToTokens>(t: &T) -> String {
    tokens(t).replace(' ', "")
}

fn camel(rust: &str) -> String {
    let mut s = String::new();
    let mut up = false;
    for c in rust.chars() {
        if c == '_' {
            up = !s.is_empty();
        } else if up {
            s.push(c.to_ascii_uppercase());
            up = false;
        } else {
            s.push(c);
        }
    }
    s
}

struct FindLoop(Option<syn::ExprLoop>);
impl<'ast> Visit<'ast> for FindLoop {
    fn visit_expr_loop(&mut self, l: &'ast syn::ExprLoop) {
        if self.0.is_none() {
            self.0 = Some(l.clone());
        }
    }
}

pub fn generate(repo: &Path) -> Res<String> {
    let rel = "compio-quic/src/endpoint.rs";
    let file = parse_file(&repo.join(rel))?;
    let whole = ds(&file);

    // ------------------------------------------------------------ (a) fields
    let mut tables: Vec<String> = vec![];
    let mut found = false;
    for it in &file.items {
        let syn::Item::Struct(st) = it else { continue };
        if st.ident != "EndpointState" {
            continue;
        }
        found = true;
        let mut has_close = false;
        let mut has_incoming = false;
        for f in &st.fields {
            let name = f.ident.as_ref().ok_or("tuple field")?.to_string();
            let ty = ds(&f.ty);
            if ty.contains("Waker") {
                if ty != "VecDeque<Waker>" {
                    return Err(format!("EndpointState.{name}: unrecognised waker container {ty}"));
                }
                tables.push(name);
            } else if name == "close" && ty == "Option<(VarInt,Bytes)>" {
                has_close = true;
            } else if name == "incoming" && ty == "VecDeque<quinn_proto::Incoming>" {
                has_incoming = true;
            }
        }
        if !has_close || !has_incoming {
            return Err("EndpointState.close / EndpointState.incoming not found".into());
        }
    }
    if !found {
        return Err("struct EndpointState not found".into());
    }
    if tables.is_empty() {
        return Err("EndpointState has no waker table".into());
    }
    let lean = |t: &str| format!(".{}", camel(t));
    // occurrences accounted for: field declaration + initialisation
    let mut accounted: Vec<(String, usize)> = tables.iter().map(|t| (t.clone(), 1)).collect();
    let mut account = |t: &str, n: usize| {
        for a in accounted.iter_mut() {
            if a.0 == t {
                a.1 += n;
            }
        }
    };
    for t in &tables {
        if !whole.contains(&format!("{t}:VecDeque::new(),")) {
            return Err(format!("EndpointInner::new: {t} is not initialised empty"));
        }
        account(t, 1);
    }
    if !whole.contains("close:None,") {
        return Err("EndpointInner::new: close is not initialised None".into());
    }

    // ------------------------------------------------------------ impls
    let mut close_body: Option<Vec<String>> = None;
    let mut close_drains: Vec<String> = vec![];
    let mut poll_incoming_table: Option<String> = None;
    let mut new_conn_guard = false;
    let mut loop_chain: Option<Vec<Vec<(String, String)>>> = None; // list of if-chains: (cond, wake)
    let mut wait_incoming_ok = false;
    let mut born_closed: Option<bool> = None;
    let mut connect_rejects_closed: Option<bool> = None;
    for it in &file.items {
        let syn::Item::Impl(im) = it else { continue };
        let ty = ds(&im.self_ty);
        for ii in &im.items {
            let syn::ImplItem::Fn(f) = ii else { continue };
            let name = f.sig.ident.to_string();
            let body = ds(&f.block);
            if ty == "Endpoint" && name == "close" {
                let mut acts = vec![];
                for st in &f.block.stmts {
                    let s = ds(st);
                    if s == "letreason=Bytes::copy_from_slice(reason);" || s == "letmutstate=self.inner.state.lock();" {
                        continue;
                    } else if s == "ifstate.close.is_some(){return;}" {
                        acts.push(".guardAlreadyClosed".to_string());
                    } else if s == "state.close=Some((error_code,reason.clone()));" {
                        acts.push(".setClose".to_string());
                    } else if s == "forconninstate.connections.values(){let_=conn.send(ConnectionEvent::Close(error_code,reason.clone()));}" {
                        acts.push(".notifyConnections".to_string());
                    } else if let Some(t) = s
                        .strip_prefix("state.")
                        .and_then(|r| r.strip_suffix(".drain(..).for_each(Waker::wake);"))
                        .filter(|t| tables.iter().any(|x| x == t))
                    {
                        acts.push(format!(".drain {}", lean(t)));
                        close_drains.push(t.to_string());
                        account(t, 1);
                    } else {
                        return Err(format!("Endpoint::close: unrecognised statement {s}"));
                    }
                }
                close_body = Some(acts);
            } else if ty == "EndpointState" && name == "poll_incoming" {
                let t = tables
                    .iter()
                    .find(|t| {
                        body == format!(
                            "{{ifself.close.is_none(){{ifletSome(incoming)=self.incoming.pop_front(){{Poll::Ready(Some(incoming))}}else{{self.{t}.push_back(cx.waker().clone());Poll::Pending}}}}else{{Poll::Ready(None)}}}}"
                        )
                    })
                    .ok_or(format!("EndpointState::poll_incoming: unrecognised body {body}"))?;
                poll_incoming_table = Some(t.clone());
                account(t, 1);
            } else if ty == "EndpointState" && name == "handle_data" {
                new_conn_guard = body.contains(
                    "Some(DatagramEvent::NewConnection(incoming))=>{ifself.close.is_none(){self.incoming.push_back(incoming);}else{lettransmit=self.endpoint.refuse(incoming,&mutresp_buf);respond_fn(resp_buf,transmit);}}",
                );
                if !new_conn_guard {
                    return Err("EndpointState::handle_data: NewConnection arm not recognised".into());
                }
            } else if ty == "EndpointState" && name == "new_connection" {
                // every connection is registered in `connections`; one created after `close` was requested gets the
                // `ConnectionEvent::Close` that `Endpoint::close` sent to the others
                let with = "{let(tx,rx)=unbounded();ifletSome((error_code,reason))=&self.close{tx.send(ConnectionEvent::Close(*error_code,reason.clone())).unwrap();}self.connections.insert(handle,tx);Connecting::new(handle,conn,socket,events_tx,rx)}";
                let without = "{let(tx,rx)=unbounded();self.connections.insert(handle,tx);Connecting::new(handle,conn,socket,events_tx,rx)}";
                born_closed = Some(if body == with {
                    true
                } else if body == without {
                    false
                } else {
                    return Err(format!("EndpointState::new_connection: unrecognised body {body}"));
                });
            } else if ty == "EndpointInner" && (name == "connect" || name == "accept") {
                if !body.contains("state.new_connection(handle,conn,self.socket.clone(),self.events.0.clone())") {
                    return Err(format!("EndpointInner::{name}: does not create the connection through new_connection"));
                }
                if name == "connect" {
                    connect_rejects_closed = Some(if body.contains("ifstate.worker.is_none(){returnErr(ConnectError::EndpointStopping);}") {
                        false
                    } else if body.contains("ifstate.worker.is_none()||state.close.is_some(){returnErr(ConnectError::EndpointStopping);}") {
                        true
                    } else {
                        return Err("EndpointInner::connect: unrecognised EndpointStopping guard".into());
                    });
                }
            } else if ty == "Endpoint" && name == "wait_incoming" {
                wait_incoming_ok = body.contains("future::poll_fn(|cx|self.inner.state.lock().poll_incoming(cx))");
            } else if ty == "EndpointInner" && name == "run" {
                let mut fl = FindLoop(None);
                fl.visit_block(&f.block);
                let lp = fl.0.ok_or("EndpointInner::run: loop not found")?;
                let stmts = &lp.body.stmts;
                if stmts.is_empty() || !ds(&stmts[0]).starts_with("letmutstate=select!{") {
                    return Err("EndpointInner::run: loop does not start with `let mut state = select! {`".into());
                }
                // the select! arms are opaque: they must not touch the waker tables
                for t in &tables {
                    if ds(&stmts[0]).contains(t.as_str()) {
                        return Err(format!("EndpointInner::run: {t} used inside select!"));
                    }
                }
                let mut chains = vec![];
                for st in &stmts[1..] {
                    let s = ds(st);
                    if s == "ifstate.exit_on_idle&&state.is_idle(){breakOk(());}" {
                        chains.push(vec![("exitIfIdle".to_string(), String::new())]);
                        continue;
                    }
                    // an if / else-if chain of wake-ups
                    let mut chain = vec![];
                    let mut cur: Option<syn::ExprIf> = match st {
                        syn::Stmt::Expr(syn::Expr::If(i), _) => Some(i.clone()),
                        _ => return Err(format!("EndpointInner::run: unrecognised statement {s}")),
                    };
                    while let Some(i) = cur {
                        let cond = ds(&i.cond);
                        let then = ds(&i.then_branch);
                        let mut hit = None;
                        for t in &tables {
                            if cond == "!state.incoming.is_empty()"
                                && then == format!("{{letn=state.incoming.len().min(state.{t}.len());state.{t}.drain(..n).for_each(Waker::wake);}}")
                            {
                                hit = Some(("incomingQueued".to_string(), format!(".wakeMin {}", lean(t))));
                                account(t, 2);
                            } else if cond == "state.close.is_some()"
                                && then == format!("{{state.{t}.drain(..).for_each(Waker::wake);}}")
                            {
                                hit = Some(("closed".to_string(), format!(".wakeAll {}", lean(t))));
                                account(t, 1);
                            }
                        }
                        chain.push(hit.ok_or(format!("EndpointInner::run: unrecognised branch if {cond} {then}"))?);
                        cur = match &i.else_branch {
                            None => None,
                            Some((_, e)) => match &**e {
                                syn::Expr::If(n) => Some(n.clone()),
                                other => return Err(format!("EndpointInner::run: unrecognised else {}", ds(other))),
                            },
                        };
                    }
                    chains.push(chain);
                }
                loop_chain = Some(chains);
            }
        }
    }
    let close_body = close_body.ok_or("Endpoint::close not found")?;
    let poll_incoming_table = poll_incoming_table.ok_or("EndpointState::poll_incoming not found")?;
    let loop_chain = loop_chain.ok_or("EndpointInner::run not found")?;
    let born_closed = born_closed.ok_or("EndpointState::new_connection not found")?;
    let connect_rejects_closed = connect_rejects_closed.ok_or("EndpointInner::connect not found")?;
    if !wait_incoming_ok {
        return Err("Endpoint::wait_incoming does not poll poll_incoming".into());
    }
    for (t, n) in &accounted {
        let total = whole.matches(t.as_str()).count();
        if total != *n {
            return Err(format!("endpoint.rs: {total} occurrences of {t}, {n} recognised"));
        }
    }

    // ------------------------------------------------------------ render
    let list = |xs: Vec<String>| format!("[{}]", xs.join(", "));
    let mut s = header("QuicEndpoint", &[rel]);
    s.push_str("namespace Compio.Gen.QuicEndpoint\n\n/-- the waker fields of `EndpointState` (all `VecDeque<Waker>`) -/\ninductive ETbl where\n");
    for t in &tables {
        writeln!(s, "  | {}", camel(t)).unwrap();
    }
    s.push_str("  deriving DecidableEq, Repr\n\n");
    writeln!(s, "def ETbl.all : List ETbl := {}\n", list(tables.iter().map(|t| lean(t)).collect())).unwrap();
    s.push_str("/-- one statement of `Endpoint::close`, in source order -/\ninductive CloseAct where\n  | guardAlreadyClosed | setClose | notifyConnections | drain (t : ETbl)\n  deriving DecidableEq, Repr\n\n");
    writeln!(s, "def closeBody : List CloseAct := {}\n", list(close_body)).unwrap();
    writeln!(s, "def closeDrains : List ETbl := {}\n", list(close_drains.iter().map(|t| lean(t)).collect())).unwrap();
    s.push_str("/-- condition / wake-up of one branch of the if-chains at the end of the worker loop of `EndpointInner::run` -/\ninductive LoopCond where\n  | incomingQueued | closed\n  deriving DecidableEq, Repr\n\ninductive LoopWake where\n  | wakeMin (t : ETbl)   -- `drain(..min(incoming.len(), wakers.len()))`\n  | wakeAll (t : ETbl)\n  deriving DecidableEq, Repr\n\n");
    let mut chains_txt = vec![];
    let mut exit_idx = None;
    for (i, c) in loop_chain.iter().enumerate() {
        if c.len() == 1 && c[0].0 == "exitIfIdle" {
            exit_idx = Some(i);
            continue;
        }
        chains_txt.push(list(c.iter().map(|(cond, w)| format!("(.{cond}, {w})")).collect()));
    }
    writeln!(s, "/-- the if / else-if chains after the `select!` (first true condition of each chain runs) -/\ndef loopChains : List (List (LoopCond × LoopWake)) := {}\n", list(chains_txt)).unwrap();
    writeln!(s, "/-- `if state.exit_on_idle && state.is_idle() {{ break }}` precedes them -/\ndef loopExitsWhenIdleFirst : Bool := {}\n", exit_idx == Some(0)).unwrap();
    s.push_str("/-- every function that stores `cx.waker()` in a table -/\ninductive EReg where\n  | endpointStatePollIncoming\n  deriving DecidableEq, Repr\n\n");
    writeln!(s, "def eRegistersIn : EReg → ETbl\n  | .endpointStatePollIncoming => {}\n", lean(&poll_incoming_table)).unwrap();
    s.push_str("/-- `poll_incoming` answers `Ready(None)` without registering once `close` is set (checked by the extractor) -/\ndef eRegChecksClosed : EReg → Bool\n  | .endpointStatePollIncoming => true\n\n");
    s.push_str("def eApiOf : List (String × EReg) := [(\"Endpoint::wait_incoming\", .endpointStatePollIncoming)]\n\n");
    writeln!(s, "/-- `handle_data` queues a `NewConnection` only while `close` is `None` -/\ndef newConnectionQueuedOnlyWhenOpen : Bool := {new_conn_guard}\n").unwrap();
    writeln!(s, "/-- `new_connection` (used by BOTH `connect` and `accept`) sends `ConnectionEvent::Close` to a connection created\n    after `Endpoint::close` was requested: it is born closed -/\ndef newConnectionBornClosedWhenClosed : Bool := {born_closed}\n").unwrap();
    writeln!(s, "/-- `connect` itself fails with `EndpointStopping` on a closed endpoint -/\ndef connectRejectsWhenClosed : Bool := {connect_rejects_closed}\n").unwrap();
    s.push_str("end Compio.Gen.QuicEndpoint\n");
    Ok(s)
}
