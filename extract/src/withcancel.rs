//! compio-runtime/src/future/combinator/cancel.rs `impl Future/Stream for WithCancel<F>`  ->  Gen/WithCancel.lean
//!
//! The C05 token theorems ("a fired token cancels operations registered after it fired") reach `Submit::poll` only if
//! `WithCancel::poll` / `poll_next` ALWAYS poll the inner future through an `ExtWaker` that carries the token. The
//! recognised shape of both bodies is exactly
//!
//!     let this = self.project();
//!     with_ext(cx.waker(), |waker, ext: &Ext| { let ext = ext.with_cancel(this.cancel); ExtWaker::new(waker, &ext).poll[_next](this.future) })
//!
//! Anything else (an early return, a second poll of `this.future` outside the closure, …) is an error: fails closed.

use std::{fmt::Write as _, path::Path};

use crate::{Res, header, parse_file, tokens};

fn squash(s: &str) -> String {
    s.chars().filter(|c| !c.is_whitespace()).collect()
}

fn check_body(block: &syn::Block, method: &str) -> Res<()> {
    if block.stmts.len() != 2 {
        return Err(format!("WithCancel::{method}: expected `let this = self.project();` + one `with_ext(..)` expression, found {} statements", block.stmts.len()));
    }
    match &block.stmts[0] {
        syn::Stmt::Local(l) if l.init.as_ref().map(|i| squash(&tokens(&*i.expr)) == "self.project()").unwrap_or(false) => {}
        other => return Err(format!("WithCancel::{method}: unrecognised first statement {}", tokens(other))),
    }
    let syn::Stmt::Expr(syn::Expr::Call(call), None) = &block.stmts[1] else {
        return Err(format!("WithCancel::{method}: the body does not end in a `with_ext(..)` call: {}", tokens(&block.stmts[1])));
    };
    if squash(&tokens(&*call.func)) != "with_ext" || call.args.len() != 2 || squash(&tokens(&call.args[0])) != "cx.waker()" {
        return Err(format!("WithCancel::{method}: not `with_ext(cx.waker(), ..)`: {}", tokens(call)));
    }
    let syn::Expr::Closure(cl) = &call.args[1] else {
        return Err(format!("WithCancel::{method}: second argument of with_ext is not a closure"));
    };
    let body = squash(&tokens(&*cl.body));
    let want = format!("{{letext=ext.with_cancel(this.cancel);ExtWaker::new(waker,&ext).{method}(this.future)}}");
    if body != want {
        return Err(format!("WithCancel::{method}: closure body is not `let ext = ext.with_cancel(this.cancel); ExtWaker::new(waker, &ext).{method}(this.future)`: {body}"));
    }
    Ok(())
}

pub fn generate(repo: &Path) -> Res<String> {
    let rel = "compio-runtime/src/future/combinator/cancel.rs";
    let file = parse_file(&repo.join(rel))?;
    let mut seen = vec![];
    for item in &file.items {
        if let syn::Item::Impl(imp) = item {
            let Some((_, tr, _)) = &imp.trait_ else { continue };
            let tr = squash(&tokens(tr));
            if !squash(&tokens(&*imp.self_ty)).starts_with("WithCancel<") {
                continue;
            }
            let method = match tr.as_str() {
                "Future" => "poll",
                "Stream" => "poll_next",
                _ => continue,
            };
            for it in &imp.items {
                if let syn::ImplItem::Fn(f) = it {
                    if f.sig.ident == method {
                        check_body(&f.block, method)?;
                        seen.push(method);
                    }
                }
            }
        }
    }
    if !seen.contains(&"poll") || !seen.contains(&"poll_next") {
        return Err(format!("impl Future / impl Stream for WithCancel not both found (found {seen:?})"));
    }
    let mut s = header("WithCancel", &[rel]);
    writeln!(s, "namespace Compio.Gen\n").unwrap();
    writeln!(s, "/-- `WithCancel::poll` and `poll_next` poll the inner future ONLY through an `ExtWaker` carrying the token").unwrap();
    writeln!(s, "(recognised shape; the extractor fails on any other body) -/").unwrap();
    writeln!(s, "def withCancelAlwaysWrapsWaker : Bool := true\n").unwrap();
    writeln!(s, "end Compio.Gen").unwrap();
    Ok(s)
}
