//! compio-dispatcher/src/lib.rs (`Dispatcher::new_impl` worker loop, `dispatch`, `join`, `Concrete::spawn` / `run`,
//! `DispatcherBuilder::new`) and compio-runtime/src/lib.rs (`Runtime::block_on_at` exit and unwind paths,
//! `Runtime::drop`)  ->  Gen/DispatcherLoop.lean
//!
//! The hand model `Model/Dispatcher.lean` restates the control structure of these functions: what the worker loop
//! does with the `JoinHandle` of a freshly spawned task in concurrent / sequential mode, the order of the statements
//! of `join` and what happens when the pool refuses the joiner closure, the two arms of `dispatch`, the statements
//! of the spawned future, and how `block_on_at` leaves (one last tick, no draining loop) / unwinds. Each of them is
//! syntactically regular; this target recognises exactly the shapes below and renders them as Lean literals, over
//! which the `gen_*` theorems of Props/C18.lean are stated (generated table = what the model's step functions do).
//!
//! Fails closed: every statement of the recognised bodies must be classified; anything else is an `Err`.

use std::{fmt::Write as _, path::Path};

use syn::visit::Visit;

use crate::{Res, header, parse_file, tokens};

fn squash(s: &str) -> String {
    s.chars().filter(|c| !c.is_whitespace()).collect()
}

fn sq<T: quote::ToTokens>(t: &T) -> String {
    squash(&tokens(t))
}

/// statement text without whitespace and without the trailing `;`
fn stmt_text(st: &syn::Stmt) -> String {
    let s = sq(st);
    s.strip_suffix(';').map(|x| x.to_string()).unwrap_or(s)
}

fn find_fn<'a>(file: &'a syn::File, self_ty: &str, trait_: Option<&str>, name: &str) -> Res<&'a syn::ImplItemFn> {
    let mut found = None;
    for it in &file.items {
        let syn::Item::Impl(im) = it else { continue };
        let ty = sq(&*im.self_ty);
        let ty_base = ty.split('<').next().unwrap_or("").to_string();
        if ty_base != self_ty {
            continue;
        }
        let tr = im.trait_.as_ref().map(|(_, p, _)| sq(p));
        match (trait_, tr.as_deref()) {
            (None, None) => {}
            (Some(a), Some(b)) if a == b => {}
            _ => continue,
        }
        for ii in &im.items {
            let syn::ImplItem::Fn(f) = ii else { continue };
            if f.sig.ident == name {
                if found.is_some() {
                    return Err(format!("two definitions of {self_ty}::{name}"));
                }
                found = Some(f);
            }
        }
    }
    found.ok_or_else(|| format!("{self_ty}::{name} not found"))
}

#[derive(Default)]
struct Finder<'a> {
    whiles: Vec<&'a syn::ExprWhile>,
    block_on_at: Vec<&'a syn::ExprMethodCall>,
    spawn_at: Vec<&'a syn::ExprMethodCall>,
    ready_ifs: Vec<&'a syn::ExprIf>,
}

impl<'ast> Visit<'ast> for Finder<'ast> {
    fn visit_expr_while(&mut self, w: &'ast syn::ExprWhile) {
        self.whiles.push(w);
        syn::visit::visit_expr_while(self, w);
    }

    fn visit_expr_method_call(&mut self, m: &'ast syn::ExprMethodCall) {
        if m.method == "block_on_at" {
            self.block_on_at.push(m);
        }
        if m.method == "spawn_at" {
            self.spawn_at.push(m);
        }
        syn::visit::visit_expr_method_call(self, m);
    }

    fn visit_expr_if(&mut self, i: &'ast syn::ExprIf) {
        if let syn::Expr::Let(l) = &*i.cond {
            if sq(&*l.pat) == "Poll::Ready(result)" {
                self.ready_ifs.push(i);
            }
        }
        syn::visit::visit_expr_if(self, i);
    }
}

fn one_stmt_block(b: &syn::Block, what: &str) -> Res<String> {
    if b.stmts.len() != 1 {
        return Err(format!("{what}: expected exactly one statement, found {}", b.stmts.len()));
    }
    Ok(stmt_text(&b.stmts[0]))
}

fn after_spawn_kind(text: &str) -> Res<&'static str> {
    match text {
        "task.detach()" => Ok("detach"),
        "task.await.ok()" => Ok("awaitTask"),
        other => Err(format!("worker loop: unrecognised use of the JoinHandle `{other}`")),
    }
}

/// the worker loop of `new_impl`: returns (then-kind, else-kind) of `if concurrent {..} else {..}`
fn worker_loop(f: &syn::ImplItemFn) -> Res<(&'static str, &'static str)> {
    let mut fd = Finder::default();
    fd.visit_block(&f.block);
    if fd.block_on_at.len() != 1 {
        return Err(format!("new_impl: expected exactly one `.block_on_at(..)`, found {}", fd.block_on_at.len()));
    }
    if fd.whiles.len() != 1 {
        return Err(format!("new_impl: expected exactly one `while` loop, found {}", fd.whiles.len()));
    }
    let call = fd.block_on_at[0];
    if call.args.len() != 2 {
        return Err("new_impl: block_on_at does not have two arguments".into());
    }
    let syn::Expr::Async(a) = &call.args[0] else {
        return Err("new_impl: first argument of block_on_at is not an async block".into());
    };
    if a.block.stmts.len() != 1 {
        return Err(format!("new_impl: the worker future has {} statements, expected the `while let` loop only", a.block.stmts.len()));
    }
    let w = match &a.block.stmts[0] {
        syn::Stmt::Expr(syn::Expr::While(w), _) => w,
        other => return Err(format!("new_impl: the worker future is not a `while` loop: {}", tokens(other))),
    };
    let syn::Expr::Let(l) = &*w.cond else {
        return Err("new_impl: the worker loop is not `while let`".into());
    };
    let pat = sq(&*l.pat);
    if pat != "Ok(Spawning{task:f,meta})" {
        return Err(format!("new_impl: unrecognised loop pattern `{pat}`"));
    }
    let src = sq(&*l.expr);
    if src != "receiver.recv_async().await" {
        return Err(format!("new_impl: the loop does not receive from `receiver.recv_async().await`: `{src}`"));
    }
    if w.body.stmts.len() != 2 {
        return Err(format!("new_impl: loop body has {} statements, expected spawn + if", w.body.stmts.len()));
    }
    let s0 = stmt_text(&w.body.stmts[0]);
    if s0 != "lettask=Runtime::with_current(|rt|f.spawn(rt,meta))" {
        return Err(format!("new_impl: unrecognised spawn statement `{s0}`"));
    }
    let i = match &w.body.stmts[1] {
        syn::Stmt::Expr(syn::Expr::If(i), _) => i,
        other => return Err(format!("new_impl: second loop statement is not an `if`: {}", tokens(other))),
    };
    if sq(&*i.cond) != "concurrent" {
        return Err(format!("new_impl: the `if` does not test `concurrent`: `{}`", sq(&*i.cond)));
    }
    let then_k = after_spawn_kind(&one_stmt_block(&i.then_branch, "worker loop then-branch")?)?;
    let Some((_, els)) = &i.else_branch else {
        return Err("new_impl: `if concurrent` without else".into());
    };
    let syn::Expr::Block(eb) = &**els else {
        return Err("new_impl: else branch is not a block".into());
    };
    let else_k = after_spawn_kind(&one_stmt_block(&eb.block, "worker loop else-branch")?)?;
    // every worker owns a clone of the one receiver of an unbounded channel
    let body = sq(&f.block);
    for need in ["let(sender,receiver)=unbounded::<Spawning>();", "letreceiver=receiver.clone();"] {
        if !body.contains(need) {
            return Err(format!("new_impl: `{need}` not found"));
        }
    }
    Ok((then_k, else_k))
}

/// `dispatch`: the final `match self.sender.send(..)`; returns the arm kinds for (Ok, Err)
fn dispatch_arms(f: &syn::ImplItemFn) -> Res<(&'static str, &'static str)> {
    let last = f.block.stmts.last().ok_or("dispatch: empty body")?;
    let syn::Stmt::Expr(syn::Expr::Match(m), None) = last else {
        return Err("dispatch: the body does not end in a `match`".into());
    };
    if !sq(&*m.expr).starts_with("self.sender.send(Spawning{") {
        return Err(format!("dispatch: the match is not on `self.sender.send(Spawning{{..}})`: {}", sq(&*m.expr)));
    }
    if m.arms.len() != 2 {
        return Err(format!("dispatch: {} match arms", m.arms.len()));
    }
    let mut ok = None;
    let mut err = None;
    for arm in &m.arms {
        if arm.guard.is_some() {
            return Err("dispatch: guarded arm".into());
        }
        let pat = sq(&arm.pat);
        match pat.as_str() {
            "Ok(_)" => {
                let b = sq(&*arm.body);
                if b != "Ok(rx)" {
                    return Err(format!("dispatch: Ok arm is `{b}`, expected `Ok(rx)`"));
                }
                ok = Some("okReceiver");
            }
            "Err(err)" => {
                let syn::Expr::Block(b) = &*arm.body else {
                    return Err("dispatch: Err arm is not a block".into());
                };
                let lastb = b.block.stmts.last().map(stmt_text).unwrap_or_default();
                if lastb != "Err(DispatchError(recovered.func))" {
                    return Err(format!("dispatch: Err arm ends in `{lastb}`"));
                }
                err = Some("errClosureBack");
            }
            other => return Err(format!("dispatch: unrecognised arm pattern `{other}`")),
        }
    }
    Ok((ok.ok_or("dispatch: no Ok arm")?, err.ok_or("dispatch: no Err arm")?))
}

struct JoinFacts {
    body: Vec<&'static str>,
    refused: &'static str,
    joiner: Vec<&'static str>,
}

fn join_body(f: &syn::ImplItemFn) -> Res<JoinFacts> {
    let mut body = vec![];
    let mut refused = None;
    let mut joiner = vec![];
    for st in &f.block.stmts {
        let t = stmt_text(st);
        if t == "drop(self.sender)" {
            body.push("dropSender");
        } else if t == "let(tx,rx)=oneshot::channel::<Vec<_>>()" {
            body.push("makeChannel");
        } else if let syn::Stmt::Expr(syn::Expr::If(i), _) = st {
            let syn::Expr::Let(l) = &*i.cond else {
                return Err(format!("join: unrecognised `if`: {t}"));
            };
            if sq(&*l.pat) != "Err(f)" {
                return Err(format!("join: unrecognised `if let` pattern {}", sq(&*l.pat)));
            }
            let syn::Expr::MethodCall(mc) = &*l.expr else {
                return Err("join: `if let Err(f) =` is not a method call".into());
            };
            if mc.method != "dispatch" || sq(&*mc.receiver) != "self.pool" || mc.args.len() != 1 {
                return Err(format!("join: not `self.pool.dispatch(<closure>)`: {}", sq(mc)));
            }
            // the joiner closure (possibly wrapped in a block)
            let mut arg = &mc.args[0];
            if let syn::Expr::Block(b) = arg {
                if b.block.stmts.len() != 1 {
                    return Err("join: block around the joiner closure has several statements".into());
                }
                match &b.block.stmts[0] {
                    syn::Stmt::Expr(e, None) => arg = e,
                    _ => return Err("join: block around the joiner closure is not an expression".into()),
                }
            }
            let syn::Expr::Closure(cl) = arg else {
                return Err("join: argument of pool.dispatch is not a closure".into());
            };
            let syn::Expr::Block(cb) = &*cl.body else {
                return Err("join: joiner closure body is not a block".into());
            };
            for js in &cb.block.stmts {
                let jt = stmt_text(js);
                if jt == "letresults=self.threads.into_iter().map(|thread|thread.join()).collect()" {
                    joiner.push("joinAllThreads");
                } else if jt == "tx.send(results).ok()" {
                    joiner.push("sendResults");
                } else {
                    return Err(format!("join: unrecognised joiner statement `{jt}`"));
                }
            }
            if i.else_branch.is_some() {
                return Err("join: `if let Err(f)` has an else branch".into());
            }
            let r = if i.then_branch.stmts.is_empty() {
                "ignore"
            } else {
                let tt = one_stmt_block(&i.then_branch, "join: refused-joiner branch")?;
                if tt == "std::thread::spawn(f.0)" {
                    "spawnThread"
                } else if tt.starts_with("returnErr(") {
                    "returnErr"
                } else {
                    return Err(format!("join: unrecognised refused-joiner branch `{tt}`"));
                }
            };
            if refused.is_some() {
                return Err("join: two `if let Err(f) = self.pool.dispatch(..)`".into());
            }
            refused = Some(r);
            body.push("handJoiner");
        } else if t.starts_with("letresults=rx.await.map_err(") && t.ends_with(")?") {
            body.push("awaitResults");
        } else if let syn::Stmt::Expr(syn::Expr::ForLoop(fl), _) = st {
            if sq(&*fl.pat) != "res" || sq(&*fl.expr) != "results" {
                return Err(format!("join: unrecognised for loop `{t}`"));
            }
            let bt = one_stmt_block(&fl.body, "join: for body")?;
            if bt != "res.unwrap_or_else(|e|resume_unwind(e))" {
                return Err(format!("join: unrecognised for body `{bt}`"));
            }
            body.push("resumePanics");
        } else if t == "Ok(())" {
            body.push("returnOk");
        } else {
            return Err(format!("join: unrecognised statement `{t}`"));
        }
    }
    Ok(JoinFacts { body, refused: refused.ok_or("join: no `self.pool.dispatch(..)` of the joiner")?, joiner })
}

fn task_stmts(stmts: &[syn::Stmt], what: &str, call: &str) -> Res<Vec<&'static str>> {
    let mut out = vec![];
    for st in stmts {
        let t = stmt_text(st);
        if t == "letConcrete{callback,func}=*self" {
            continue;
        } else if t == format!("letres={call}") {
            out.push("callFunc");
        } else if t == "callback.send(res).ok()" {
            out.push("sendResult");
        } else {
            return Err(format!("{what}: unrecognised statement `{t}`"));
        }
    }
    Ok(out)
}

fn spawn_body(f: &syn::ImplItemFn) -> Res<Vec<&'static str>> {
    let mut fd = Finder::default();
    fd.visit_block(&f.block);
    if fd.spawn_at.len() != 1 {
        return Err(format!("Concrete::spawn: expected one `spawn_at`, found {}", fd.spawn_at.len()));
    }
    let call = fd.spawn_at[0];
    if sq(&*call.receiver) != "handle" || call.args.len() != 2 {
        return Err("Concrete::spawn: not `handle.spawn_at(<future>, meta)`".into());
    }
    let syn::Expr::Async(a) = &call.args[0] else {
        return Err("Concrete::spawn: first argument of spawn_at is not an async block".into());
    };
    // the function body must be: destructure + the spawn_at call
    if f.block.stmts.len() != 2 || stmt_text(&f.block.stmts[0]) != "letConcrete{callback,func}=*self" {
        return Err("Concrete::spawn: body is not `let Concrete {..} = *self; handle.spawn_at(..)`".into());
    }
    task_stmts(&a.block.stmts, "Concrete::spawn future", "func().await")
}

fn exit_stmts(b: &syn::Block) -> Res<Vec<&'static str>> {
    let mut out = vec![];
    for st in &b.stmts {
        let t = stmt_text(st);
        if t == "self.run()" {
            out.push("tickOnce");
        } else if t == "whileself.run(){}" {
            out.push("tickUntilIdle");
        } else if t == "returnresult" {
            out.push("returnResult");
        } else {
            return Err(format!("block_on_at: unrecognised statement after Poll::Ready `{t}`"));
        }
    }
    Ok(out)
}

fn lit(v: &[&str]) -> String {
    v.iter().map(|k| format!(".{k}")).collect::<Vec<_>>().join(", ")
}

pub fn generate(repo: &Path) -> Res<String> {
    let rel_d = "compio-dispatcher/src/lib.rs";
    let rel_r = "compio-runtime/src/lib.rs";
    let fd = parse_file(&repo.join(rel_d))?;
    let fr = parse_file(&repo.join(rel_r))?;

    let (then_k, else_k) = worker_loop(find_fn(&fd, "Dispatcher", None, "new_impl")?)?;
    let (ok_arm, err_arm) = dispatch_arms(find_fn(&fd, "Dispatcher", None, "dispatch")?)?;
    let jf = join_body(find_fn(&fd, "Dispatcher", None, "join")?)?;
    let task_body = spawn_body(find_fn(&fd, "Concrete", Some("Spawnable"), "spawn")?)?;
    let blocking_body = task_stmts(&find_fn(&fd, "Concrete", Some("Dispatchable"), "run")?.block.stmts, "Concrete::run", "func()")?;

    // DispatcherBuilder::new: default of `concurrent`
    let bn = sq(&find_fn(&fd, "DispatcherBuilder", None, "new")?.block);
    let default_conc = match (bn.contains("concurrent:true,"), bn.contains("concurrent:false,")) {
        (true, false) => "true",
        (false, true) => "false",
        _ => return Err("DispatcherBuilder::new: default of `concurrent` not recognised".into()),
    };

    // Runtime::block_on_at
    let bo = find_fn(&fr, "Runtime", None, "block_on_at")?;
    let mut f = Finder::default();
    f.visit_block(&bo.block);
    if f.ready_ifs.len() != 1 {
        return Err(format!("block_on_at: expected one `if let Poll::Ready(result) = ..`, found {}", f.ready_ifs.len()));
    }
    let ri = f.ready_ifs[0];
    if let syn::Expr::Let(l) = &*ri.cond {
        if sq(&*l.expr) != "future.as_mut().poll(&mutcontext)" {
            return Err(format!("block_on_at: Poll::Ready is not matched against the poll of the main future: {}", sq(&*l.expr)));
        }
    }
    if ri.else_branch.is_some() {
        return Err("block_on_at: `if let Poll::Ready` has an else branch".into());
    }
    let exit = exit_stmts(&ri.then_branch)?;
    if f.whiles.iter().any(|w| !ri.then_branch.stmts.iter().any(|s| matches!(s, syn::Stmt::Expr(syn::Expr::While(x), _) if std::ptr::eq(x, *w)))) {
        return Err("block_on_at: a `while` loop outside of the Poll::Ready branch".into());
    }
    // unwind path: the final `match result`
    let last = bo.block.stmts.last().ok_or("block_on_at: empty body")?;
    let syn::Stmt::Expr(syn::Expr::Match(m), None) = last else {
        return Err("block_on_at: the body does not end in `match result`".into());
    };
    if sq(&*m.expr) != "result" || m.arms.len() != 2 {
        return Err("block_on_at: final match is not `match result` with two arms".into());
    }
    let mut unwind = vec![];
    let mut ok_seen = false;
    for arm in &m.arms {
        match sq(&arm.pat).as_str() {
            "Ok(output)" => {
                if sq(&*arm.body) != "output" {
                    return Err("block_on_at: Ok arm is not `output`".into());
                }
                ok_seen = true;
            }
            "Err(payload)" => {
                let syn::Expr::Block(b) = &*arm.body else {
                    return Err("block_on_at: Err arm is not a block".into());
                };
                for st in &b.block.stmts {
                    let t = stmt_text(st);
                    if t == "self.enter(||self.executor.clear())" {
                        unwind.push("clearExecutor");
                    } else if t == "resume_unwind(payload)" {
                        unwind.push("resumeUnwind");
                    } else {
                        return Err(format!("block_on_at: unrecognised statement on the unwind path `{t}`"));
                    }
                }
            }
            other => return Err(format!("block_on_at: unrecognised arm `{other}`")),
        }
    }
    if !ok_seen {
        return Err("block_on_at: no Ok arm".into());
    }

    // Runtime::drop
    let dr = find_fn(&fr, "Runtime", Some("Drop"), "drop")?;
    let mut drop_stmts = vec![];
    for st in &dr.block.stmts {
        let t = stmt_text(st);
        if t == "ifRc::strong_count(&self.executor)>1{return;}" {
            drop_stmts.push("skipIfShared");
        } else if t == "self.enter(||{self.executor.clear();})" {
            drop_stmts.push("clearExecutor");
        } else {
            return Err(format!("Runtime::drop: unrecognised statement `{t}`"));
        }
    }

    let mut s = header("DispatcherLoop", &[rel_d, rel_r]);
    s.push_str("namespace Compio.Gen.DispatcherLoop\n\n");
    s.push_str("/-- what the worker loop does with the `JoinHandle` of the task it has just spawned -/\ninductive AfterSpawn where\n  | detach      -- `task.detach()`: straight back to `receiver.recv_async().await`\n  | awaitTask   -- `task.await.ok();`: the loop is suspended until that task has ended\n  deriving DecidableEq, Repr\n\n");
    writeln!(s, "/-- `if concurrent {{ .. }} else {{ .. }}` in the `while let Ok(Spawning {{..}}) = receiver.recv_async().await` loop of\n`Dispatcher::new_impl` (the loop is the whole future given to `block_on_at`) -/\ndef afterSpawn (concurrent : Bool) : AfterSpawn := if concurrent then .{then_k} else .{else_k}\n").unwrap();
    s.push_str("/-- arms of `match self.sender.send(Spawning {..})` in `Dispatcher::dispatch` -/\ninductive DispatchArm where\n  | okReceiver       -- `Ok(_) => Ok(rx)`\n  | errClosureBack   -- `Err(err) => Err(DispatchError(recovered.func))`: the closure is handed back\n  deriving DecidableEq, Repr\n\n");
    writeln!(s, "def dispatchArm (sendOk : Bool) : DispatchArm := if sendOk then .{ok_arm} else .{err_arm}\n").unwrap();
    s.push_str("/-- statements of the future spawned for a dispatched closure / of `Dispatchable::run` -/\ninductive TaskStmt where\n  | callFunc     -- `let res = func().await;` (`func()` for a blocking closure)\n  | sendResult   -- `callback.send(res).ok();`\n  deriving DecidableEq, Repr\n\n");
    writeln!(s, "/-- `Concrete::spawn`: the async block given to `handle.spawn_at`, in source order -/\ndef taskBody : List TaskStmt := [{}]\n", lit(&task_body)).unwrap();
    writeln!(s, "/-- `Concrete::run` (blocking pool), in source order -/\ndef blockingBody : List TaskStmt := [{}]\n", lit(&blocking_body)).unwrap();
    s.push_str("/-- statements of `Dispatcher::join` -/\ninductive JoinStmt where\n  | dropSender     -- `drop(self.sender);`\n  | makeChannel    -- `let (tx, rx) = oneshot::channel::<Vec<_>>();`\n  | handJoiner     -- `if let Err(f) = self.pool.dispatch(<joiner>) { <refused> }`\n  | awaitResults   -- `let results = rx.await.map_err(..)?;`\n  | resumePanics   -- `for res in results { res.unwrap_or_else(|e| resume_unwind(e)); }`\n  | returnOk       -- `Ok(())`\n  deriving DecidableEq, Repr\n\n");
    writeln!(s, "/-- `Dispatcher::join`, in source order -/\ndef joinBody : List JoinStmt := [{}]\n", lit(&jf.body)).unwrap();
    s.push_str("/-- what `join` does with a joiner closure the blocking pool refused -/\ninductive Refused where\n  | spawnThread   -- `std::thread::spawn(f.0);`\n  | returnErr     -- `return Err(..)`\n  | ignore        -- nothing\n  deriving DecidableEq, Repr\n\n");
    writeln!(s, "def joinerRefused : Refused := .{}\n", jf.refused).unwrap();
    s.push_str("/-- statements of the joiner closure -/\ninductive JoinerStmt where\n  | joinAllThreads   -- `let results = self.threads.into_iter().map(|thread| thread.join()).collect();`\n  | sendResults      -- `tx.send(results).ok();`\n  deriving DecidableEq, Repr\n\n");
    writeln!(s, "def joinerBody : List JoinerStmt := [{}]\n", lit(&jf.joiner)).unwrap();
    writeln!(s, "/-- `DispatcherBuilder::new`: default of `concurrent` -/\ndef defaultConcurrent : Bool := {default_conc}\n").unwrap();
    s.push_str("/-- statements of `Runtime::block_on_at` once the main future is `Poll::Ready` -/\ninductive ExitStmt where\n  | tickOnce        -- `self.run();` one `Executor::tick`\n  | tickUntilIdle   -- `while self.run() {}`\n  | returnResult    -- `return result;`\n  deriving DecidableEq, Repr\n\n");
    writeln!(s, "def blockOnReady : List ExitStmt := [{}]\n", lit(&exit)).unwrap();
    s.push_str("/-- statements of the unwind path of `block_on_at` / of `Runtime::drop` -/\ninductive CleanStmt where\n  | clearExecutor   -- `self.enter(|| self.executor.clear())`\n  | resumeUnwind    -- `resume_unwind(payload)`\n  | skipIfShared    -- `if Rc::strong_count(&self.executor) > 1 { return; }`\n  deriving DecidableEq, Repr\n\n");
    writeln!(s, "def blockOnUnwind : List CleanStmt := [{}]\n", lit(&unwind)).unwrap();
    writeln!(s, "def runtimeDrop : List CleanStmt := [{}]\n", lit(&drop_stmts)).unwrap();
    s.push_str("end Compio.Gen.DispatcherLoop\n");
    Ok(s)
}
