//! compio-runtime/src/time/future.rs `Interval::tick`  ->  Gen/IntervalTick.lean
//!
//! `tick` is an `async fn`: a coroutine whose only cancellation point (a dropped `tick()` future) is
//! its `.await`. What a cancelled future leaves behind is decided by which writes to `self` happen
//! BEFORE the await. The body has the shape
//!
//!     if !self.first_ticked { <first branch> } else { <periodic branch> }
//!
//! Each branch is a straight-line list of statements; every statement is classified as
//! `await` (contains the `sleep_until(..).await`), `setFirstTicked` (`self.first_ticked = true`),
//! `pure` (a `let` without a write to `self`) or `ret` (the tail expression). The generated Lean
//! literals are the two statement-kind lists in source order, which the C09 interval theorems
//! (`Compio.Props.C09.interval_coroutine_*`) are stated over.
//!
//! Fails closed: another shape of the body, a second await, any other write to `self` is an error.

use std::{fmt::Write as _, path::Path};

use syn::visit::Visit;

use crate::{Res, header, parse_file, tokens};

fn squash(s: &str) -> String {
    s.chars().filter(|c| !c.is_whitespace()).collect()
}

#[derive(Default)]
struct Facts {
    awaits: usize,
    await_on_sleep_until: bool,
    self_writes: Vec<String>,
}

impl<'ast> Visit<'ast> for Facts {
    fn visit_expr_await(&mut self, a: &'ast syn::ExprAwait) {
        self.awaits += 1;
        if squash(&tokens(&a.base)).starts_with("sleep_until(") {
            self.await_on_sleep_until = true;
        }
        syn::visit::visit_expr_await(self, a);
    }

    fn visit_expr_assign(&mut self, a: &'ast syn::ExprAssign) {
        let l = squash(&tokens(&a.left));
        if l.starts_with("self.") {
            self.self_writes.push(format!("{l}={}", squash(&tokens(&a.right))));
        }
        syn::visit::visit_expr_assign(self, a);
    }

    fn visit_expr_binary(&mut self, b: &'ast syn::ExprBinary) {
        // compound assignment to a field of self (`self.x += ..`)
        let is_assign_op = matches!(
            b.op,
            syn::BinOp::AddAssign(_)
                | syn::BinOp::SubAssign(_)
                | syn::BinOp::MulAssign(_)
                | syn::BinOp::DivAssign(_)
                | syn::BinOp::RemAssign(_)
                | syn::BinOp::BitAndAssign(_)
                | syn::BinOp::BitOrAssign(_)
                | syn::BinOp::BitXorAssign(_)
                | syn::BinOp::ShlAssign(_)
                | syn::BinOp::ShrAssign(_)
        );
        if is_assign_op && squash(&tokens(&b.left)).starts_with("self.") {
            self.self_writes.push(squash(&tokens(b)));
        }
        syn::visit::visit_expr_binary(self, b);
    }
}

fn classify(stmts: &[syn::Stmt], what: &str) -> Res<Vec<&'static str>> {
    let mut kinds = vec![];
    let mut awaits = 0;
    for (i, st) in stmts.iter().enumerate() {
        let mut f = Facts::default();
        f.visit_stmt(st);
        let last = i + 1 == stmts.len();
        let kind = if f.awaits > 0 {
            if f.awaits != 1 || !f.await_on_sleep_until || !f.self_writes.is_empty() {
                return Err(format!("Interval::tick {what}: unsupported await statement `{}`", tokens(st)));
            }
            if !matches!(st, syn::Stmt::Expr(syn::Expr::Await(_), Some(_))) {
                return Err(format!("Interval::tick {what}: the await is not a statement of its own: `{}`", tokens(st)));
            }
            awaits += 1;
            "await"
        } else if !f.self_writes.is_empty() {
            if f.self_writes != ["self.first_ticked=true"] || !matches!(st, syn::Stmt::Expr(syn::Expr::Assign(_), Some(_))) {
                return Err(format!("Interval::tick {what}: unsupported write to self `{}`", tokens(st)));
            }
            "setFirstTicked"
        } else if last && matches!(st, syn::Stmt::Expr(_, None)) {
            "ret"
        } else if matches!(st, syn::Stmt::Local(_)) {
            "pure"
        } else {
            return Err(format!("Interval::tick {what}: unsupported statement `{}`", tokens(st)));
        };
        kinds.push(kind);
    }
    if awaits != 1 {
        return Err(format!("Interval::tick {what}: expected exactly one await, found {awaits}"));
    }
    if kinds.last() != Some(&"ret") {
        return Err(format!("Interval::tick {what}: no tail expression"));
    }
    Ok(kinds)
}

pub fn generate(repo: &Path) -> Res<String> {
    let rel = "compio-runtime/src/time/future.rs";
    let file = parse_file(&repo.join(rel))?;
    let mut body = None;
    for it in &file.items {
        let syn::Item::Impl(im) = it else { continue };
        if tokens(&im.self_ty) != "Interval" || im.trait_.is_some() {
            continue;
        }
        for ii in &im.items {
            let syn::ImplItem::Fn(f) = ii else { continue };
            if f.sig.ident == "tick" {
                if f.sig.asyncness.is_none() {
                    return Err("Interval::tick is not an async fn".into());
                }
                body = Some(&f.block);
            }
        }
    }
    let body = body.ok_or("Interval::tick not found")?;
    if body.stmts.len() != 1 {
        return Err("Interval::tick: expected a single if/else expression".into());
    }
    let syn::Stmt::Expr(syn::Expr::If(ife), None) = &body.stmts[0] else {
        return Err("Interval::tick: expected a single if/else expression".into());
    };
    if squash(&tokens(&ife.cond)) != "!self.first_ticked" {
        return Err(format!("Interval::tick: unexpected condition `{}`", tokens(&ife.cond)));
    }
    let Some((_, els)) = &ife.else_branch else { return Err("Interval::tick: no else branch".into()) };
    let syn::Expr::Block(els) = &**els else { return Err("Interval::tick: else branch is not a block".into()) };
    let first = classify(&ife.then_branch.stmts, "first branch")?;
    let periodic = classify(&els.block.stmts, "periodic branch")?;
    if first.iter().filter(|k| **k == "setFirstTicked").count() != 1 {
        return Err("Interval::tick first branch: expected exactly one `self.first_ticked = true`".into());
    }
    if squash(&tokens(ife.then_branch.stmts.last().unwrap())) != "self.start" {
        return Err("Interval::tick first branch: the value returned is not `self.start`".into());
    }
    if periodic.contains(&"setFirstTicked") {
        return Err("Interval::tick periodic branch writes first_ticked".into());
    }

    let mut s = header("IntervalTick", &[rel]);
    s.push_str("namespace Compio.Gen.IntervalTick\n\n");
    s.push_str("/-- kinds of statements of one branch of `Interval::tick` -/\ninductive Stmt where\n  | await            -- `sleep_until(..).await`: the only point where a dropped `tick()` future stops\n  | setFirstTicked   -- `self.first_ticked = true`\n  | pure             -- a `let` that does not write to `self`\n  | ret              -- the tail expression\n  deriving DecidableEq, Repr\n\n");
    let lit = |ks: &[&str]| ks.iter().map(|k| format!(".{k}")).collect::<Vec<_>>().join(", ");
    writeln!(s, "/-- the `if !self.first_ticked` branch, statement kinds in source order -/\ndef firstBranch : List Stmt := [{}]\n", lit(&first)).unwrap();
    writeln!(s, "/-- the `else` (periodic) branch, statement kinds in source order -/\ndef periodicBranch : List Stmt := [{}]\n", lit(&periodic)).unwrap();
    s.push_str("end Compio.Gen.IntervalTick\n");
    Ok(s)
}
